#!/venv/bin/python
"""Confirm an independently written seeded change and keep it under /verif/seeded/<PROP>-<k>/.

usage: tools/ingest_seed.py CNN k [worktree]     (default worktree /tmp/seed_CNN, change in out/k/)
Confirms, in the scratch worktree (never in /repo):
  demo passes on the pinned tree; patch applies; demo FAILS with the patch; the 171 stable tests pass
  with the patch.  Only then copies patch.diff, the demonstration and notes and writes meta.json.
"""
import json, os, shutil, subprocess, sys, time
prop, k = sys.argv[1].upper(), sys.argv[2]
wt = sys.argv[3] if len(sys.argv) > 3 else f"/tmp/seed_{prop}"
src = os.path.join(wt, "out", k)
def run(cmd, **kw):
    return subprocess.run(cmd, cwd=wt, capture_output=True, text=True, **kw)
env = dict(os.environ, PYTHONPATH=wt, TMPDIR="/var/tmp")
demo = next((f for f in ("demo.py", "test_demo.py") if os.path.exists(os.path.join(src, f))), None)
assert demo, "no demo"
def run_demo():
    cmd = ["/venv/bin/python", os.path.join(src, demo)] if demo == "demo.py" else ["/venv/bin/python", "-m", "pytest", "-q", "-p", "no:cacheprovider", os.path.join(src, demo)]
    try:
        r = subprocess.run(cmd, cwd=wt, env=env, capture_output=True, text=True, timeout=300)
        return r.returncode, (r.stdout + r.stderr)[-600:]
    except subprocess.TimeoutExpired:
        return "timeout", ""
assert run(["git", "status", "--porcelain", "--untracked-files=no"]).stdout.strip() == "", "worktree dirty"
rc0, out0 = run_demo()
ap = run(["git", "apply", os.path.join(src, "patch.diff")])
assert ap.returncode == 0, "patch does not apply: " + ap.stderr
try:
    rc1, out1 = run_demo()
    t = subprocess.run(["/var/tmp/seedtools/run_stable_tests.sh", wt], capture_output=True, text=True, timeout=3000)
    tests_ok = "FINAL: 171 passed" in t.stdout
    tests_tail = t.stdout.strip().splitlines()[-1] if t.stdout.strip() else ""
finally:
    run(["git", "checkout", "--", "."])
ok = rc0 == 0 and rc1 not in (0, "timeout") and tests_ok
print(t.stdout[-400:] if not tests_ok else "")
print(f"{prop}-{k}: demo pinned rc={rc0}, demo patched rc={rc1}, tests: {tests_tail} -> {'KEEP' if ok else 'REJECT'}")
if not ok:
    print(out0[-300:], "\n---\n", out1[-300:]); sys.exit(1)
dst = os.path.join("/verif/seeded", f"{prop}-{k}")
shutil.rmtree(dst, ignore_errors=True); os.makedirs(dst)
for f in os.listdir(src):
    if os.path.isfile(os.path.join(src, f)) and os.path.getsize(os.path.join(src, f)) < 300_000:
        shutil.copy(os.path.join(src, f), dst)
notes = open(os.path.join(src, "notes.md")).read() if os.path.exists(os.path.join(src, "notes.md")) else ""
json.dump({"property": prop, "checks": [prop], "demo": demo,
           "needs_to_manifest": notes[:1500],
           "confirmed": {"at": time.strftime("%Y-%m-%dT%H:%M:%S"), "worktree": wt,
                         "demo_on_pinned_rc": rc0, "demo_with_patch_rc": rc1, "demo_with_patch_tail": out1[-400:],
                         "stable_tests_with_patch": tests_tail,
                         "commands": [f"git -C {wt} apply out/{k}/patch.diff", f"PYTHONPATH={wt} /venv/bin/python out/{k}/{demo}", f"/var/tmp/seedtools/run_stable_tests.sh {wt}", "git checkout -- ."]}},
          open(os.path.join(dst, "meta.json"), "w"), indent=1)
