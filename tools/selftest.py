#!/venv/bin/python
"""Self-validation: apply each planned mutant (selftest/CNN/<name>.diff) to a scratch copy of
/repo/streamflow outside /repo and /verif, run `./check CNN --tier quick` against it through
VF_REPO, and require exit 1 with a VIOLATION line.  Scratch copies are removed as soon as used.
Usage: tools/selftest.py [CNN ...] [-j N]     -> selftest/RESULTS.json
"""
import concurrent.futures as cf, json, os, shutil, subprocess, sys, time
ROOT = os.path.dirname(os.path.dirname(os.path.abspath(__file__)))
args = sys.argv[1:]
jobs = 2
sample = None
if "--sample" in args:
    i = args.index("--sample"); sample = int(args[i + 1]); del args[i:i + 2]
if "-j" in args:
    i = args.index("-j"); jobs = int(args[i + 1]); del args[i:i + 2]
st = os.path.join(ROOT, "selftest")
props = [a.upper() for a in args] or sorted(d for d in os.listdir(st) if os.path.isdir(os.path.join(st, d)))
res_path = os.path.join(st, "RESULTS.json")
results = json.load(open(res_path)) if os.path.exists(res_path) else {}

def one(prop, name):
    scratch = f"/var/tmp/selftest_{prop}_{name}_{os.getpid()}".replace(".diff", "")
    shutil.rmtree(scratch, ignore_errors=True); os.makedirs(scratch)
    try:
        tar = subprocess.run(["git", "-C", "/repo", "archive", "--format=tar", "HEAD", "streamflow"], capture_output=True, check=True).stdout
        subprocess.run(["tar", "-xf", "-"], cwd=scratch, input=tar, check=True)
        r = subprocess.run(["patch", "-p1", "-s", "-i", os.path.join(st, prop, name)], cwd=scratch, capture_output=True, text=True)
        if r.returncode != 0:
            return {"error": "patch failed: " + (r.stdout + r.stderr)[-300:]}
        t0 = time.time()
        pr = subprocess.run(["./check", prop, "--tier", "quick", "--no-evidence"], cwd=ROOT, env=dict(os.environ, VF_REPO=scratch, VERIF_TMP=scratch + "/tmp"), capture_output=True, text=True, timeout=3600)
        viol = [l for l in pr.stdout.splitlines() if l.startswith("VIOLATION")]
        return {"exit": pr.returncode, "caught": pr.returncode == 1 and bool(viol), "wall_s": round(time.time() - t0, 1),
                "first": next((l for l in pr.stdout.splitlines() if l.startswith(f"[{prop}]") and "held" not in l and "tier=" not in l and "monitors" not in l), "")[:300]}
    except subprocess.TimeoutExpired:
        return {"exit": "timeout", "caught": False}
    finally:
        shutil.rmtree(scratch, ignore_errors=True)

todo = []
for p in props:
    if os.path.isdir(os.path.join(st, p)):
        names = sorted(n for n in os.listdir(os.path.join(st, p)) if n.endswith(".diff"))
        if sample is not None and len(names) > sample:  # deterministic spread over the alphabetical list
            step = len(names) / sample
            names = [names[int(k * step)] for k in range(sample)]
        todo += [(p, n) for n in names]
with cf.ThreadPoolExecutor(max_workers=jobs) as ex:
    futs = {ex.submit(one, p, n): (p, n) for p, n in todo}
    for f in cf.as_completed(futs):
        p, n = futs[f]
        results.setdefault(p, {})[n] = f.result()
        print(p, n, results[p][n], flush=True)
        json.dump(results, open(res_path, "w"), indent=1, sort_keys=True)
missed = [(p, n) for p in results for n, v in results[p].items() if not v.get("caught")]
print("missed:", missed)
