#!/venv/bin/python
"""Merge tools/findings.d/*.json (the per-property fragments written while building) into known_findings.json and mark the mechanisms repaired by a
`fix:` commit in /repo (tools/fixed.json: mechanism -> [commit, ...]) as status "fixed".
Fixed entries suppress nothing; they are kept as the record `fixed: property=<id> <commit> <what failed>`."""
import glob, json, os
ROOT = os.path.dirname(os.path.dirname(os.path.abspath(__file__)))
fixed = json.load(open(os.path.join(ROOT, "tools", "fixed.json")))
out = []
seen = set()
for f in sorted(glob.glob(os.path.join(ROOT, "tools", "findings.d", "*.json"))):
    for e in json.load(open(f))["findings"]:
        if e["mechanism"] in seen:
            continue
        seen.add(e["mechanism"])
        e = dict(e)
        if e["mechanism"] in fixed:
            e["status"] = "fixed"
            e["commit"] = fixed[e["mechanism"]]
            e["record"] = f"fixed: property={e['property']} {' '.join(fixed[e['mechanism']])} {e['what'][:160]}"
        out.append(e)
doc = {
    "_comment": "Genuine defects of alpha-unito/streamflow found by the checks, keyed by MECHANISM (never by seed or case hash). status=open entries are reported as KNOWN-FINDING lines and do not fail a check; status=fixed entries (repaired by the listed `fix:` commit in /repo) suppress nothing. Never written at run time. Source fragments: tools/findings.d/ (merged by tools/merge_findings.py; not read at run time).",
    "findings": out,
}
json.dump(doc, open(os.path.join(ROOT, "known_findings.json"), "w"), indent=1)
print(len(out), "findings;", sum(1 for e in out if e["status"] == "fixed"), "fixed")
