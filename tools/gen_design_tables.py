#!/venv/bin/python
"""Rewrite the generated region of DESIGN.md (between the BEGIN/END GENERATED markers):
per-check measured numbers (from evidence/), planned-mutant results (selftest/RESULTS.json),
independent seeded changes and which check catches them (seeded/RESULTS.json + meta.json),
and the findings list (known_findings.json)."""
import json, os, glob
ROOT = os.path.dirname(os.path.dirname(os.path.abspath(__file__)))
out = []
out.append("### 8.1 Measured coverage of the committed evidence (quick tier)\n")
out.append("| check | level | evaluations | distinct non-trivial | wall s | known-finding mechanisms hit |")
out.append("|---|---|---|---|---|---|")
for f in sorted(glob.glob(os.path.join(ROOT, "evidence", "C*.json"))):
    e = json.load(open(f)); c = e["coverage"]
    out.append(f"| {e['property_id']} | {e['level']} | {c['evaluations']} | {c['distinct_nontrivial']} | {e['wall_s']} | {', '.join(sorted(c.get('known_finding_hits', {}))) or '-'} |")
st = os.path.join(ROOT, "selftest", "RESULTS.json")
if os.path.exists(st):
    r = json.load(open(st))
    out.append("\n### 8.2 Planned mutants (selftest/, applied to a scratch copy through VF_REPO, quick tier)\n")
    out.append("| check | mutants | caught | missed |")
    out.append("|---|---|---|---|")
    for p in sorted(r):
        ms = r[p]; caught = [m for m, v in ms.items() if v.get("caught")]; missed = [m for m, v in ms.items() if not v.get("caught")]
        out.append(f"| {p} | {len(ms)} | {len(caught)} | {', '.join(m.replace('.diff','') for m in missed) or '-'} |")
sd = os.path.join(ROOT, "seeded", "RESULTS.json")
if os.path.exists(sd):
    r = json.load(open(sd))
    out.append("\n### 8.3 Independently written property-breaking changes (seeded/) and the checks that catch them\n")
    out.append("Each change was written by a fresh sub-agent that saw only the property text and a scratch worktree; it passes the 171 pinned tests and has a demonstration that fails only with the change (confirmed by `tools/ingest_seed.py`).\n")
    out.append("| seeded change | breaks | what it needs to manifest (first line of the author's notes) | caught by | first report |")
    out.append("|---|---|---|---|---|")
    for sid in sorted(r):
        v = r[sid]
        meta = json.load(open(os.path.join(ROOT, "seeded", sid, "meta.json")))
        need = (meta.get("summary") or meta.get("needs_to_manifest", "")).strip().splitlines()
        need = next((l.strip("# ").strip() for l in need if l.strip()), "")[:140].replace("|", "/")
        cb = [p for p, x in v.get("checks", {}).items() if x.get("exit") == 1]
        first = ""
        for p in cb:
            t = v["checks"][p].get("tail") or []
            first = next((l for l in t if l.startswith(f"[{p}]")), "")[:110].replace("|", "/")
            break
        out.append(f"| {sid} | {v['property']} | {need} | {', '.join(cb) or '**missed**'} | {first} |")
kf = json.load(open(os.path.join(ROOT, "known_findings.json")))["findings"]
out.append("\n### 8.4 Findings (known_findings.json)\n")
out.append("| mechanism | status | what fails |")
out.append("|---|---|---|")
for e in kf:
    st_ = e["status"] + (" " + " ".join(e.get("commit", [])) if e["status"] == "fixed" else "")
    out.append(f"| {e['mechanism']} | {st_} | {e['what'][:230].replace('|','/')} |")
p = os.path.join(ROOT, "DESIGN.md")
s = open(p).read()
b, e_ = "<!-- BEGIN GENERATED -->", "<!-- END GENERATED -->"
assert b in s and e_ in s
s = s[: s.index(b) + len(b)] + "\n" + "\n".join(out) + "\n" + s[s.index(e_):]
open(p, "w").write(s)
print("DESIGN.md tables regenerated")
