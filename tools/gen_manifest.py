#!/venv/bin/python
"""Regenerate /verif/MANIFEST.json from the META of every vf/checks/cNN.py (keeps it schema-valid)."""
import importlib, json, os, sys
ROOT = os.path.dirname(os.path.dirname(os.path.abspath(__file__)))
sys.path.insert(0, ROOT)
props = [json.loads(l) for l in open(os.path.join(ROOT, "properties.jsonl"))]
NA_REASONS = {}
na_file = os.path.join(ROOT, "tools", "not_applicable.json")
if os.path.exists(na_file):
    NA_REASONS = json.load(open(na_file))
checks, na = [], []
NO_THOROUGH = set(open(os.path.join(ROOT, "tools", "no_thorough.txt")).read().split()) if os.path.exists(os.path.join(ROOT, "tools", "no_thorough.txt")) else set()
REGISTERED = set(open(os.path.join(ROOT, "tools", "registered.txt")).read().split())
for p in props:
    pid = p["id"]
    path = os.path.join(ROOT, "vf", "checks", pid.lower() + ".py")
    if not os.path.exists(path) or pid in NA_REASONS or pid not in REGISTERED:
        na.append({"property_id": pid, "reason": NA_REASONS.get(pid, "check not built yet in this round; planned in DESIGN.md section 3")})
        continue
    mod = importlib.import_module("vf.checks." + pid.lower())
    meta = getattr(mod, "META", {})
    pl = mod.plan("quick")
    entry = {
        "property_id": pid,
        "quick_cmd": f"./check {pid} --tier quick",
        "thorough_cmd": f"./check {pid} --tier thorough",
        "evidence_file": f"/verif/evidence/{pid}.json",
        "replay_cmd_template": f"./check {pid} --replay {{path}}",
        "engine": "vf",
        "level_claimed": {
            "category": pl.get("level", "exploration"),
            "text": meta.get("text", pl.get("rule", "")),
            "design_ref": f"DESIGN.md section 3, {pid}",
        },
        "level_note": meta.get("note", "; ".join(pl.get("assumptions", [])) or "executions produced by the seeded workloads only"),
        "technique": meta.get("technique", "runtime monitoring: generated workloads + reference-model oracle"),
    }
    if pid in NO_THOROUGH:  # thorough tier not registered (see DESIGN.md 7.7): quick only
        entry.pop("thorough_cmd")
    checks.append(entry)
m = {
    "version": 1,
    "setup_cmd": "/venv/bin/python -m pip install -q --no-index --find-links /opt/veriftools/wheels --target /verif/.deps icontract deal",
    "hooks": {
        "guard": "STREAMFLOW_VERIF",
        "enable": "./check exports STREAMFLOW_VERIF=1; all instrumentation is applied from /verif at run time by wrapping methods of the imported streamflow classes and registering harness plug-ins; /repo carries no hook code",
        "baseline_off_cmd": "cd /repo && /venv/bin/python -m pytest -ra -q -p no:cacheprovider --timeout=900 --continue-on-collection-errors",
        "source_commits": [],
        "add_only": True,
    },
    "engines": [{"name": "vf", "path": "/verif/vf", "serves_properties": [c["property_id"] for c in checks],
                 "kind_free_text": "Python runtime-monitoring framework: sharded seeded workloads on the real classes, schedule perturbation at legal yield points, quiescence-based deadlock detection, boundary hooks, reference models, differential oracles (cwltool, local filesystem, GNU tar)"}],
    "checks": checks,
    "notes": "Runtime monitoring only. exit 0 = held on everything explored, 1 = VIOLATION line(s), 2 = INCONCLUSIVE (deciding monitor not reached / watchdog). Known defects of the unchanged tree are in known_findings.json and printed as KNOWN-FINDING lines.",
    "not_applicable": na,
}
json.dump(m, open(os.path.join(ROOT, "MANIFEST.json"), "w"), indent=1)
import jsonschema
jsonschema.validate(m, json.load(open("/root/.vp/MANIFEST.schema.json")))
print("MANIFEST ok:", len(checks), "checks,", len(na), "not yet claimed")
