#!/bin/bash
# provisional: tools/try_seed.sh CNN k [check ...]  -> run checks against /tmp/seed_CNN/out/k/patch.diff via VF_REPO
P=$1; K=$2; shift 2; CHECKS="${@:-$P}"
S=/var/tmp/try_${P}_${K}_$$; rm -rf $S; mkdir -p $S
git -C /repo archive HEAD streamflow | tar -x -C $S
(cd $S && patch -p1 -s < /tmp/seed_$P/out/$K/patch.diff) || { echo "PATCH FAILED"; rm -rf $S; exit 3; }
for C in $CHECKS; do
  VF_REPO=$S VERIF_TMP=$S/tmp timeout 3000 /verif/check $C --no-evidence > $S/out.txt 2>&1; rc=$?
  echo "== seed $P-$K check $C exit=$rc"; grep -E "^\[$C\] (unclassified|C[0-9]+/)|VIOLATION|INCONCLUSIVE|KNOWN" $S/out.txt | head -4 | cut -c1-300
done
rm -rf $S
