#!/venv/bin/python
"""Run the checks against every kept seeded change (/verif/seeded/<id>/patch.diff).

For each seeded change: copy /repo/streamflow to a scratch dir outside /repo and /verif, apply the
patch there, run the quick tier of the property's check (and optional extra checks) through
VF_REPO, record exit code and the first VIOLATION line, remove the scratch copy.
Usage: tools/run_seeded.py [id ...] [--tier quick] [--all-checks]
Results: seeded/RESULTS.json
"""
import json, os, shutil, subprocess, sys, time
ROOT = os.path.dirname(os.path.dirname(os.path.abspath(__file__)))
args = [a for a in sys.argv[1:] if not a.startswith("--")]
tier = "thorough" if "--thorough" in sys.argv else "quick"
sd = os.path.join(ROOT, "seeded")
ids = args or sorted(d for d in os.listdir(sd) if os.path.isdir(os.path.join(sd, d)))
res_path = os.path.join(sd, "RESULTS.json")
results = json.load(open(res_path)) if os.path.exists(res_path) else {}
for sid in ids:
    d = os.path.join(sd, sid)
    meta = json.load(open(os.path.join(d, "meta.json")))
    scratch = f"/var/tmp/seeded_{sid}_{os.getpid()}"
    shutil.rmtree(scratch, ignore_errors=True)
    os.makedirs(scratch)
    subprocess.run(["git", "-C", "/repo", "archive", "--format=tar", "HEAD", "streamflow"], stdout=open(scratch + "/s.tar", "wb"), check=True)
    subprocess.run(["tar", "-xf", "s.tar"], cwd=scratch, check=True)
    os.remove(scratch + "/s.tar")
    # patch.diff is the author's change against the pinned commit; patch_rebased.diff (when present) is the
    # same change carried over the `fix:` commits that touched the same lines of /repo
    pf = os.path.join(d, "patch_rebased.diff") if os.path.exists(os.path.join(d, "patch_rebased.diff")) else os.path.join(d, "patch.diff")
    r = subprocess.run(["patch", "-p1", "-s", "--no-backup-if-mismatch", "-i", pf], cwd=scratch, capture_output=True, text=True)
    if r.returncode != 0:
        print(sid, "PATCH FAILED", r.stdout, r.stderr)
        results[sid] = {"error": "patch failed"}
        shutil.rmtree(scratch, ignore_errors=True)
        continue
    props = meta.get("checks") or [meta["property"]]
    out = {}
    for p in props:
        if not os.path.exists(os.path.join(ROOT, "vf", "checks", p.lower() + ".py")):
            out[p] = {"exit": None, "note": "check not built"}
            continue
        t0 = time.time()
        env = dict(os.environ, VF_REPO=scratch)
        try:
            pr = subprocess.run(["./check", p, "--tier", tier, "--no-evidence"], cwd=ROOT, env=env, capture_output=True, text=True, timeout=3600)
            viol = [l for l in pr.stdout.splitlines() if l.startswith("VIOLATION")]
            out[p] = {"exit": pr.returncode, "violation": viol[:1], "wall_s": round(time.time() - t0, 1),
                      "tail": pr.stdout.splitlines()[-4:]}
        except subprocess.TimeoutExpired:
            out[p] = {"exit": "timeout"}
        print(sid, p, out[p].get("exit"), (out[p].get("violation") or [""])[0][:150], flush=True)
    results[sid] = {"property": meta["property"], "tier": tier, "checks": out,
                    "caught": any(v.get("exit") == 1 for v in out.values())}
    shutil.rmtree(scratch, ignore_errors=True)
    json.dump(results, open(res_path, "w"), indent=1, sort_keys=True)
shutil.rmtree("/verif/replay", ignore_errors=True) if False else None
print(json.dumps({k: v.get("caught") for k, v in results.items()}, indent=1))
