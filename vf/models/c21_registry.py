"""C21 trace obligations for the data-location registry (black-box history model).

The model never predicts the full answer of a query (the statement leaves alias semantics open);
it records the *history* and derives obligations that follow from the statement under every reading
(DESIGN.md C21): S1 S2 S3 (soundness of every answer), I1 I2 (invalidation), C1 C2 (completeness,
alive until cancelled), G (source location).

Locations are indices into a table `locs`: {"key": (deployment, name), "wraps": idx|None,
"mounts": {outer: inner}}.  Paths are absolute posix strings.
"""
from __future__ import annotations

import collections
import posixpath


def ancestors(p):
    """Proper ancestors of p, root first ('/' included)."""
    if p == "/":
        return []
    parts = p.strip("/").split("/")
    return ["/"] + ["/" + "/".join(parts[:k]) for k in range(1, len(parts))]


def at_or_beneath(d, p):
    return d == p or d.startswith(p.rstrip("/") + "/")


class Model:
    def __init__(self, locs):
        self.locs = locs
        self.clock = 0
        self.reg_time = {}  # (lk, path) -> time of the last registration (direct / implied ancestor / inner path)
        self.inv_log = []  # (time, lk, path)
        self.related = collections.defaultdict(set)  # undirected, over path strings
        self.must = {}  # obligations alive: name -> dict(kind, a, b, t, via)
        self.known = set()
        self.active = None  # indices of the locations a history uses (None = all)

    # -- helpers ---------------------------------------------------------------------------
    def key(self, li):
        return tuple(self.locs[li]["key"])

    def inner_chain(self, li, path):
        """[(li', path')...] the wrapped locations/paths register_path walks through (get_inner_path:
        longest mount first, in reverse lexicographic order of the mount points)."""
        out = []
        while self.locs[li]["wraps"] is not None:
            hit = None
            for mount in sorted(self.locs[li]["mounts"], reverse=True):
                if at_or_beneath(path, mount):
                    hit = mount
                    break
            if hit is None:
                break
            rel = posixpath.relpath(path, hit)
            path = posixpath.normpath(posixpath.join(self.locs[li]["mounts"][hit], rel))
            li = self.locs[li]["wraps"]
            out.append((li, path))
        return out

    def closure(self, p):
        seen, st = {p}, [p]
        while st:
            x = st.pop()
            for y in self.related[x]:
                if y not in seen:
                    seen.add(y)
                    st.append(y)
        return seen

    def last_inv_hit(self, lk, path):
        return max((t for (t, k, p) in self.inv_log if k == lk and at_or_beneath(path, p)), default=-1)

    # -- history ---------------------------------------------------------------------------
    def register(self, li, path):
        """register_path(loc, path): the path, its ancestors, and the same on every wrapped inner location."""
        self.clock += 1
        chain = [(li, path)] + self.inner_chain(li, path)
        for l, p in chain:
            lk = self.key(l)
            for a in ancestors(p) + [p]:
                self.reg_time[(lk, a)] = self.clock
                self.known.add(a)
                self.must[("C1", lk, a)] = {"kind": "C1", "a": (lk, a), "b": None, "t": self.clock, "via": p}
        for l, p in chain[1:]:
            self.relate((li, path), (l, p))
        return chain

    def relate(self, src, dst):
        """register_relation between the records (li, path) src and dst."""
        (ls, ps), (ld, pd) = src, dst
        self.related[ps].add(pd)
        self.related[pd].add(ps)
        a, b = (self.key(ls), ps), (self.key(ld), pd)
        self.must[("C2", a, b)] = {"kind": "C2", "a": a, "b": b, "t": self.clock, "via": None}

    def touched_by_invalidation(self, path):
        """Least set containing `path`, closed under 'known path beneath' and 'declared relation'.
        Every obligation on the invalidated location about one of these paths is cancelled: whether
        an alias of an invalidated path is invalidated too is not judged."""
        touched = {path}
        frontier = [path]
        while frontier:
            x = frontier.pop()
            new = {k for k in self.known if at_or_beneath(k, x)} | self.closure(x)
            for y in new - touched:
                touched.add(y)
                frontier.append(y)
        return touched

    def invalidate(self, li, path):
        self.clock += 1
        lk = self.key(li)
        self.inv_log.append((self.clock, lk, path))
        touched = self.touched_by_invalidation(path)
        for name, ob in list(self.must.items()):
            for rec in (ob["a"], ob["b"]):
                if rec and rec[0] == lk and rec[1] in touched:
                    self.must.pop(name, None)

    def live_c1(self):
        return sorted(ob["a"] for ob in self.must.values() if ob["kind"] == "C1")

    # -- obligations -----------------------------------------------------------------------
    def check_answers(self, q, count):
        """S1-S3 on every known path x location filter.  q(path, li|None) -> set of (lk, path, type).
        -> None or failure dict."""
        for p in sorted(self.known):
            clo = None
            for li in [None] + list(self.active if self.active is not None else range(len(self.locs))):
                for (lk, path, typ) in q(p, li):
                    count("S1")
                    if li is not None and lk != self.key(li):
                        return {"ob": "S1-filter", "query": p, "li": li, "rec": (lk, path, typ)}
                    if typ == "INVALID":
                        return {"ob": "S1-invalid", "query": p, "li": li, "rec": (lk, path, typ)}
                    count("S2")
                    if self.reg_time.get((lk, path), -1) <= self.last_inv_hit(lk, path):
                        return {"ob": "S2-resurrected", "query": p, "li": li, "rec": (lk, path, typ),
                                "registered_at": self.reg_time.get((lk, path), -1),
                                "invalidated_at": self.last_inv_hit(lk, path)}
                    count("S3")
                    if clo is None:
                        clo = self.closure(p)
                    if path not in clo:
                        return {"ob": "S3-phantom", "query": p, "li": li, "rec": (lk, path, typ)}
        return None

    def check_obligations(self, q, count):
        """C1 / C2 alive obligations.  -> None or failure dict."""
        idx = {self.key(i): i for i in range(len(self.locs))}
        for name, ob in list(self.must.items()):
            a, b = ob["a"], ob["b"]
            if ob["kind"] == "C1":
                count("C1")
                if not any((r[0], r[1]) == a for r in q(a[1], idx[a[0]])):
                    return {"ob": "C1", "a": a, "created": ob["t"], "via": ob["via"], "now": self.clock}
            else:
                count("C2")
                if not any((r[0], r[1]) == b for r in q(a[1], None)):
                    return {"ob": "C2", "side": "src-sees-dst", "a": a, "b": b, "created": ob["t"], "now": self.clock}
                if not any((r[0], r[1]) == a for r in q(b[1], None)):
                    return {"ob": "C2", "side": "dst-sees-src", "a": a, "b": b, "created": ob["t"], "now": self.clock}
        return None
