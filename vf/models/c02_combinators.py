"""C02 reference model: which combinations a combinator tree must emit.

Written from the *statement* of C02, not from streamflow/workflow/combinator.py:

* dot product  -- exactly one combination for each tag present on every input, where a token
  with a shallower (proper-prefix) tag is broadcast to every deeper tag.  All members of a
  combination carry the deepest tag.
* cartesian product of depth d -- tokens are grouped by their tag minus its last d components;
  inside a group the full cross product is emitted; each member keeps its own tag minus the last
  component and is extended by the last components of all members, in item order.  When items
  carry tags of different depths (parent/child mixes) the broadcast rule of the statement applies
  to the groups: a token whose group is a proper prefix of another group takes part in that
  deeper group too, so a combination exists for every choice of one token per item whose groups
  lie on one prefix chain.
* nested trees compose: the combinations of an inner combinator are the tokens of one item of the
  outer combinator; the tag of such a token is the tag its members share.

Representation (all JSON-able):
  tree    : "port-name"  |  ["dot", item, ...]  |  ["cart", depth, item, ...]
  streams : {port: [[tag, value], ...]}
  combo   : tuple(sorted((port, tag, value)))          -- one emitted combination
  result  : collections.Counter of combos               -- the multiset the step must emit

`denote` raises OutOfDomain where the statement does not define the outcome: a port (or an inner
result) that mixes tag depths or repeats a tag; tags not rooted at "0"; an inner cartesian result
whose members carry different tags feeding an outer combinator (which tag is "the" tag of the
combination is not defined); a mixed-depth cartesian product with a token too short to have a
group.  Callers record such cases and do not judge them.
"""
from __future__ import annotations

import collections
import itertools


class OutOfDomain(Exception):
    pass


def parts(tag: str) -> list[str]:
    return tag.split(".")


def is_prefix(p: str, t: str) -> bool:
    pp = parts(p)
    return parts(t)[: len(pp)] == pp


def items_of(tree) -> list:
    return list(tree[1:] if tree[0] == "dot" else tree[2:])


def leaves(tree) -> list[str]:
    if isinstance(tree, str):
        return [tree]
    out: list[str] = []
    for it in items_of(tree):
        out.extend(leaves(it))
    return out


def tree_name(tree) -> str:
    if isinstance(tree, str):
        return tree
    if tree[0] == "dot":
        return "Dot(" + ",".join(tree_name(i) for i in tree[1:]) + ")"
    return f"Cart{tree[1]}(" + ",".join(tree_name(i) for i in tree[2:]) + ")"


def has_cart_over_combinator(tree) -> bool:
    if isinstance(tree, str):
        return False
    its = items_of(tree)
    if tree[0] == "cart" and any(not isinstance(i, str) for i in its):
        return True
    return any(has_cart_over_combinator(i) for i in its)


def _uniform(vstream, what: str):
    """vstream: list of (tag, members).  Returns the common depth (None when empty)."""
    if any(t is None for t, _ in vstream):
        raise OutOfDomain(f"{what}: combination whose members carry different tags")
    depths = {len(parts(t)) for t, _ in vstream}
    if len(depths) > 1:
        raise OutOfDomain(f"{what}: mixed tag depths {sorted(depths)}")
    tags = [t for t, _ in vstream]
    if len(set(tags)) != len(tags):
        raise OutOfDomain(f"{what}: repeated tag")
    for t in tags:
        if parts(t)[0] != "0" or not all(c.isdigit() for c in parts(t)):
            raise OutOfDomain(f"{what}: tag {t!r} not rooted at 0")
    return next(iter(depths)) if depths else None


def group_of(tag: str, depth: int) -> tuple:
    p = parts(tag)
    return tuple(p[: len(p) - depth]) if depth < len(p) else ()


def _chain(groups) -> bool:
    gs = sorted(set(groups), key=len)
    return all(b[: len(a)] == a for a, b in zip(gs, gs[1:]))


def _eval(tree, streams):
    """-> list of virtual tokens (tag | None, {port: (tag, value)})."""
    if isinstance(tree, str):
        vs = [(t, {tree: (t, v)}) for t, v in streams.get(tree, [])]
        _uniform(vs, f"port {tree}")
        return vs
    if tree[0] == "dot":
        children = [_eval(it, streams) for it in tree[1:]]
        depths = [_uniform(c, f"item {i} of {tree_name(tree)}") for i, c in enumerate(children)]
        if any(d is None for d in depths):
            return []
        deepest = max(depths)
        deep_tags = []
        for c, d in zip(children, depths):
            if d == deepest:
                for t, _ in c:
                    if t not in deep_tags:
                        deep_tags.append(t)
        out = []
        for t in deep_tags:
            members = {}
            for c in children:
                m = [mem for tg, mem in c if is_prefix(tg, t)]
                if len(m) != 1:
                    members = None
                    break
                for p, (_, v) in m[0].items():
                    members[p] = (t, v)
            if members is not None:
                out.append((t, members))
        return out
    if tree[0] == "cart":
        d = int(tree[1])
        children = [_eval(it, streams) for it in tree[2:]]
        depths = {_uniform(c, f"item {i} of {tree_name(tree)}") for i, c in enumerate(children)}
        depths.discard(None)
        mixed = len(depths) > 1
        if mixed and min(depths) <= d:
            raise OutOfDomain(f"{tree_name(tree)}: mixed depths with a tag of depth <= {d} (no group)")
        out = []
        if any(not c for c in children):
            return out
        for choice in itertools.product(*children):
            if not _chain([group_of(tg, d) for tg, _ in choice]):
                continue
            flat = []  # leaf members in item order
            for _, mem in choice:
                flat.extend(mem.items())
            suffix = [parts(tg)[-1] for _, (tg, _) in flat]
            members = {p: (".".join(parts(tg)[:-1] + suffix), v) for p, (tg, v) in flat}
            tags = {tg for tg, _ in members.values()}
            out.append((next(iter(tags)) if len(tags) == 1 else None, members))
        return out
    raise ValueError(tree)


def denote(tree, streams) -> collections.Counter:
    out: collections.Counter = collections.Counter()
    for _, members in _eval(tree, streams):
        out[tuple(sorted((p, tg, v) for p, (tg, v) in members.items()))] += 1
    return out


def mixed_root_cart(tree, streams) -> bool:
    """Root is a cartesian product over plain ports whose streams have different tag depths."""
    if isinstance(tree, str) or tree[0] != "cart" or any(not isinstance(i, str) for i in tree[2:]):
        return False
    depths = {len(parts(t)) for p in tree[2:] for t, _ in streams.get(p, [])}
    return len(depths) > 1


def ancestors_first(tree, arrival) -> bool:
    """arrival: [(port, tag), ...] as seen by a root cartesian combinator.  True iff no token
    arrives after a token whose group is a proper descendant of its own group."""
    d = int(tree[1])
    seen: list[tuple] = []
    for _, tg in arrival:
        g = group_of(tg, d)
        if any(len(s) > len(g) and s[: len(g)] == g for s in seen):
            return False
        seen.append(g)
    return True


def show(counter) -> list:
    return sorted([[list(m) for m in k], n] for k, n in counter.items())
