"""C02 reference model: which combinations a combinator tree must emit.

Written from the *statement* of C02, not from streamflow/workflow/combinator.py:

* dot product  -- exactly one combination for each tag present on every input, where a token
  with a shallower (proper-prefix) tag is broadcast to every deeper tag.  All members of a
  combination carry the deepest tag.
* cartesian product of depth d -- the full cross product inside every group of tokens that share
  the tag minus its last d components; each member keeps its own tag minus the last component
  and is extended by the last components of all members, in item order.
* nested trees compose: the combinations of an inner combinator are the tokens of one item of the
  outer combinator (the item's tag is the tag its members carry).

Representation (all JSON-able):
  tree    : "port-name"  |  ["dot", item, ...]  |  ["cart", depth, item, ...]
  streams : {port: [[tag, value], ...]}
  combo   : tuple(sorted((port, tag, value)))          -- one emitted combination
  result  : collections.Counter of combos               -- the multiset the step must emit

`denote` raises OutOfDomain where the statement does not define the outcome (a port or an
inner result that mixes tag depths or repeats a tag, a cartesian product over items of different
depths, tags not rooted at "0").  Callers record such cases and do not judge them.
"""
from __future__ import annotations

import collections
import itertools


class OutOfDomain(Exception):
    pass


def parts(tag: str) -> list[str]:
    return tag.split(".")


def is_prefix(p: str, t: str) -> bool:
    pp = parts(p)
    return parts(t)[: len(pp)] == pp


def leaves(tree) -> list[str]:
    if isinstance(tree, str):
        return [tree]
    items = tree[1:] if tree[0] == "dot" else tree[2:]
    out: list[str] = []
    for it in items:
        out.extend(leaves(it))
    return out


def tree_name(tree) -> str:
    if isinstance(tree, str):
        return tree
    if tree[0] == "dot":
        return "Dot(" + ",".join(tree_name(i) for i in tree[1:]) + ")"
    return f"Cart{tree[1]}(" + ",".join(tree_name(i) for i in tree[2:]) + ")"


def _uniform(vstream, what: str) -> int | None:
    """vstream: list of (tag, members).  Returns the common depth (None when empty)."""
    depths = {len(parts(t)) for t, _ in vstream}
    if len(depths) > 1:
        raise OutOfDomain(f"{what}: mixed tag depths {sorted(depths)}")
    tags = [t for t, _ in vstream]
    if len(set(tags)) != len(tags):
        raise OutOfDomain(f"{what}: repeated tag")
    for t in tags:
        if parts(t)[0] != "0" or not all(c.isdigit() for c in parts(t)):
            raise OutOfDomain(f"{what}: tag {t!r} not rooted at 0")
    return next(iter(depths)) if depths else None


def _eval(tree, streams):
    """-> list of virtual tokens (tag, {port: (tag, value)})."""
    if isinstance(tree, str):
        vs = [(t, {tree: (t, v)}) for t, v in streams.get(tree, [])]
        _uniform(vs, f"port {tree}")
        return vs
    if tree[0] == "dot":
        children = [_eval(it, streams) for it in tree[1:]]
        depths = [_uniform(c, f"item {i} of {tree_name(tree)}") for i, c in enumerate(children)]
        if any(d is None for d in depths):
            return []
        deepest = max(depths)
        deep_tags = []
        for c, d in zip(children, depths):
            if d == deepest:
                for t, _ in c:
                    if t not in deep_tags:
                        deep_tags.append(t)
        out = []
        for t in deep_tags:
            members = {}
            for c in children:
                m = [mem for tg, mem in c if is_prefix(tg, t)]
                if len(m) != 1:
                    members = None
                    break
                for p, (_, v) in m[0].items():
                    members[p] = (t, v)
            if members is not None:
                out.append((t, members))
        return out
    if tree[0] == "cart":
        d = int(tree[1])
        children = [_eval(it, streams) for it in tree[2:]]
        depths = {_uniform(c, f"item {i} of {tree_name(tree)}") for i, c in enumerate(children)}
        depths.discard(None)
        if len(depths) > 1:
            raise OutOfDomain(f"{tree_name(tree)}: items of different depths {sorted(depths)}")
        groups: dict = collections.defaultdict(lambda: collections.defaultdict(list))
        for i, c in enumerate(children):
            for tg, mem in c:
                groups[".".join(parts(tg)[:-d])][i].append((tg, mem))
        out = []
        for g, per in groups.items():
            if len(per) != len(children):
                continue
            for choice in itertools.product(*[per[i] for i in range(len(children))]):
                flat = []  # leaf members in item order
                for _, mem in choice:
                    flat.extend(mem.items())
                suffix = [parts(tg)[-1] for _, (tg, _) in flat]
                members = {p: (".".join(parts(tg)[:-1] + suffix), v) for p, (tg, v) in flat}
                tags = {tg for tg, _ in members.values()}
                out.append((max(tags, key=lambda x: (len(parts(x)), x)), members))
        return out
    raise ValueError(tree)


def denote(tree, streams) -> collections.Counter:
    out: collections.Counter = collections.Counter()
    for _, members in _eval(tree, streams):
        out[tuple(sorted((p, tg, v) for p, (tg, v) in members.items()))] += 1
    return out


def show(counter) -> list:
    return sorted([list(map(list, k)), n] for k, n in counter.items())
