"""C20 reference models and the mirror invariant for streamflow.recovery.utils graphs.

RefGraph   plain graph = (set of nodes, set of edges) with the *statement's* semantics:
           - remove(nodes, prune): removes exactly `nodes` (those present) and, when pruning, the
             least fixed point of "a surviving node that had successors and whose successors are
             all being removed is removed too" (every ancestor left with no remaining successor);
           - replace(old, new): rename, all edges preserved; absent old => no-op; present new => ValueError;
           - promote(node): drop the incoming edges of `node`; predecessors left without any
             successor are removed with pruning ("exactly the ancestors that no longer lead anywhere").
RefMapper  plain-data model of GraphMapper (dag of token ids, graph of port names, port->ids,
           availability, (tag, job-name) per id) for move_token_to_root / replace_token.
install_invariants(count)  icontract class invariants on the REAL DirectedGraph /
           DirectedAcyclicGraph (idempotent; may be called by other checks, e.g. recovery runs).
"""
from __future__ import annotations


class RefGraph:
    def __init__(self):
        self.nodes = set()
        self.edges = set()

    def copy(self):
        g = RefGraph()
        g.nodes = set(self.nodes)
        g.edges = set(self.edges)
        return g

    def add(self, u, v=None):
        self.nodes.add(u)
        if v is not None:
            self.nodes.add(v)
            self.edges.add((u, v))

    def succ(self, n):
        return {v for (u, v) in self.edges if u == n}

    def pred(self, n):
        return {u for (u, v) in self.edges if v == n}

    def reaches(self, a, b):
        """b reachable from a through >= 0 edges."""
        seen, st = {a}, [a]
        while st:
            x = st.pop()
            if x == b:
                return True
            for y in self.succ(x):
                if y not in seen:
                    seen.add(y)
                    st.append(y)
        return False

    def remove(self, nodes, prune=True):
        gone = {n for n in nodes if n in self.nodes}
        changed = prune
        while changed:
            changed = False
            for n in self.nodes - gone:
                s = self.succ(n)
                if s and s <= gone:
                    gone.add(n)
                    changed = True
        self.nodes -= gone
        self.edges = {(u, v) for (u, v) in self.edges if u not in gone and v not in gone}
        return gone

    def replace(self, old, new):
        if old not in self.nodes:
            return
        if new in self.nodes:
            raise ValueError(new)
        self.nodes.discard(old)
        self.nodes.add(new)
        self.edges = {(new if u == old else u, new if v == old else v) for (u, v) in self.edges}

    def promote(self, node):
        if node not in self.nodes:
            return set()
        preds = self.pred(node)
        self.edges = {(u, v) for (u, v) in self.edges if v != node}
        dead = [p for p in preds if not self.succ(p)]
        return self.remove(dead, prune=True) if dead else set()

    def sources(self):
        return {n for n in self.nodes if not self.pred(n)}

    def sinks(self):
        return {n for n in self.nodes if not self.succ(n)}

    def state(self):
        return (frozenset(self.nodes), frozenset(self.edges))


class MirrorBroken(Exception):
    """Raised by the class invariant installed on the real graph classes."""


_installed = {"done": False, "count": None}


def install_invariants(count=None):
    """Install (once) icontract class invariants on the real graph classes.
    `count(name)` is called at every evaluation (monitor counter)."""
    import icontract
    from streamflow.recovery import utils as RU

    _installed["count"] = count
    if _installed["done"]:
        return
    _installed["done"] = True

    def _c(name):
        f = _installed["count"]
        if f is not None:
            f(name)

    def successor_and_predecessor_views_mirror_each_other(self):
        _c("inv_mirror")
        S, P = self._successors, self._predecessors
        if S.keys() != P.keys():
            return False
        for u, vs in S.items():
            for v in vs:
                if v not in P or u not in P[v]:
                    return False
        for v, us in P.items():
            for u in us:
                if u not in S or v not in S[u]:
                    return False
        return True

    def sources_and_sinks_are_nodes_of_the_graph(self):
        _c("inv_dag_nodes")
        return self._successors.keys() == self._predecessors.keys()

    icontract.invariant(successor_and_predecessor_views_mirror_each_other, error=MirrorBroken)(RU.DirectedGraph)
    # methods defined by the subclass are only wrapped when the subclass is decorated itself
    icontract.invariant(sources_and_sinks_are_nodes_of_the_graph, error=MirrorBroken)(RU.DirectedAcyclicGraph)


def snapshot(g, dag: bool):
    """Everything the public query API says about a real graph."""
    nodes = g.get_nodes()
    edges = {(u, v) for u in nodes for v in g.successors(u)}
    mirror = {(u, v) for v in nodes for u in g.predecessors(v)}
    out = {
        "nodes": nodes, "edges": edges, "mirror": mirror,
        "in_degree": g.in_degree(), "out_degree": g.out_degree(),
        "empty": g.empty(), "contains": {n for n in nodes if g.contains(n)},
    }
    if dag:
        out["sources"] = g.get_sources()
        out["sinks"] = g.get_sinks()
    return out


def compare(snap, ref: RefGraph, dag: bool):
    """-> None or a short description of the first disagreement."""
    if snap["edges"] != snap["mirror"]:
        return f"successor view and predecessor view differ: {sorted(snap['edges'] ^ snap['mirror'], key=repr)}"
    if snap["nodes"] != ref.nodes:
        return f"nodes {sorted(snap['nodes'], key=repr)} != reference {sorted(ref.nodes, key=repr)}"
    if snap["edges"] != ref.edges:
        return f"edges differ from reference by {sorted(snap['edges'] ^ ref.edges, key=repr)}"
    if snap["contains"] != ref.nodes:
        return "contains() false for a node of get_nodes()"
    if snap["empty"] != (not ref.nodes):
        return f"empty()={snap['empty']} with {len(ref.nodes)} nodes"
    ind = {n: len(ref.pred(n)) for n in ref.nodes}
    outd = {n: len(ref.succ(n)) for n in ref.nodes}
    if snap["in_degree"] != ind:
        return f"in_degree {snap['in_degree']} != {ind}"
    if snap["out_degree"] != outd:
        return f"out_degree {snap['out_degree']} != {outd}"
    if dag:
        if snap["sources"] != ref.sources():
            return f"get_sources {snap['sources']} != {ref.sources()}"
        if snap["sinks"] != ref.sinks():
            return f"get_sinks {snap['sinks']} != {ref.sinks()}"
    return None


# ------------------------------------------------------------------------------------------
# GraphMapper reference


class RefMapper:
    """ports: name -> set(ids); port_ids: name -> set(int); avail: id -> bool;
    inst: id -> (tag, job_name|None); dag: RefGraph over ids; dcg: RefGraph over port names."""

    def __init__(self):
        self.dag = RefGraph()
        self.dcg = RefGraph()
        self.ports = {}
        self.port_ids = {}
        self.avail = {}
        self.inst = {}

    def equal_token(self, port, tag, job):
        for i in self.ports.get(port, ()):
            t, j = self.inst[i]
            if (job is not None and j == job) or (job is None and t == tag):
                return i
        return None

    def move_to_root(self, tid):
        removed = self.dag.promote(tid)
        for r in removed:
            self.avail.pop(r, None)
            self.inst.pop(r, None)
            for p in self.ports:
                self.ports[p].discard(r)
        for p in [p for p, s in self.ports.items() if not s] if removed else []:
            self.dcg.remove([p], prune=False)
            self.ports.pop(p)
            self.port_ids.pop(p, None)
        return removed

    def replace(self, port, tid, tag, job, avail):
        """-> None | 'noequal' | 'mismatch' | 'exists' (the three refusals leave the state unchanged)"""
        old = self.equal_token(port, tag, job)
        if old is None:
            return "noequal"
        if old == tid:
            return "mismatch" if self.avail[old] != avail else None
        if tid in self.dag.nodes:
            return "exists"
        self.dag.replace(old, tid)
        self.ports[port].discard(old)
        self.avail.pop(old)
        self.inst.pop(old)
        self.ports[port].add(tid)
        self.avail[tid] = avail
        self.inst[tid] = (tag, job)
        return None

    def state(self):
        return {
            "dag": self.dag.state(), "dcg": self.dcg.state(),
            "ports": {p: frozenset(s) for p, s in self.ports.items()},
            "port_ids": {p: frozenset(s) for p, s in self.port_ids.items()},
            "avail": dict(self.avail), "inst": dict(self.inst),
        }


def mapper_state(m):
    """The same view of a REAL GraphMapper, through public attributes / graph queries."""
    from streamflow.workflow.token import JobToken

    def gstate(g):
        nodes = g.get_nodes()
        return (frozenset(nodes), frozenset((u, v) for u in nodes for v in g.successors(u)))

    return {
        "dag": gstate(m.dag_tokens), "dcg": gstate(m.dcg_ports),
        "ports": {p: frozenset(s) for p, s in m.port_tokens.items()},
        "port_ids": {p: frozenset(s) for p, s in m.port_name_ids.items()},
        "avail": dict(m.token_availability),
        "inst": {i: (t.tag, t.value.name if isinstance(t, JobToken) else None) for i, t in m.token_instances.items()},
    }


def mapper_consistency(m):
    """Consistency of port_tokens / token_instances / token_availability with dag_tokens
    (and of the port maps with dcg_ports). -> None or description."""
    nodes = m.dag_tokens.get_nodes()
    if set(m.token_instances) != nodes:
        return f"token_instances keys {sorted(m.token_instances)} != dag_tokens nodes {sorted(nodes)}"
    if set(m.token_availability) != nodes:
        return f"token_availability keys {sorted(m.token_availability)} != dag_tokens nodes {sorted(nodes)}"
    seen = {}
    for p, s in m.port_tokens.items():
        if not s:
            return f"port {p} kept with no tokens"
        for i in s:
            if i in seen:
                return f"token {i} in two ports {seen[i]}, {p}"
            seen[i] = p
    if set(seen) != nodes:
        return f"tokens in port_tokens {sorted(seen)} != dag_tokens nodes {sorted(nodes)}"
    for i, t in m.token_instances.items():
        if t.persistent_id != i:
            return f"token_instances[{i}] holds token {t.persistent_id}"
    if set(m.port_tokens) != set(m.port_name_ids):
        return f"port_tokens ports {sorted(m.port_tokens)} != port_name_ids ports {sorted(m.port_name_ids)}"
    if set(m.port_tokens) != m.dcg_ports.get_nodes():
        return f"port_tokens ports {sorted(m.port_tokens)} != dcg_ports nodes {sorted(m.dcg_ports.get_nodes())}"
    return None
