"""Shadow ledger for C10/C11/C12 -- an independent account of what every location has reserved.

It is maintained ONLY from boundary events:
  * `schedule()` returned            -> `on_scheduled(job, loc_names, req)`: the harness read the job's
                                        JobAllocation (which top-level locations) and charges the requirement
                                        the harness itself generated, translated per mount point -- and per level
                                        of a stacked location -- with the harness's own mount table;
  * `notify_status(job, s)` returned -> `on_status(job, s, usage)`.
A job holds its reservation while its status is FIREABLE or RUNNING.  When it leaves those states the
reservation goes away and the *measured* usage of its directories (the harness measures them with
os.walk, in MiB) stays booked on the mount points ("retained").

Nothing here reads the scheduler's own structures.

Topology (plain dicts, JSON-able):
  locs[name] = {"dep": deployment, "cap": {"cores","memory","st": {mount_point: size}} | None,
                "slots": int | None, "wraps": inner location name | None,
                "binds": {outer mount point: inner path}}
"""
from __future__ import annotations

import itertools
import os
import posixpath

ACTIVE = ("FIREABLE", "RUNNING")
TOL = 1e-9


def mount_of(mounts, path):
    """Longest mount point (component-wise prefix) containing `path`; '/' when none does."""
    best = os.sep
    for mp in mounts:
        if mp == os.sep:
            continue
        if path == mp or path.startswith(mp.rstrip(os.sep) + os.sep):
            if len(mp) > len(best):
                best = mp
    return best



class Ledger:
    def __init__(self, locs, exact=True):
        """`exact`: every quantity of the case is an integer or a dyadic fraction, so all sums are exact in
        binary floating point and comparisons need no tolerance (an exact fit IS a fit).  Otherwise a
        relative tolerance of 1e-9 is applied in the direction that can never raise a false alarm."""
        self.locs = locs
        self.exact = exact
        self.jobs: dict[str, dict] = {}      # current allocation per job name
        self.retained: dict[str, dict[str, float]] = {n: {} for n in locs}
        self.history: list = []              # (event, job, detail) -- becomes part of a witness
        self.extra_retained: dict = {}       # classification only: {loc: {mount point: amount}} assumed lost
        self.extra_slots: dict = {}          # classification only: {loc: slots assumed taken}
        self.releases: list = []             # one record per (released charge, mount point)
        self.release_scalars: list = []      # one record per released charge (cores, memory)

    def tol(self, *xs):
        return 0.0 if self.exact else TOL * max([1.0] + [abs(x) for x in xs])

    # ---- translation of a requirement through the levels of one top-level location -----------
    def levels(self, loc_name, req):
        """req = {"cores","memory","disks": [(path, size, tag)]} -> [(loc, charge, {mount: [(path, tag)]})], outermost first.
        charge = {"cores","memory","st": {mount_point: size}}; a level without hardware information
        takes one slot and maps no storage further down (it has no mount table)."""
        out = []
        disks = list(req["disks"])
        name = loc_name
        while name is not None:
            spec = self.locs[name]
            if spec["cap"] is not None:
                st: dict[str, float] = {}
                paths: dict[str, list] = {}
                nxt = []
                for path, size, tag in disks:
                    mp = mount_of(spec["cap"]["st"], path)
                    st[mp] = st.get(mp, 0.0) + size
                    paths.setdefault(mp, []).append((path, tag))
                    bind = spec["binds"].get(mp)
                    if bind is not None:
                        nxt.append((posixpath.normpath(posixpath.join(bind, posixpath.relpath(path, mp))), size, tag))
                out.append((name, {"cores": req["cores"], "memory": req["memory"], "st": st, "level": len(out)}, paths))
                disks = nxt
            else:
                out.append((name, {"cores": req["cores"], "memory": req["memory"], "st": {}, "slot": 1, "level": len(out)}, {}))
                disks = []
            name = spec["wraps"]
        return out

    # ---- boundary events ------------------------------------------------------------------
    def on_scheduled(self, job, loc_names, req, attempt=0):
        charges = []
        for ln in loc_names:
            charges.extend(self.levels(ln, req))
        self.jobs[job] = {"status": "FIREABLE", "locs": list(loc_names), "charges": charges, "req": req,
                          "attempt": attempt}
        self.history.append(("scheduled", job, list(loc_names)))

    def on_status(self, job, status, measure=None):
        """`measure([(path, tag)]) -> MiB` is called for the job's directories when it stops holding resources."""
        j = self.jobs[job]
        prev = j["status"]
        j["status"] = status
        self.history.append(("status", job, status))
        released = prev in ACTIVE and status not in ACTIVE
        if released:
            tops = set(j["locs"])
            for ln, charge, paths in j["charges"]:
                for mp, ps in paths.items():
                    usage = measure(ps) if measure is not None else 0.0
                    self.retained[ln][mp] = self.retained[ln].get(mp, 0.0) + usage
                    self.releases.append({"job": job, "loc": ln, "mp": mp, "charge": charge["st"].get(mp, 0.0),
                                          "usage": usage, "top_locs": len(j["locs"]), "inner": ln not in tops,
                                          "level": charge["level"]})
                self.release_scalars.append({"job": job, "loc": ln, "cores": charge["cores"], "memory": charge["memory"],
                                             "top_locs": len(j["locs"]), "inner": ln not in tops})
        return released

    def status(self, job):
        j = self.jobs.get(job)
        return j["status"] if j else None

    # ---- accounts ---------------------------------------------------------------------------
    def reserved(self, loc_name):
        """Sum of the charges of the jobs that are FIREABLE or RUNNING; `jobs` counts distinct jobs."""
        r = {"cores": 0.0, "memory": 0.0, "st": {}, "jobs": 0}
        for j in self.jobs.values():
            if j["status"] in ACTIVE:
                here = False
                for ln, charge, _ in j["charges"]:
                    if ln == loc_name:
                        here = True
                        r["cores"] += charge["cores"]
                        r["memory"] += charge["memory"]
                        for mp, s in charge["st"].items():
                            r["st"][mp] = r["st"].get(mp, 0.0) + s
                r["jobs"] += here
        return r

    def active_jobs(self):
        return [n for n, j in self.jobs.items() if j["status"] in ACTIVE]

    def over_allocations(self):
        """C10: [(loc, resource, reserved, capacity)] for every capacity exceeded by active reservations."""
        bad = []
        for ln, spec in self.locs.items():
            r = self.reserved(ln)
            if spec["cap"] is not None:
                cap = spec["cap"]
                for k in ("cores", "memory"):
                    if r[k] > cap[k] + self.tol(cap[k]):
                        bad.append((ln, k, r[k], cap[k]))
                for mp, s in r["st"].items():
                    c = cap["st"].get(mp, 0.0)
                    if s > c + self.tol(c):
                        bad.append((ln, "storage:" + mp, s, c))
            else:
                slots = spec["slots"] if spec["slots"] is not None else 1
                if r["jobs"] > slots:
                    bad.append((ln, "slots", r["jobs"], slots))
        return bad

    def free(self, loc_name):
        spec = self.locs[loc_name]
        r = self.reserved(loc_name)
        if spec["cap"] is None:
            return {"slots": (spec["slots"] if spec["slots"] is not None else 1) - r["jobs"] - self.extra_slots.get(loc_name, 0)}
        cap = spec["cap"]
        ex = self.extra_retained.get(loc_name, {})
        return {"cores": cap["cores"] - r["cores"], "memory": cap["memory"] - r["memory"],
                "st": {mp: c - r["st"].get(mp, 0.0) - self.retained[loc_name].get(mp, 0.0) - ex.get(mp, 0.0)
                       for mp, c in cap["st"].items()}}

    def _fits_jointly(self, loc_names, req, margin):
        """All of `loc_names` can host `req` at once (shared inner levels are charged once per outer)."""
        need: dict[str, dict] = {}
        for ln in loc_names:
            for name, charge, _ in self.levels(ln, req):
                n = need.setdefault(name, {"cores": 0.0, "memory": 0.0, "st": {}, "slot": 0})
                n["cores"] += charge["cores"]
                n["memory"] += charge["memory"]
                n["slot"] = max(n["slot"], charge.get("slot", 0))  # one job takes one slot of a location
                for mp, s in charge["st"].items():
                    n["st"][mp] = n["st"].get(mp, 0.0) + s
        for name, n in need.items():
            f = self.free(name)
            if "slots" in f:
                if f["slots"] < n["slot"]:
                    return False
                continue
            cap = self.locs[name]["cap"]
            m = margin
            if f["cores"] < n["cores"] + m * self.tol(cap["cores"]) or f["memory"] < n["memory"] + m * self.tol(cap["memory"]):
                return False
            for mp, s in n["st"].items():
                if mp not in f["st"]:
                    return False
                if f["st"][mp] < s + m * self.tol(cap["st"][mp]):
                    return False
        return True

    def fitting_locations(self, dep_locs, n_locations, req, margin=1.0):
        """A set of `n_locations` locations among `dep_locs` that can host `req` now (with a safety
        margin so that float rounding can never turn 'does not fit' into 'fits'), or None."""
        ok = [ln for ln in dep_locs if self._fits_jointly([ln], req, margin)]
        if len(ok) < n_locations:
            return None
        for combo in itertools.combinations(ok, n_locations):
            if self._fits_jointly(list(combo), req, margin):
                return list(combo)
        return None

    def fits_total_capacity(self, dep_locs, n_locations, req):
        """Would fit on an empty system (no reservations, no retained usage)."""
        empty = Ledger(self.locs, self.exact)
        return empty.fitting_locations(dep_locs, n_locations, req) is not None

    def inner_storage_residue(self):
        """Classification only.  What two mechanisms of `_free_resources` leave behind on inner levels,
        as {loc: {mount point: charge - measured usage}}:
          multi -- a job placed on >= 2 stacked locations gives back no storage on the first inner level
                   (the bound hardware is re-bound once per location and loses its storages);
          deep  -- no storage is ever given back below the first inner level (the re-bound storages carry
                   no `bind`, so the next re-binding drops them)."""
        multi: dict = {}
        deep: dict = {}
        for r in self.releases:
            if r["level"] >= 2:
                d = deep.setdefault(r["loc"], {})
            elif r["level"] == 1 and r["top_locs"] >= 2:
                d = multi.setdefault(r["loc"], {})
            else:
                continue
            d[r["mp"]] = d.get(r["mp"], 0.0) + r["charge"] - r["usage"]
        return multi, deep

    def snapshot(self):
        return {
            "jobs": {n: {"status": j["status"], "locs": j["locs"], "attempt": j["attempt"]} for n, j in self.jobs.items()},
            "reserved": {ln: self.reserved(ln) for ln in self.locs},
            "retained": {ln: dict(v) for ln, v in self.retained.items() if v},
        }


class MergedLedger(Ledger):
    """Explicit model of ONE defect mechanism, used only to *classify* refutations (never to decide):
    when k outer locations of a deployment wrap the same inner location, DefaultScheduler merges the k
    inner requirements with `Hardware.__ior__`, which ADDS cores and memory.  The inner location is then
    validated against, and charged with, k x cores/memory, while the release gives back 1 x."""

    def __init__(self, locs, exact=True):
        super().__init__(locs, exact)
        self.leaked = {n: {"cores": 0.0, "memory": 0.0} for n in locs}

    def k(self, top, inner):
        dep = self.locs[top]["dep"]
        return sum(1 for v in self.locs.values() if v["dep"] == dep and v["wraps"] == inner)

    def levels(self, loc_name, req):
        out = super().levels(loc_name, req)
        res = []
        for i, (name, charge, paths) in enumerate(out):
            if i == 1:  # one wrapper level is modelled
                k = self.k(loc_name, name)
                charge = dict(charge, cores=charge["cores"] * k, memory=charge["memory"] * k, k=k,
                              cores1=charge["cores"], memory1=charge["memory"])
            res.append((name, charge, paths))
        return res

    def on_status(self, job, status, measure=None):
        j = self.jobs[job]
        was = j["status"] in ACTIVE
        released = super().on_status(job, status, measure)
        if was and released:
            for ln, charge, _ in j["charges"]:
                if "k" in charge:
                    self.leaked[ln]["cores"] += charge["cores"] - charge["cores1"]
                    self.leaked[ln]["memory"] += charge["memory"] - charge["memory1"]
        return released

    def free(self, loc_name):
        f = super().free(loc_name)
        if "slots" not in f:
            f["cores"] -= self.leaked[loc_name]["cores"]
            f["memory"] -= self.leaked[loc_name]["memory"]
        return f
