"""C09 oracle: what an *uncached* database answers, computed independently of SqliteDatabase.

* `Uncached(conn)` issues its own SQL through the SAME aiosqlite connection the database under
  test uses (StreamFlow keeps one transaction open until close(), a second connection would see
  nothing) and decodes rows with its own decoder (column lists and JSON columns are written down
  here, not taken from streamflow.persistence.sqlite).
* `stdlib_dump(path)` re-reads the closed file with the stdlib `sqlite3` module.
* `SpyCache` is an *observer*: a cachebox.LRUCache subclass that logs hit / insert / pop events with
  a logical clock.  It is used for evidence (how many judged reads were served from the cache) and
  for the mechanism predicates; the verdict itself never depends on it.
"""
from __future__ import annotations

import json
import sqlite3
import sys

from cachebox import LRUCache

# table -> (columns in schema order, JSON-encoded columns)
TABLES = {
    "workflow": (["id", "name", "params", "status", "type", "start_time", "end_time"], ["params"]),
    "step": (["id", "name", "workflow", "status", "type", "params"], ["params"]),
    "port": (["id", "name", "workflow", "type", "params"], ["params"]),
    "token": (["id", "port", "tag", "type", "value"], ["value"]),
    "deployment": (["id", "name", "type", "config", "external", "lazy", "scheduling_policy", "workdir", "wraps"],
                   ["config", "scheduling_policy", "wraps"]),
    "target": (["id", "deployment", "type", "locations", "service", "workdir", "params"], ["params"]),
    "filter": (["id", "name", "type", "config"], ["config"]),
    "execution": (["id", "step", "job_token", "cmd", "status", "start_time", "end_time"], []),
    "dependency": (["step", "port", "type", "name"], []),
    "provenance": (["dependee", "depender"], []),
    "recoverable": (["id"], []),
}


class Clock:
    t = 0

    @classmethod
    def tick(cls) -> int:
        cls.t += 1
        return cls.t


class SpyCache(LRUCache):
    """Observer only.  `log` holds (t, event, key, canonical-json-or-None)."""

    def __new__(cls, *a, **k):
        return super().__new__(cls, *a, **k)

    def spy_init(self, name):
        self.spy_name = name
        self.log = []
        self.hits = 0
        return self

    def __getitem__(self, key):
        try:
            v = super().__getitem__(key)
        except KeyError:
            self.log.append((Clock.tick(), "miss", key, None))
            raise
        self.hits += 1
        self.log.append((Clock.tick(), "hit", key, None))
        return v

    def insert(self, key, value, *a, **k):
        self.log.append((Clock.tick(), "insert", key, canon(value)))
        return super().insert(key, value, *a, **k)

    def __setitem__(self, key, value):
        self.log.append((Clock.tick(), "insert", key, canon(value)))
        return super().__setitem__(key, value)

    def __delitem__(self, key):
        self.log.append((Clock.tick(), "pop", key, None))
        return super().__delitem__(key)

    def pop(self, key, *a, **k):
        self.log.append((Clock.tick(), "pop", key, None))
        return super().pop(key, *a, **k)


def new_spy(name):
    return SpyCache(maxsize=sys.maxsize).spy_init(name)


CACHE_ATTRS = ["deployment_cache", "port_cache", "step_cache", "target_cache", "filter_cache",
               "token_cache", "workflow_cache"]


def install_spies(db):
    spies = {}
    for a in CACHE_ATTRS:
        s = new_spy(a)
        setattr(db, a, s)
        spies[a] = s
    return spies


def plain(x):
    """sqlite3.Row / aiosqlite.Row / lists of them -> plain python."""
    if isinstance(x, sqlite3.Row):
        return {k: x[k] for k in x.keys()}
    if isinstance(x, (list, tuple)):
        return [plain(v) for v in x]
    if isinstance(x, dict):
        return {k: plain(v) for k, v in x.items()}
    return x


def canon(x) -> str:
    """Canonical JSON text: distinguishes 1 / 1.0 / true, dict order-insensitive."""
    return json.dumps(plain(x), sort_keys=True, ensure_ascii=True, default=repr)


def decode(table, values):
    cols, jcols = TABLES[table]
    row = dict(zip(cols, values))
    for c in jcols:
        if row[c] is not None:
            row[c] = json.loads(row[c])
    return row


class Uncached:
    def __init__(self, conn):
        self.conn = conn  # aiosqlite.Connection (the one SqliteDatabase uses)

    async def _all(self, sql, args=()):
        async with self.conn.execute(sql, args) as cur:
            return [tuple(r) for r in await cur.fetchall()]

    async def row(self, table, id_):
        cols, _ = TABLES[table]
        rows = await self._all(f"SELECT {', '.join(cols)} FROM {table} WHERE id = ?", (id_,))
        if not rows:
            return None
        r = decode(table, rows[0])
        if table == "token":
            rec = await self._all("SELECT COUNT(*) FROM recoverable WHERE id = ?", (id_,))
            r["recoverable"] = rec[0][0] > 0
        return r

    async def rows_where(self, table, where, args, order=None):
        cols, _ = TABLES[table]
        sql = f"SELECT {', '.join(cols)} FROM {table} WHERE {where}"
        if order:
            sql += " ORDER BY " + order
        return [decode(table, r) for r in await self._all(sql, args)]

    async def scalar_list(self, sql, args):
        return [r[0] for r in await self._all(sql, args)]

    async def port_from_token(self, token_id):
        cols, _ = TABLES["port"]
        rows = await self._all(
            "SELECT " + ", ".join("p." + c for c in cols) + " FROM port p, token t WHERE t.port = p.id AND t.id = ?",
            (token_id,))
        return decode("port", rows[0]) if rows else None

    async def reports(self, name, last_only):
        # executions of steps of workflows called `name`, grouped by workflow (descending id)
        wfs = await self.scalar_list("SELECT id FROM workflow WHERE name = ? ORDER BY id DESC", (name,))
        if last_only:
            wfs = wfs[:1]
            if not wfs:
                return [[]]
        out = []
        for w in wfs:
            rows = await self._all(
                "SELECT e.id, s.name, e.start_time, e.end_time FROM execution e, step s "
                "WHERE e.step = s.id AND s.workflow = ?", (w,))
            rows = [dict(zip(["id", "name", "start_time", "end_time"], r)) for r in rows]
            if rows or last_only:
                out.append(rows)
        return out

    async def dump(self):
        out = {}
        for t, (cols, _) in TABLES.items():
            out[t] = sorted(canon(list(r)) for r in await self._all(f"SELECT {', '.join(cols)} FROM {t}"))
        return out


def stdlib_dump(path):
    con = sqlite3.connect(path)
    try:
        out = {}
        for t, (cols, _) in TABLES.items():
            out[t] = sorted(canon(list(r)) for r in con.execute(f"SELECT {', '.join(cols)} FROM {t}").fetchall())
        return out
    finally:
        con.close()
