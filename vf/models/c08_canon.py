"""C08 canonical form: a reflective, JSON-able description of a workflow object graph that is
independent of object identity, used to compare original / loaded / copied workflows.

Rules (each one is a statement about what "structurally identical" means here):

R1  every public and private attribute of every reachable object is included (instance `__dict__`
    and `__slots__`), with the object's fully qualified class name.  Excluded by name:
    `persistent_id`, `_saving` (persistence bookkeeping, checked separately).
R2  shared sub-objects are expanded structurally at every place they are referenced (the original may
    share one processor instance where the loaded graph has two equal ones); only true cycles are cut,
    by the stack of objects currently being expanded.
R3  back references are written by name: a `Workflow` below the root -> {"~wf": name}; a `Step` / `Port`
    that is not being listed by its workflow -> {"~step"/"~port": name, "cls": class}.
    The `StreamFlowContext`, databases and asyncio primitives are opaque leaves.
R4  scalars keep their exact type (bool / int / float / str / None); subclasses of str/int/float
    (ruamel / cwl-utils scalars) are taken by value as the base type; floats by repr (nan, inf, -0.0).
    `DeploymentConfig.external` / `.lazy` come back from SQLite INTEGER columns as 0/1: compared by truth value.
R5  mappings are compared without order, sequences with order, tuple == list, sets as sorted sets.
R6  an rdflib Graph (`CWLWorkflow.format_graph`) is its set of triples (canonical blank nodes).
R7  enum members by class and name; classes by qualified name; functions by qualified name.
R8  what a port currently holds (`token_list`, `queues`) is run-time data, see PORT_RUNTIME_ATTRS.
R9  an attribute called `expression_lib` holding None or an empty list is written as [] (every reader hands it
    to `eval_expression`/`jshead(expression_lib or [], ...)`; the translator assigns None onto a CWLCommand whose
    constructor would have stored []).  Counted in notes["expression_lib_none_as_empty"].
"""
from __future__ import annotations

import asyncio
import collections
import enum
import json
import types
from typing import Any

SKIP_ATTRS = {"persistent_id", "_saving"}
# R8: what a port currently holds (tokens, per-consumer queues) is run-time data: `Port.save` does not
# store it and `Port.load` does not claim to restore it (tokens are persisted one by one with
# `Token.save(database, port_id)` and found again with `get_port_tokens`; workload (c) checks that path).
PORT_RUNTIME_ATTRS = {"token_list", "queues"}
TRUTHY_ATTRS = {("streamflow.core.deployment.DeploymentConfig", "external"),
                ("streamflow.core.deployment.DeploymentConfig", "lazy")}
SENTINEL = "~vf-mutated~"


def _fullname(cls) -> str:
    return cls.__module__ + "." + cls.__qualname__


def _attrs(o) -> dict:
    out = {}
    for c in reversed(type(o).__mro__):
        sl = c.__dict__.get("__slots__", ())
        if isinstance(sl, str):
            sl = (sl,)
        for s in sl:
            if isinstance(s, str) and not s.startswith("__"):
                try:
                    out[s] = getattr(o, s)
                except AttributeError:
                    pass
    if hasattr(o, "__dict__"):
        out.update(vars(o))
    return out


class Canon:
    def __init__(self):
        from streamflow.core.context import StreamFlowContext
        from streamflow.core.persistence import Database, DatabaseLoadingContext
        from streamflow.core.workflow import Port, Step, Workflow

        self.Workflow, self.Step, self.Port = Workflow, Step, Port
        self.opaque = (StreamFlowContext, Database, DatabaseLoadingContext)
        self.sync = (asyncio.Lock, asyncio.Event, asyncio.Queue, asyncio.Condition, asyncio.Semaphore, asyncio.Future)
        try:
            import rdflib

            self.Graph = rdflib.Graph
        except Exception:  # pragma: no cover
            self.Graph = ()
        self.notes = collections.Counter()

    # ------------------------------------------------------------------------------- canonical form
    def canon(self, o: Any, stack=(), listing: str | None = None, owner: str | None = None, attr: str | None = None):
        if o is None or o is True or o is False:
            return o
        if isinstance(o, enum.Enum):
            return {"~enum": _fullname(type(o)) + "." + o.name}
        t = type(o)
        if t is int or t is str:
            return o
        if t is float:
            return {"~float": repr(o)}
        if isinstance(o, bool):
            return bool(o)
        if isinstance(o, str):
            self.notes["str_subclass_normalised"] += 1
            return str(o)
        if isinstance(o, int):
            self.notes["int_subclass_normalised"] += 1
            return int(o)
        if isinstance(o, float):
            self.notes["float_subclass_normalised"] += 1
            return {"~float": repr(float(o))}
        if isinstance(o, bytes):
            return {"~bytes": o.hex()}
        if isinstance(o, type):
            return {"~class": _fullname(o)}
        if isinstance(o, (types.FunctionType, types.MethodType, types.BuiltinFunctionType)):
            return {"~callable": getattr(o, "__qualname__", repr(o))}
        if isinstance(o, self.sync):
            return "~sync"
        if isinstance(o, self.opaque):
            return "~" + type(o).__name__
        if self.Graph and isinstance(o, self.Graph):
            return {"~graph": self._graph(o)}
        if id(o) in stack:
            return {"~cycle": _fullname(t)}
        stack = stack + (id(o),)
        if isinstance(o, (list, tuple, collections.deque)):
            return [self.canon(x, stack) for x in o]
        if isinstance(o, (set, frozenset)):
            return {"~set": sorted(json.dumps(self.canon(x, stack), sort_keys=True) for x in o)}
        if isinstance(o, collections.abc.Mapping):
            return {"~map": {self._key(k): self.canon(v, stack, listing=listing) for k, v in o.items()}}
        # ---- objects
        if isinstance(o, self.Workflow) and len(stack) > 1:
            return {"~wf": o.name}
        if isinstance(o, self.Step) and listing != "steps":
            return {"~step": o.name, "cls": _fullname(t)}
        if isinstance(o, self.Port) and listing != "ports":
            return {"~port": o.name, "cls": _fullname(t)}
        cls = _fullname(t)
        d = {}
        for k, v in _attrs(o).items():
            if k in SKIP_ATTRS or (k in PORT_RUNTIME_ATTRS and isinstance(o, self.Port)):
                continue
            if (cls, k) in TRUTHY_ATTRS and isinstance(v, (bool, int)):
                d[k] = bool(v)
                continue
            if k == "expression_lib" and (v is None or (isinstance(v, list) and not v)):
                if v is None:
                    self.notes["expression_lib_none_as_empty"] += 1
                d[k] = []
                continue
            sub = k if (isinstance(o, self.Workflow) and k in ("steps", "ports")) else None
            d[k] = self.canon(v, stack, listing=sub)
        return {"~obj": cls, "attrs": d}

    @staticmethod
    def _key(k):
        if isinstance(k, str):
            return str(k)
        return "~k:" + repr(k)

    def _graph(self, g):
        from rdflib.compare import to_canonical_graph

        try:
            cg = to_canonical_graph(g)
        except Exception:
            cg = g
        return sorted(" ".join(x.n3() for x in triple) for triple in cg)

    # ------------------------------------------------------------------------------- walkers
    def walk(self, o, visit, seen=None):
        """visit(obj) for every reachable object/container that canon() would expand (each once)."""
        seen = seen if seen is not None else set()
        if o is None or isinstance(o, (bool, int, float, str, bytes, enum.Enum, type, types.FunctionType, types.MethodType)):
            return
        if isinstance(o, self.sync) or isinstance(o, self.opaque) or (self.Graph and isinstance(o, self.Graph)):
            return
        if id(o) in seen:
            return
        seen.add(id(o))
        visit(o)
        if isinstance(o, (list, tuple, collections.deque, set, frozenset)):
            for x in list(o):
                self.walk(x, visit, seen)
        elif isinstance(o, collections.abc.Mapping):
            for x in list(o.values()):
                self.walk(x, visit, seen)
        else:
            for k, v in _attrs(o).items():
                if k in SKIP_ATTRS or (k in PORT_RUNTIME_ATTRS and isinstance(o, self.Port)):
                    continue
                self.walk(v, visit, seen)

    def mutate_everything(self, root) -> collections.Counter:
        """Append / insert a sentinel into every mutable container reachable from `root`, and overwrite
        nothing else.  Returns how many containers of each kind were edited."""
        found = []
        self.walk(root, lambda o: found.append(o) if isinstance(o, (list, dict, set, collections.deque)) else None)
        n = collections.Counter()
        for c in found:
            if isinstance(c, (list, collections.deque)):
                c.append(SENTINEL)
                n["list"] += 1
            elif isinstance(c, dict):
                c[SENTINEL] = SENTINEL
                n["dict"] += 1
            elif isinstance(c, set):
                c.add(SENTINEL)
                n["set"] += 1
        return n

    def containers(self, root):
        """every mutable container reachable from root (list / dict / set / deque objects)"""
        found = []
        self.walk(root, lambda o: found.append(o) if isinstance(o, (list, dict, set, collections.deque)) else None)
        return found

    def objects(self, root, cls):
        found = []
        self.walk(root, lambda o: found.append(o) if isinstance(o, cls) else None)
        return found

    def persistent_ids(self, root):
        """(class name, persistent_id) of every reachable PersistableEntity."""
        from streamflow.core.persistence import PersistableEntity

        out = []
        self.walk(root, lambda o: out.append((type(o).__name__, o.persistent_id, o)) if isinstance(o, PersistableEntity) else None)
        return out


# ----------------------------------------------------------------------------------- diffing
ABSENT = "<absent>"


def diff(a, b, path=()):
    """list of (path tuple, a, b) where the two canonical forms differ (ABSENT for missing keys)."""
    if type(a) is not type(b):
        return [(path, a, b)]
    if isinstance(a, dict):
        out = []
        for k in sorted(set(a) | set(b)):
            if k not in a or k not in b:
                out.append((path + (k,), a.get(k, ABSENT), b.get(k, ABSENT)))
            else:
                out += diff(a[k], b[k], path + (k,))
        return out
    if isinstance(a, list):
        out = []
        if len(a) != len(b):
            out.append((path + ("#len",), len(a), len(b)))
        for i in range(max(len(a), len(b))):
            if i < len(a) and i < len(b):
                out += diff(a[i], b[i], path + (i,))
            else:
                out.append((path + (i,), a[i] if i < len(a) else ABSENT, b[i] if i < len(b) else ABSENT))
        return out
    return [] if a == b else [(path, a, b)]


def short(x, n=160):
    s = json.dumps(x, sort_keys=True, default=repr, ensure_ascii=False)
    return s if len(s) <= n else s[: n - 3] + "..."


def show(path) -> str:
    """human-readable path: /attrs and /~map noise removed"""
    return "/" + "/".join(str(p) for p in path if p not in ("attrs", "~map"))


def strip_sentinel(c):
    """canonical form with every SENTINEL list element / mapping entry / set member removed"""
    if isinstance(c, list):
        return [strip_sentinel(x) for x in c if x != SENTINEL]
    if isinstance(c, dict):
        if "~set" in c and len(c) == 1:
            return {"~set": [x for x in c["~set"] if x != json.dumps(SENTINEL)]}
        return {k: strip_sentinel(v) for k, v in c.items() if k != SENTINEL}
    return c


def has_sentinel(c) -> bool:
    return SENTINEL in json.dumps(c)
