"""C32 reference model: what "moving a CWL File/Directory value from directory `old` to `new`" means.

Independent of streamflow.cwl.utils.remap_path: no os.path.relpath, no path_processor.join.

Semantics used (the same reading `streamflow.cwl.utils.get_path_from_token` and cwltool use):
  * `path` (and a scheme-less `location`) is a plain filesystem path: every character is literal,
    in particular `%41` is the three characters `%`,`4`,`1`;
  * a `file://` location is a URI: its path is percent-encoded, `decode(loc) = unquote(loc[7:])`,
    canonical form `file://` + urllib.parse.quote(path) (what get_file_token creates);
  * any other scheme (`http://`, `s3://`, ...) is not a local file and must come back unchanged.
"""
from __future__ import annotations

import posixpath
import re
import urllib.parse

PCT_HEX = re.compile(r"%[0-9a-fA-F]{2}")
SCHEME = re.compile(r"^[A-Za-z][A-Za-z0-9+.\-]*://")


def is_file_url(s: str) -> bool:
    return s.startswith("file://")


def is_other_url(s: str) -> bool:
    return bool(SCHEME.match(s)) and not is_file_url(s)


def decode(s: str) -> str:
    """Filesystem path denoted by a path/location string."""
    return urllib.parse.unquote(s[7:]) if is_file_url(s) else s


def canonical_location(path: str) -> str:
    return "file://" + urllib.parse.quote(path)


def under(p: str, d: str) -> bool:
    d = d.rstrip("/") or "/"
    return p.startswith(d + "/") if d != "/" else p.startswith("/") and p != "/"


def move(p: str, old: str, new: str) -> str:
    """Normalised path `p` strictly under `old`, re-rooted at `new` (pure string surgery)."""
    o = old.rstrip("/")
    assert p.startswith(o + "/"), (p, old)
    rel = p[len(o) + 1:]
    return (new.rstrip("/") or "") + "/" + rel


def ref_leaf(s: str, old: str, new: str) -> str:
    """Canonical expected result of remapping one path/location string."""
    if is_other_url(s):
        return s
    if is_file_url(s):
        return canonical_location(move(decode(s), old, new))
    return move(s, old, new)


def is_filelike(v) -> bool:
    return isinstance(v, dict) and v.get("class") in ("File", "Directory")


def leaves(v, where=()):
    """Yield (json-pointer tuple, field, string) for every path/location of every File/Directory."""
    if isinstance(v, list):
        for i, e in enumerate(v):
            yield from leaves(e, where + (i,))
    elif isinstance(v, dict):
        if is_filelike(v):
            for f in ("location", "path"):
                if f in v:
                    yield where + (f,), f, v[f]
            for f in ("secondaryFiles", "listing"):
                if f in v:
                    yield from leaves(v[f], where + (f,))
        else:
            for k, e in v.items():
                yield from leaves(e, where + (k,))


def get_at(v, where):
    for k in where:
        v = v[k]
    return v


def set_at(v, where, x):
    for k in where[:-1]:
        v = v[k]
    v[where[-1]] = x


# ---- predictions of the *listed* defect mechanisms (used only to classify a refutation) ----------
def _bug_move(p: str, old: str, new: str) -> str:
    # relpath on the (wrongly) decoded string, re-joined under new: normalising, may leave `old`
    rel = posixpath.relpath(p, old)
    return posixpath.join(new, *rel.split("/"))


def bug_leaf(s: str, old: str, new: str) -> str:
    """What one remap returns if (a) plain paths are percent-decoded and (b) file:// results are
    not re-quoted — and nothing else is wrong."""
    if is_other_url(s):
        return s
    if is_file_url(s):
        return "file://" + _bug_move(urllib.parse.unquote(s[7:]), old, new)
    return _bug_move(urllib.parse.unquote(s), old, new)


def classify_oneway(s: str, got: str, old: str, new: str):
    """Mechanism label for a one-way refutation on leaf `s` (normalised, under old), or None."""
    if is_file_url(s):
        want_path = move(decode(s), old, new)
        if got == "file://" + want_path and urllib.parse.unquote(want_path) != want_path:
            # exactly the right path, emitted raw: read back as a URI it names another file
            return "C32/location-not-requoted"
        return None
    if not is_other_url(s) and PCT_HEX.search(s) and got == bug_leaf(s, old, new):
        return "C32/plain-path-percent-decoded"
    return None


def classify_roundtrip(s: str, got: str, old: str, new: str):
    """Mechanism label for a round-trip refutation (remap old->new->old) on leaf `s`, or None."""
    pred = bug_leaf(bug_leaf(s, old, new), new, old)
    if got != pred:
        return None
    if is_file_url(s):
        p1 = decode(s)
        if got == "file://" + p1 and urllib.parse.quote(p1) != p1:
            # right file, only the quoting was lost
            return "C32/location-not-requoted"
        if PCT_HEX.search(move(p1, old, new)):
            # the raw (unquoted) result of the first remap still contains %XX (from the file name or
            # from `new`) and was percent-decoded again by the second remap
            return "C32/location-decoded-twice"
        return None
    if not is_other_url(s) and (PCT_HEX.search(s) or PCT_HEX.search(old) or PCT_HEX.search(new)):
        return "C32/plain-path-percent-decoded"
    return None
