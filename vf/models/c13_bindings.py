"""C13 reference semantics of binding filters and target choice (independent of streamflow).

A *case* describes targets, filters and job inputs as plain JSON:

  target  {"dep": "d1", "service": None | "s1", "locations": 1}
  filter  {"rules": [{"target": "d1" | {"deployment": "d1", "service": "s1"},
                      "job": [{"port": "p0", "match": "x"}, ...]}, ...]}
  inputs  {"p0": <str|int|bool|float>, ...}

Semantics (property statement): a matching filter keeps a target iff SOME rule is for the target's
deployment (and, when the rule names a service, for the target's service) and ALL its port
predicates equal the string form of the job's input values.  A chain keeps the declared order.
The job goes to the first survivor (declared order) that can host it.
"""
from __future__ import annotations


def rule_target(rule):
    t = rule["target"]
    if isinstance(t, str):
        return t, None
    return t["deployment"], t.get("service")


def rule_matches(rule, dep, service, inputs) -> bool:
    rdep, rsvc = rule_target(rule)
    if rdep != dep:
        return False
    if rsvc is not None and rsvc != service:
        return False
    return all(p["match"] == str(inputs[p["port"]]) for p in rule["job"])


def filter_survivors(flt, targets, idxs, inputs):
    """order-preserving sub-sequence of idxs (indices into `targets`)"""
    return [i for i in idxs
            if any(rule_matches(r, targets[i]["dep"], targets[i]["service"], inputs) for r in flt["rules"])]


def chain_survivors(filters, targets, inputs):
    """-> (list of per-stage outputs, final survivors); stops at the first empty stage"""
    cur = list(range(len(targets)))
    stages = []
    for f in filters:
        cur = filter_survivors(f, targets, cur, inputs)
        stages.append(list(cur))
        if not cur:
            break
    return stages, cur


def first_admissible(survivors, can_host):
    for i in survivors:
        if can_host(i):
            return i
    return None


def in_domain(case) -> bool:
    """every predicate port is a job input, ports are distinct inside a rule, inputs are scalars"""
    for f in case["filters"]:
        for r in f["rules"]:
            ports = [p["port"] for p in r["job"]]
            if len(set(ports)) != len(ports) or any(p not in case["inputs"] for p in ports):
                return False
    return all(isinstance(v, (str, int, float, bool)) for v in case["inputs"].values())


class Ledger:
    """Shadow record of who occupies what, fed only by events the harness saw at the scheduler's
    boundary (`_allocate_job` calls, the harness's own notify_status calls)."""

    def __init__(self, caps):
        # caps: {(dep, locname): capacity in job units}
        self.caps = dict(caps)
        self.active = {}  # job -> list of (dep, locname)

    def used(self, key):
        return sum(1 for locs in self.active.values() for k in locs if k == key)

    def free_locations(self, dep):
        return [k for k in self.caps if k[0] == dep and self.used(k) < self.caps[k]]

    def can_host(self, target) -> bool:
        return len(self.free_locations(target["dep"])) >= target["locations"]

    def allocate(self, job, keys):
        self.active[job] = list(keys)

    def release(self, job):
        self.active.pop(job, None)

    def over(self):
        return [(k, self.used(k), c) for k, c in self.caps.items() if self.used(k) > c]
