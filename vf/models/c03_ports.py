"""C03 reference model of ports: a log per port plus one cursor per consumer.

Written from the statement:
  * every consumer receives every token put on the port exactly once, in put order, including the
    tokens put before its first read (a late subscriber starts at position 0);
  * a filtering port admits termination tokens and the data tokens its predicate accepts;
  * an inter-workflow port holds boundary rules (target port, action, list of tags still missing).
    A data token removes one occurrence of its tag from every rule; a rule whose list became empty
    executes its action on the target (PROPAGATE: deliver the token; TERMINATE:
    deliver a RECOVERED termination token; both: in that order).  If one of the completed rules
    targets the port itself the rule decides what the port's own consumers see, otherwise the
    token is delivered on the port itself as usual.  A rule added after tokens were put counts the
    tokens already on the port (replay in put order).

Tokens are JSON lists: ["D", uid, tag] and ["T", status-name].

Boundary actions follow the literal reading of the statement, which is also what the pinned code
does: the action applies to every data token put (or replayed) while the rule's remaining tag list
is empty -- the completing token, every later token, every token when the rule was created with
an empty tag list, and, for a rule attached late, every token of the log from the completing one on.

Where the statement does not define the outcome the model keeps going with the behaviour of the
pinned code ("mirror") but sets `ood` to the reason; callers record such histories and do not judge
them:
  - a rule targeting the port itself whose replay fires (the code re-puts an already delivered
    token on the same port; the engine installs such rules before injecting tokens -- DESIGN C03).
"""
from __future__ import annotations

import copy


class MRule:
    __slots__ = ("target", "action", "tags", "was_empty")

    def __init__(self, target, action, tags):
        self.target = target
        self.action = action  # "P", "T" or "PT"
        self.tags = list(tags)
        self.was_empty = len(self.tags) == 0


class MPort:
    def __init__(self, name, kind, allowed=None):
        self.name = name
        self.kind = kind  # plain | filter | inter
        self.allowed = set(allowed or [])
        self.log = []
        self.rules = []


class Model:
    def __init__(self, spec):
        """spec: {port: {"kind": ..., "allowed": [...]}}"""
        self.ports = {n: MPort(n, s["kind"], s.get("allowed")) for n, s in spec.items()}
        self.cursors = {}  # (port, consumer) -> next index
        self.ood = None
        self.fired = 0  # boundary actions executed (evidence)
        self.replayed = 0  # rules whose replay consumed at least one tag
        self.post_completion = 0  # data tokens put while a boundary of the port was already complete
        self.empty_rule_fired = 0  # firings (in replay) of rules created with an empty tag list
        self.replay_multi = 0  # replay firings on a token that is not the last one of the log

    def clone(self):
        return copy.deepcopy(self)

    def _mark(self, why):
        if self.ood is None:
            self.ood = why

    # -- puts -------------------------------------------------------------------------------
    def put(self, pname, tok):
        p = self.ports[pname]
        if tok[0] == "T" or p.kind == "plain":
            p.log.append(tok)
        elif p.kind == "filter":
            if tok[2] in p.allowed:
                p.log.append(tok)
        else:
            if any(not r.tags for r in p.rules):
                self.post_completion += 1  # judged: the action applies while the boundary stays complete
            matched_self = False
            for r in p.rules:
                if tok[2] in r.tags:
                    r.tags.remove(tok[2])
                if not r.tags:
                    self._act(p, r, tok)
                    if r.target == p.name:
                        matched_self = True
            if not matched_self:
                p.log.append(tok)

    def _act(self, p, r, tok):
        self.fired += 1
        if r.target == p.name:  # the rule decides what the port itself delivers
            if "P" in r.action:
                p.log.append(tok)
            if "T" in r.action:
                p.log.append(["T", "RECOVERED"])
        else:
            if "P" in r.action:
                self.put(r.target, tok)
            if "T" in r.action:
                self.put(r.target, ["T", "RECOVERED"])

    def add_rule(self, pname, target, tags, action):
        p = self.ports[pname]
        r = MRule(target, action, tags)
        p.rules.append(r)
        snapshot = [t for t in p.log if t[0] == "D"]
        consumed = False
        for k, tok in enumerate(snapshot):
            if tok[2] in r.tags:
                r.tags.remove(tok[2])
                consumed = True
            if not r.tags:
                if r.was_empty:
                    self.empty_rule_fired += 1
                if k != len(snapshot) - 1:
                    self.replay_multi += 1
                if target == pname:
                    self._mark("replay of a rule targeting the port itself fires")
                self._act(p, r, tok)
        if consumed:
            self.replayed += 1

    # -- gets -------------------------------------------------------------------------------
    def available(self, pname, consumer):
        return len(self.ports[pname].log) - self.cursors.get((pname, consumer), 0)

    def take(self, pname, consumer):
        i = self.cursors.get((pname, consumer), 0)
        self.cursors[(pname, consumer)] = i + 1
        return self.ports[pname].log[i]

    # -- whole histories -----------------------------------------------------------------------
    def apply(self, op, uid=None):
        """Apply a put/term/rule operation (gets are driven by the harness through take())."""
        k = op[0]
        if k == "put":
            self.put(op[1], ["D", uid, op[2]])
        elif k == "term":
            self.put(op[1], ["T", op[2]])
        elif k == "rule":
            self.add_rule(op[1], op[2], op[3], op[4])
