"""C28 reference resolver over the RAW StreamFlow file (plain dicts), independent of
`WorkflowConfig`'s tree: nearest bound ancestor by path components, workdir inheritance along the
wraps chain, plain cycle detection."""
from __future__ import annotations


def parts(path: str):
    """components of an absolute posix path ('/a/b/' -> ['a','b'], '/' -> [])"""
    return [c for c in path.split("/") if c != ""]


def wraps_of(dep: dict):
    """-> (wrapped deployment name, service) or None"""
    w = dep.get("wraps")
    if w is None:
        return None
    if isinstance(w, str):
        return (w, None)
    return (w["deployment"], w.get("service"))


def has_cycle(deployments: dict) -> bool:
    for start in deployments:
        seen = {start}
        cur = start
        while (w := wraps_of(deployments[cur])) is not None:
            cur = w[0]
            if cur in seen:
                return True
            seen.add(cur)
    return False


def chain_length(deployments: dict, name: str) -> int:
    n, cur, seen = 0, name, {name}
    while (w := wraps_of(deployments[cur])) is not None:
        cur = w[0]
        if cur in seen:
            return -1
        seen.add(cur)
        n += 1
    return n


def inherited_workdir(deployments: dict, name: str):
    """the deployment's own workdir, else the first one found along its wraps chain, else None
    (acyclic configurations only)"""
    cur = name
    while True:
        d = deployments[cur]
        if d.get("workdir") is not None:
            return d["workdir"]
        w = wraps_of(d)
        if w is None:
            return None
        cur = w[0]


def nearest_step_binding(bindings: list, query: str):
    """the step binding whose path is the longest component-wise prefix of `query` (step paths are
    distinct in the generated domain); port bindings never count"""
    q = parts(query)
    best, best_len = None, -1
    for b in bindings:
        if "step" not in b:
            continue
        bp = parts(b["step"])
        if q[:len(bp)] == bp and len(bp) > best_len:
            best, best_len = b, len(bp)
    return best


def expected_targets(cfg: dict, binding: dict):
    """-> list of dicts describing the targets a step bound by `binding` must get"""
    deps = cfg["deployments"]
    tl = binding["target"] if isinstance(binding["target"], list) else [binding["target"]]
    out = []
    for t in tl:
        d = deps[t["deployment"]]
        dep_wd = inherited_workdir(deps, t["deployment"])
        out.append({
            "deployment": t["deployment"],
            "type": d["type"],
            "locations": t.get("locations", 1),
            "service": t.get("service"),
            "workdir": t.get("workdir") or dep_wd,  # None => the engine's per-type default
            "deployment_workdir": dep_wd,
            "wraps": wraps_of(d),
        })
    return out
