"""C07 oracle: expected dependee sets per step family (written from the property statement) and
whole-table checks (existence, order, acyclicity by Kahn's algorithm).

Inputs are *observations*: the monitor's own record (vf.harness.c04_wfgen.Recorder: Port.put,
Port.get, BaseStep._persist_token wrappers), the wiring of the workflow, and the raw rows of the
`token`, `provenance`, `port` tables read through the engine's own sqlite connection.
The ids a step passed to `_persist_token` are deliberately NOT used as the expectation.
"""
from __future__ import annotations

import collections
import posixpath


def _pref(tag, n=1):
    return ".".join(tag.split(".")[:-n]) if n else tag


def _head(tag, n):
    return ".".join(tag.split(".")[:n])


def kahn_acyclic(edges):
    """edges: iterable of (dependee, depender).  -> (True, None) or (False, nodes on/behind a cycle)"""
    succ = collections.defaultdict(set)
    indeg = collections.Counter()
    nodes = set()
    for a, b in edges:
        nodes.add(a)
        nodes.add(b)
        if b not in succ[a]:
            succ[a].add(b)
            indeg[b] += 1
    queue = collections.deque(n for n in nodes if indeg[n] == 0)
    seen = 0
    while queue:
        n = queue.popleft()
        seen += 1
        for m in succ[n]:
            indeg[m] -= 1
            if indeg[m] == 0:
                queue.append(m)
    if seen == len(nodes):
        return True, None
    return False, sorted(n for n in nodes if indeg[n] > 0)[:10]


class Judge:
    """Builds the per-run indexes and yields refutations as (what, detail) pairs."""

    def __init__(self, obs):
        from streamflow.workflow.token import IterationTerminationToken, TerminationToken

        self.ITT, self.TT = IterationTerminationToken, TerminationToken
        self.obs = obs
        self.rec = obs["rec"]
        self.wiring = obs["wiring"]
        self.fam = obs["fam"]
        self.port_ids = obs["port_ids"]
        t = obs["tables"]
        self.tok_rows = {r[0]: r for r in t["token"]}  # id -> (id, port, tag, type)
        self.prov = collections.defaultdict(set)
        for dependee, depender in t["provenance"]:
            self.prov[depender].add(dependee)
        self.edges = list(t["provenance"])
        self.db_port_name = {r[0]: r[1] for r in t["port"]}
        # consumer string -> (step, input port name)
        self.consumer = {}
        for sn, w in self.wiring.items():
            for pn in w["in"]:
                self.consumer[posixpath.join(sn, pn)] = (sn, pn)
            if w["cls"] == "ExecuteStep":
                self.consumer[sn] = (sn, "__job__")  # JobPort.get_job(self.name)
        # consumed[step][port name] = [token objects] (data tokens only)
        self.consumed = collections.defaultdict(lambda: collections.defaultdict(list))
        for cons, _pname, tok in self.rec.gets:
            if cons in self.consumer and not isinstance(tok, (self.TT, self.ITT)):
                sn, pn = self.consumer[cons]
                self.consumed[sn][pn].append(tok)
        # producers of a port by wiring (output ports and skip ports)
        self.producers = collections.defaultdict(set)
        for sn, w in self.wiring.items():
            for p in list(w["out"].values()) + list(w["skip"].values()):
                self.producers[p].add(sn)
        self.persist_by = {id(tok): sn for sn, tok, _p, _ids in self.rec.persists}
        self.counts = collections.Counter()

    # -- expected dependees ---------------------------------------------------------------------
    def _ids(self, toks):
        return {t.persistent_id for t in toks if t.persistent_id is not None}

    def expected(self, sn, out_pn, tok):
        """-> set of token ids, or None when the case is outside the stated domain."""
        fam, _i, aux = self.fam.get(sn, (None, None, None))
        c = self.consumed[sn]
        tag = tok.tag
        if fam in ("fn", "cond", "loopcond", "loopback"):
            return self._ids(t for pn, ts in c.items() for t in ts if t.tag == tag)
        if fam == "scatter":
            want = tag if out_pn == "__size__" else _pref(tag)
            return self._ids(t for ts in c.values() for t in ts if t.tag == want)
        if fam == "gather":
            d = aux["depth"]
            size = [t for t in c.get("__size__", []) if t.tag == tag]
            if not size:
                return None  # forced gather (size never received): not produced by failure-free programs
            elems = [t for pn, ts in c.items() if pn != "__size__" for t in ts if _pref(t.tag, d) == tag]
            if any(t.value != len(elems) for t in size):
                # the announced size never matched what arrived: GatherStep gathers at termination with a size
                # token it creates itself ("forced gather").  Outside the stated domain; in failure-free
                # programs it only happens downstream of the listed loop-cut defect (C04/C05/C06).
                self.counts["forced_gather_size_mismatch"] += 1
                return None
            return self._ids(size + elems)
        if fam == "deploy":
            return set()
        if fam == "schedule":
            # every connector port the step consumed (one per alternative target of its binding), not only the
            # deployment the job was finally scheduled on, plus the job's inputs
            if sum(1 for pn in self.wiring[sn]["in"] if pn.startswith("__connector__")) >= 2:
                self.counts["schedule_multi_target_tokens"] += 1
            e = set()
            for pn, ts in c.items():
                if pn.startswith("__connector__"):
                    e |= self._ids(ts)
                else:
                    e |= self._ids(t for t in ts if t.tag == tag)
            return e
        if fam == "execute":
            e = set()
            for pn, ts in c.items():
                if pn.startswith("__connector__"):
                    continue
                e |= self._ids(t for t in ts if t.tag == tag)  # inputs of the job and its JobToken share the tag
            return e
        if fam == "dot":
            return self._ids(t for pn, ts in c.items() for t in ts if t.tag == _head(tag, aux["depths"][pn]))
        if fam in ("cart", "cartdot"):
            parts = tag.split(".")
            want = {"a": ".".join(parts[:-1]), "b": ".".join(parts[:-2] + parts[-1:])}
            if fam == "cartdot":
                want["c"] = _head(tag, aux["depths"]["c"])
            return self._ids(t for pn, ts in c.items() for t in ts if t.tag == want[pn])
        if fam == "loopcomb":
            parts = tag.split(".")
            k = int(parts[-1])
            want = ".".join(parts[:-1]) if k == 0 else ".".join(parts[:-1] + [str(k - 1)])
            return self._ids(t for ts in c.values() for t in ts if t.tag == want)
        if fam == "loopout":
            return self._ids(t for ts in c.values() for t in ts if _pref(t.tag) == tag)
        return None

    # -- the judgement --------------------------------------------------------------------------
    def run(self):
        out = []
        ids = set(self.tok_rows)
        # whole-table checks
        self.counts["provenance_rows"] += len(self.edges)
        for a, b in self.edges:
            if a not in ids or b not in ids:
                out.append(("provenance row refers to a missing token", {"dependee": a, "depender": b}))
            if not (a < b):
                out.append(("provenance edge whose dependee was not persisted before its depender",
                            {"dependee": a, "depender": b}))
        ok, cyc = kahn_acyclic(self.edges)
        self.counts["kahn_runs"] += 1
        if not ok:
            out.append(("provenance relation has a cycle", {"nodes": cyc}))
        # per emitted token
        emitted = set()
        for pname, tok in self.rec.puts:
            if isinstance(tok, self.TT):
                continue
            prods = self.producers.get(pname)
            if not prods:
                continue  # a source port (injected by the harness)
            if isinstance(tok, self.ITT):
                self.counts["control_tokens_ignored"] += 1
                continue
            sn = self.persist_by.get(id(tok)) or (next(iter(prods)) if len(prods) == 1 else None)
            self.counts["tokens_checked"] += 1
            where = {"step": sn, "port": pname, "tag": tok.tag, "type": type(tok).__name__}
            pid = tok.persistent_id
            if pid is None:
                out.append(("data token put on a port without a persistent id", where))
                continue
            emitted.add(pid)
            row = self.tok_rows.get(pid)
            if row is None:
                out.append(("emitted token has no row in the token table", dict(where, id=pid)))
                continue
            if row[1] != self.port_ids.get(pname) or self.db_port_name.get(row[1]) != pname:
                out.append(("token row is attached to the wrong port", dict(where, id=pid, row_port=row[1],
                                                                           expected_port=self.port_ids.get(pname))))
            if row[2] != tok.tag:
                out.append(("token row has a different tag", dict(where, id=pid, row_tag=row[2])))
            if sn is None:
                self.counts["unattributed_tokens"] += 1
                continue
            out_pn = next((k for k, v in list(self.wiring[sn]["out"].items()) + list(self.wiring[sn]["skip"].items()) if v == pname), None)
            exp = self.expected(sn, out_pn, tok)
            if exp is None:
                self.counts["out_of_domain"] += 1
                continue
            got = self.prov.get(pid, set())
            fam = self.fam.get(sn, ("?",))[0]
            self.counts["dependee_sets_compared"] += 1
            self.counts["family_" + str(fam)] += 1
            if got != exp:
                def lab(i):
                    r = self.tok_rows.get(i)
                    return f"{i}:{self.db_port_name.get(r[1]) if r else '?'}@{r[2] if r else '?'}"

                out.append((f"dependee set of a token emitted by a {fam} step differs from the tokens it was computed from",
                            dict(where, id=pid, family=fam, missing=sorted(lab(i) for i in exp - got),
                                 unexpected=sorted(lab(i) for i in got - exp))))
        self.counts["dependers_never_emitted"] += sum(1 for d in self.prov if d not in emitted)
        return out
