"""C14 reference model (dict of floats) and the laws as icontract post-conditions.

Model of a Hardware value h:
    {"cores": float, "memory": float, "st": {mount_point: total size}, "paths": {mount_point: set}}
`st` sums every Storage of `h.storage` that names the mount point, whatever its key (aliasing keys).

`install(counter)` wraps the real operators
    Hardware.__add__/__sub__/__or__/normalized/satisfies   and   Storage.__add__/__sub__/__or__
with `icontract.ensure` (named condition functions, explicit `error=`), once per process.  Every
evaluation is counted through `counter(name)`.  Two modes:
    MODE["raise"] = True   a broken law raises LawBroken at the operator's own boundary;
    MODE["raise"] = False  a broken law is appended to FAILURES and the operator returns normally
                           (used while the contracts ride along the scheduler workloads).
"""
from __future__ import annotations

TOL = 1e-9
MODE = {"raise": True}
FAILURES: list[dict] = []
_installed = {"done": False, "counter": None}


class LawBroken(Exception):
    def __init__(self, law, detail):
        super().__init__(f"{law}: {detail}")
        self.law = law
        self.detail = detail


def close(x, y, scale=0.0):
    return abs(x - y) <= TOL * max(1.0, abs(x), abs(y), abs(scale))


def totals(h):
    d: dict[str, float] = {}
    for s in h.storage.values():
        d[s.mount_point] = d.get(s.mount_point, 0.0) + s.size
    return d


def paths_by_mount(h):
    d: dict[str, set] = {}
    for s in h.storage.values():
        d.setdefault(s.mount_point, set()).update(s.paths)
    return d


def model(h):
    return {"cores": h.cores, "memory": h.memory, "st": totals(h), "paths": paths_by_mount(h)}


def frozen(h):
    """Full observable state of a Hardware (for the no-mutation law)."""
    return (h.cores, h.memory,
            tuple(sorted((k, s.mount_point, s.size, tuple(sorted(s.paths)), s.bind) for k, s in h.storage.items())))


def frozen_storage(s):
    return (s.mount_point, s.size, tuple(sorted(s.paths)), s.bind)


def model_satisfies(ma, mr):
    """capacity model `ma` satisfies requirement model `mr` (a missing mount point holds 0)."""
    return (ma["cores"] >= mr["cores"] and ma["memory"] >= mr["memory"]
            and all(ma["st"].get(mp, 0.0) >= v for mp, v in mr["st"].items()))


# --------------------------------------------------------------------------------------------
# laws (pure predicates over the real objects; return (ok, detail))
# --------------------------------------------------------------------------------------------
def law_add(a, b, res):
    ma, mb, mr = model(a), model(b), model(res)
    if not close(mr["cores"], ma["cores"] + mb["cores"]) or not close(mr["memory"], ma["memory"] + mb["memory"]):
        return False, f"cores/memory {mr['cores']},{mr['memory']}"
    mounts = set(ma["st"]) | set(mb["st"])
    if set(mr["st"]) != mounts:
        return False, f"mount points {sorted(mr['st'])} != {sorted(mounts)}"
    for mp in mounts:
        exp = ma["st"].get(mp, 0.0) + mb["st"].get(mp, 0.0)
        if not close(mr["st"][mp], exp, exp):
            return False, f"size[{mp}]={mr['st'][mp]!r} expected {exp!r}"
        if mr["paths"].get(mp, set()) != ma["paths"].get(mp, set()) | mb["paths"].get(mp, set()):
            return False, f"paths[{mp}] not the union"
    if not res.is_normalized():
        return False, "result not in normalized form"
    return True, ""


def law_sub(a, b, res):
    ma, mb, mr = model(a), model(b), model(res)
    if not close(mr["cores"], ma["cores"] - mb["cores"], ma["cores"]) or not close(mr["memory"], ma["memory"] - mb["memory"], ma["memory"]):
        return False, f"cores/memory {mr['cores']},{mr['memory']}"
    for mp, v in ma["st"].items():  # mount points of the minuend (those only in `b` are outside the law)
        exp = v - mb["st"].get(mp, 0.0)
        if mp not in mr["st"]:
            return False, f"mount point {mp} lost"
        if not close(mr["st"][mp], exp, v):
            return False, f"size[{mp}]={mr['st'][mp]!r} expected {exp!r}"
        if mr["paths"].get(mp, set()) != ma["paths"].get(mp, set()) | mb["paths"].get(mp, set()):
            return False, f"paths[{mp}] not the union"
    if set(mr["st"]) - set(ma["st"]) - set(mb["st"]):
        return False, "mount point invented"
    if not res.is_normalized():
        return False, "result not in normalized form"
    return True, ""


def law_or(a, b, res):
    if set(res.storage) != set(a.storage) | set(b.storage):
        return False, f"keys {sorted(res.storage)} != union {sorted(set(a.storage) | set(b.storage))}"
    for k, s in res.storage.items():
        srcs = [h.storage[k] for h in (a, b) if k in h.storage]
        if any(x.mount_point != s.mount_point for x in srcs):
            return False, f"key {k}: mount point changed"
        if s.size != max(x.size for x in srcs):
            return False, f"key {k}: size {s.size!r} != max {max(x.size for x in srcs)!r}"
        if set(s.paths) != set().union(*(x.paths for x in srcs)):
            return False, f"key {k}: paths not the union"
    return True, ""


def law_normalized(a, res):
    ma, mr = model(a), model(res)
    if mr["cores"] != ma["cores"] or mr["memory"] != ma["memory"]:
        return False, "cores/memory changed"
    if not res.is_normalized():
        return False, "is_normalized() false on the result"
    if set(mr["st"]) != set(ma["st"]):
        return False, f"mount points {sorted(mr['st'])} != {sorted(ma['st'])}"
    for mp, v in ma["st"].items():
        if not close(mr["st"][mp], v, v):
            return False, f"total[{mp}]={mr['st'][mp]!r} expected {v!r}"
        if mr["paths"].get(mp, set()) != ma["paths"].get(mp, set()):
            return False, f"paths[{mp}] changed"
    if len(res.storage) != len(mr["st"]):
        return False, "more than one storage per mount point"
    return True, ""


def law_satisfies(a, r, res):
    exp = model_satisfies(model(a), model(r))
    # equality of sums may differ by association order: only judge when the model is decided
    # beyond rounding (generators use values for which both orders are exact or well apart)
    if res is not exp:
        ma, mr = model(a), model(r)
        borderline = any(
            close(ma["st"].get(mp, 0.0), v, v) and ma["st"].get(mp, 0.0) != v for mp, v in mr["st"].items())
        if borderline:
            return True, "borderline"
        return False, f"satisfies={res!r}, model says {exp!r}"
    return True, ""


def law_storage(op, a, b, res):
    if res.mount_point != a.mount_point or a.mount_point != b.mount_point:
        return False, "mount point"
    exp = {"add": a.size + b.size, "sub": a.size - b.size, "or": max(a.size, b.size)}[op]
    # the statement's laws hold up to 1e-9 relative (an implementation may absorb rounding residue of a
    # subtraction of nearly equal sizes); add / or are exact in the code and trivially within it
    if not close(res.size, exp, max(a.size, b.size)):
        return False, f"size {res.size!r} expected {exp!r}"
    if set(res.paths) != set(a.paths) | set(b.paths):
        return False, "paths not the union"
    return True, ""


# --------------------------------------------------------------------------------------------
# installation on the real classes
# --------------------------------------------------------------------------------------------
def _judge(name, ok_detail, operands):
    c = _installed["counter"]
    if c:
        c("c14_contract_" + name)
    ok, detail = ok_detail
    if ok:
        return True
    FAILURES.append({"law": name, "detail": detail, "operands": operands})
    if len(FAILURES) > 50:
        del FAILURES[50:]
    return not MODE["raise"]


def _err(name):
    def error():
        f = FAILURES[-1] if FAILURES else {"detail": "?"}
        return LawBroken(name, f["detail"])
    return error


def describe(h):
    return {"cores": h.cores, "memory": h.memory,
            "st": [[k, s.mount_point, s.size, sorted(s.paths)] for k, s in h.storage.items()]}


def install(counter=None):
    """Idempotent.  `counter(name)` is called once per contract evaluation."""
    _installed["counter"] = counter
    if _installed["done"]:
        return
    _installed["done"] = True
    import icontract
    from streamflow.core.scheduling import Hardware, Storage

    guard = {"in_norm": False}

    # ---- Hardware.__add__ ---------------------------------------------------------------
    def add_matches_model(self, other, result):
        return _judge("add", law_add(self, other, result), [describe(self), describe(other)])

    def add_keeps_operands(self, other, OLD):
        return _judge("add_nomut", (frozen(self) == OLD.a and frozen(other) == OLD.b, "operand mutated"),
                      [describe(self), describe(other)])

    def sub_matches_model(self, other, result):
        return _judge("sub", law_sub(self, other, result), [describe(self), describe(other)])

    def sub_keeps_operands(self, other, OLD):
        return _judge("sub_nomut", (frozen(self) == OLD.a and frozen(other) == OLD.b, "operand mutated"),
                      [describe(self), describe(other)])

    def or_keeps_keys_and_max(self, other, result, OLD):
        # judged against the operands as they were (the law includes "operands unchanged")
        return _judge("or", law_or(self, other, result), [describe(self), describe(other)])

    def or_keeps_operands(self, other, OLD):
        return _judge("or_nomut", (frozen(self) == OLD.a and frozen(other) == OLD.b, "operand mutated"),
                      [describe(self), describe(other)])

    def normalized_preserves_totals(self, result):
        return _judge("normalized", law_normalized(self, result), [describe(self)])

    def normalized_is_idempotent(self, result):
        if guard["in_norm"]:
            return True
        guard["in_norm"] = True
        try:
            again = result.normalized()
        finally:
            guard["in_norm"] = False
        ok = frozen(again) == frozen(result)
        return _judge("normalized_idem", (ok, "normalized(normalized(h)) != normalized(h)"), [describe(self)])

    def normalized_keeps_operand(self, OLD):
        return _judge("normalized_nomut", (frozen(self) == OLD.a, "operand mutated"), [describe(self)])

    def satisfies_matches_model(self, other, result):
        return _judge("satisfies", law_satisfies(self, other, result), [describe(self), describe(other)])

    def wrap_h(name, conds, binary=True):
        f = Hardware.__dict__[name]
        for cond in conds:
            f = icontract.ensure(cond, error=_err(cond.__name__))(f)
        if binary:
            f = icontract.snapshot(lambda other: frozen(other) if isinstance(other, Hardware) else None, name="b")(f)
        f = icontract.snapshot(lambda self: frozen(self), name="a")(f)
        setattr(Hardware, name, f)

    wrap_h("__add__", [add_matches_model, add_keeps_operands])
    wrap_h("__sub__", [sub_matches_model, sub_keeps_operands])
    wrap_h("__or__", [or_keeps_keys_and_max, or_keeps_operands])
    wrap_h("normalized", [normalized_preserves_totals, normalized_is_idempotent, normalized_keeps_operand], binary=False)
    wrap_h("satisfies", [satisfies_matches_model])

    # ---- Storage operators --------------------------------------------------------------
    def mk(op):
        def storage_op_matches_model(self, other, result, OLD):
            ok, detail = law_storage(op, self, other, result)
            if ok and (frozen_storage(self) != OLD.a or frozen_storage(other) != OLD.b):
                ok, detail = False, "operand mutated"
            return _judge("storage_" + op, (ok, detail),
                          [[self.mount_point, self.size, sorted(self.paths)], [other.mount_point, other.size, sorted(other.paths)]])
        storage_op_matches_model.__name__ = f"storage_{op}_matches_model"
        return storage_op_matches_model

    for op, name in (("add", "__add__"), ("sub", "__sub__"), ("or", "__or__")):
        f = Storage.__dict__[name]
        f = icontract.ensure(mk(op), error=_err(f"storage_{op}_matches_model"))(f)
        f = icontract.snapshot(lambda other: frozen_storage(other) if isinstance(other, Storage) else None, name="b")(f)
        f = icontract.snapshot(lambda self: frozen_storage(self), name="a")(f)
        setattr(Storage, name, f)
