"""One shard of one check, run in its own process (python -m vf.worker ...)."""
from __future__ import annotations

import argparse
import faulthandler
import importlib
import json
import logging
import os
import sys
import tempfile


def main() -> int:
    ap = argparse.ArgumentParser()
    ap.add_argument("prop")
    ap.add_argument("--shard", type=int, default=0)
    ap.add_argument("--nshards", type=int, default=1)
    ap.add_argument("--tier", default="quick")
    ap.add_argument("--seed", type=int, default=0)
    ap.add_argument("--scratch", required=True)
    ap.add_argument("--out", required=True)
    ap.add_argument("--replay")
    a = ap.parse_args()

    os.makedirs(a.scratch, exist_ok=True)
    home = os.path.join(a.scratch, "home")
    os.makedirs(home, exist_ok=True)
    os.environ["TMPDIR"] = a.scratch
    os.environ["HOME"] = home
    tempfile.tempdir = a.scratch
    os.chdir(a.scratch)
    # a hard hang dumps every thread's stack here; the driver attaches it to the verdict
    fh = open(os.path.join(a.scratch, "faulthandler.log"), "w")
    faulthandler.enable(fh)
    logging.getLogger("streamflow").setLevel(logging.CRITICAL)
    logging.getLogger("cwltool").setLevel(logging.CRITICAL)
    logging.getLogger("salad").setLevel(logging.CRITICAL)

    from vf.common import Shard, short_tb

    mod = importlib.import_module("vf.checks." + a.prop.lower())
    plan = mod.plan(a.tier)
    sh = Shard(a.prop, a.shard, a.nshards, a.tier, a.seed, a.scratch, plan)
    faulthandler.dump_traceback_later(max(30, sh.plan["timeout_s"] - 15), file=fh, exit=False)
    import gc

    gc.disable()  # see Shard._maybe_gc: collections only between cases (cachebox GC self-deadlock)
    try:
        if a.replay:
            sh.replaying = True
            with open(a.replay) as f:
                w = json.load(f)
            mod.replay(sh, w.get("witness", w))
        else:
            mod.run_shard(sh)
    except BaseException as e:  # harness failure: never folded into held/violated
        sh.inconclusive_because("worker crashed: " + short_tb(e))
    faulthandler.cancel_dump_traceback_later()
    tmp = a.out + ".tmp"
    with open(tmp, "w") as f:
        json.dump(sh.result(), f)
    os.replace(tmp, a.out)
    sys.stdout.flush()
    # engine tasks / threads left behind by a deliberately broken run must not keep us alive
    os._exit(0)


if __name__ == "__main__":
    main()
