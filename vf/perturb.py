"""Schedule perturbation at legal reschedule points + quiescence (deadlock) detection.

Perturbation never reorders asyncio's ready queue.  It only
 * inserts extra `await asyncio.sleep(0)` around operations whose completion time is
   genuinely external (database coroutines, harness commands, connector calls), and
 * makes `asyncio.wait` return its `done` set in a seeded iteration order
   (set order of tasks is unspecified in a real run).
"""
from __future__ import annotations

import asyncio
import random
import traceback
import weakref

_orig_wait = asyncio.wait
_orig_to_thread = asyncio.to_thread


class Sched:
    rng = random.Random(0)
    K = 3
    enabled = True
    inflight = 0  # external operations in progress (db thread, executor threads, harness ops)
    events = 0  # monitor/perturbation event counter (progress indicator)
    jitter_calls = 0

    @classmethod
    def reset(cls, seed, K=3, enabled=True):
        cls.rng = random.Random(seed)
        cls.K = K
        cls.enabled = enabled
        cls.inflight = 0

    @classmethod
    async def jitter(cls, k=None):
        cls.events += 1
        if not cls.enabled:
            return
        cls.jitter_calls += 1
        n = cls.rng.randrange(0, (cls.K if k is None else k) + 1)
        for _ in range(n):
            await asyncio.sleep(0)


class ShufSet(set):
    def __iter__(self):
        items = list(set.__iter__(self))
        # deterministic base order first (task names are creation-ordered), then seeded shuffle
        try:
            items.sort(key=lambda t: t.get_name() if hasattr(t, "get_name") else repr(t))
        except Exception:
            pass
        Sched.rng.shuffle(items)
        return iter(items)


async def _wait(fs, *, timeout=None, return_when=asyncio.ALL_COMPLETED):
    done, pending = await _orig_wait(fs, timeout=timeout, return_when=return_when)
    if Sched.enabled:
        return ShufSet(done), pending
    return done, pending


async def _to_thread(func, /, *args, **kwargs):
    Sched.inflight += 1
    try:
        return await _orig_to_thread(func, *args, **kwargs)
    finally:
        Sched.inflight -= 1


_installed = False


def install():
    """Idempotent: wait-shuffle, in-flight accounting for aiosqlite and to_thread,
    and the jittering database class `vf-jitter`."""
    global _installed
    if _installed:
        return
    _installed = True
    asyncio.wait = _wait
    asyncio.to_thread = _to_thread

    import aiosqlite.core as ac

    def count_inflight(name):
        orig = getattr(ac.Connection, name)

        async def w(self, *a, **k):
            Sched.inflight += 1
            try:
                return await orig(self, *a, **k)
            finally:
                Sched.inflight -= 1

        w.__name__ = name
        setattr(ac.Connection, name, w)

    for n in ("_execute", "_connect", "close"):
        count_inflight(n)

    import streamflow.persistence as P
    from streamflow.persistence.sqlite import SqliteDatabase

    class VfJitterDatabase(SqliteDatabase):
        pass

    def wrap(name):
        orig = getattr(SqliteDatabase, name)

        async def w(self, *a, **k):
            await Sched.jitter()
            r = await orig(self, *a, **k)
            await Sched.jitter()
            return r

        w.__name__ = name
        w.__wrapped__ = orig
        return w

    for n in dir(SqliteDatabase):
        if n.startswith(("add_", "get_", "update_")) and asyncio.iscoroutinefunction(getattr(SqliteDatabase, n)):
            setattr(VfJitterDatabase, n, wrap(n))
    P.database_classes["vf-jitter"] = VfJitterDatabase


class Deadlock(Exception):
    def __init__(self, stacks):
        super().__init__("event loop quiescent while the awaited result is pending")
        self.stacks = stacks


class WallTimeout(Exception):
    pass


def _task_stacks(limit=40):
    out = []
    for t in asyncio.all_tasks():
        if t.done():
            continue
        try:
            fr = t.get_stack(limit=6)
            where = [f"{f.f_code.co_filename.split('/repo/')[-1]}:{f.f_lineno}:{f.f_code.co_name}" for f in fr]
        except Exception:
            where = ["?"]
        out.append({"task": t.get_name(), "coro": getattr(t.get_coro(), "__qualname__", "?"), "stack": where})
        if len(out) >= limit:
            break
    return out


_HEARTBEATS: set = set()


def loop_is_quiescent(loop) -> bool:
    """True iff nothing can ever run again unless an external event arrives:
    no ready callbacks, no live timers (other than ours), no in-flight external op,
    no registered I/O besides the loop's self-pipe."""
    if Sched.inflight > 0:
        return False
    if len(loop._ready) > 0:
        return False
    for h in loop._scheduled:
        if not h._cancelled and h not in _HEARTBEATS:
            return False
    try:
        if len(loop._selector.get_map()) > 1:
            return False
    except Exception:
        pass
    return True


async def run_quiescent(awaitable, wall_timeout=60.0, beat=0.02):
    """Await `awaitable`; raise Deadlock if the loop becomes provably quiescent while it is
    pending (logical criterion), WallTimeout if the generous wall-clock watchdog fires
    (=> inconclusive, never a violation)."""
    loop = asyncio.get_running_loop()
    task = asyncio.ensure_future(awaitable)
    state = {"quiet": 0, "deadlock": None, "elapsed": 0.0, "timeout": False, "last_events": -1}
    waker = loop.create_future()

    def heartbeat():
        if task.done() or waker.done():
            return
        state["elapsed"] += beat
        if loop_is_quiescent(loop) and state["last_events"] == Sched.events:
            state["quiet"] += 1
        else:
            state["quiet"] = 0
        state["last_events"] = Sched.events
        if state["quiet"] >= 3:
            state["deadlock"] = _task_stacks()
            waker.set_result(None)
            return
        if state["elapsed"] >= wall_timeout:
            state["timeout"] = True
            waker.set_result(None)
            return
        _HEARTBEATS.clear()
        _HEARTBEATS.add(loop.call_later(beat, heartbeat))

    _HEARTBEATS.clear()
    _HEARTBEATS.add(loop.call_later(beat, heartbeat))
    await _orig_wait({task, waker}, return_when=asyncio.FIRST_COMPLETED)
    if task.done():
        if not waker.done():
            waker.cancel()
        return task.result()
    stacks = state["deadlock"] if state["deadlock"] is not None else _task_stacks()
    task.cancel()
    try:
        await asyncio.wait_for(asyncio.gather(task, return_exceptions=True), 5)
    except Exception:
        pass
    if state["deadlock"] is not None:
        raise Deadlock(stacks)
    raise WallTimeout(str(stacks)[:3000])


async def settle(max_beats=200):
    """Drive the loop until it is quiescent (used to take a task census *after* a run)."""
    loop = asyncio.get_running_loop()
    quiet = 0
    for _ in range(max_beats):
        await asyncio.sleep(0)
        # after our own wake-up the ready queue must be empty apart from what others queued
        if Sched.inflight == 0 and len(loop._ready) == 0 and not any(
            (not h._cancelled and h not in _HEARTBEATS) for h in loop._scheduled
        ):
            quiet += 1
            if quiet >= 3:
                return True
        else:
            quiet = 0
            if Sched.inflight > 0 or any((not h._cancelled and h not in _HEARTBEATS) for h in loop._scheduled):
                await asyncio.sleep(0.002)
    return False


def pending_engine_tasks(exclude=()):
    cur = asyncio.current_task()
    return [t for t in asyncio.all_tasks() if not t.done() and t is not cur and t not in exclude]
