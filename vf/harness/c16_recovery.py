"""Shared fault-injection harness of C16..C19 (recovery with the rollback failure manager).

Everything here drives the REAL engine classes (DeployStep, ScheduleStep, TransferStep,
ExecuteStep, ScatterStep, GatherStep, LoopCombinatorStep, RollbackFailureManager, ...).  The
harness only supplies what the test-suite supplies through tests/utils/workflow.py:

  VfFailCommand        Command run by every ExecuteStep (content transformer on files) which
                       counts its own executions and fails on request
  VfFailScheduleStep   ScheduleStep failing in `_set_job_directories`
  VfFailTransferStep   TransferStep (concrete `transfer`) failing before the copy
  VfInjectorStep, VfOutputProcessor, VfFileToken, VfLoopWhen, VfLoopOutputLast

They differ from the test-suite's classes in that attempts are counted *in memory* (class `H`,
one run at a time per process) and faults are looked up by (job name, phase), so injection is
deterministic; all of them carry no state of their own beyond what the base class persists, hence
recovery re-creates them by class name through `Step.load` / `Command.load`.

Programs are JSON (see `gen_*` / `jobs_of`), each with an interpreter independent denotation
(`denote`): every command writes `name@tag(<rendered inputs>)`, so an output file spells its whole
lineage with tags and a stale / mis-tagged / mis-ordered token changes the content.

Fault = {"job": "/b/0.10", "phase": "schedule"|"transfer"|"execute",
         "kind": "soft"|"own"|"all", "count": 1..3, "barrier": optional group id}
 soft : the phase fails, nothing is deleted
 own  : fail-stop, the failing job's own input/output/tmp directories are deleted
 all  : fail-stop, the whole volatile deployment work directory is deleted (what the
        test-suite's FAIL_STOP does)
Every deletion is logged with the files that really existed (the loss record).
Program options: "pop": true - every ExecuteStep output goes through the engine's
PopCommandOutputProcessor (the command returns {port name: value}); "sites": {stage name: "b"} - that
stage runs on a second local deployment `vf-volatile-b` with its own volatile work directory; a file
staged from one deployment to the other is recorded as a second PRIMARY replica of the source (what
DefaultDataManager.transfer_data does for read-only copies between deployments).  With two sites kind
`all` deletes the work directory of the deployment the failing job runs on.
Optional ordering gates of a fault (C17): "hold": [jobs] - those jobs stay inside their command
(RUNNING) until the faulty job gets past its failures, or - when it fails for good - until 50 loop
turns after its `_run_job` returned FAILED (the engine cancels the siblings it knows of at once; a sibling
task created later is not cancelled and would, like a real job, just finish); "after": [jobs] - the faulty job's first attempt waits until those jobs completed.
"""
from __future__ import annotations

import asyncio
import collections
import hashlib
import logging
import os
import posixpath
import shutil
from collections.abc import MutableMapping, MutableSequence
from typing import Any, cast

from streamflow.core import utils as sf_utils
from streamflow.core.config import BindingConfig
from streamflow.core.data import DataType
from streamflow.core.deployment import DeploymentConfig, Target
from streamflow.core.exception import WorkflowExecutionException
from streamflow.core.persistence import Database, DatabaseLoadingContext
from streamflow.core.processor import PopCommandOutputProcessor
from streamflow.core.utils import get_entity_ids, get_job_tag, get_tag
from streamflow.core.workflow import (
    Command,
    CommandOutput,
    Job,
    Port,
    Status,
    Token,
    Workflow,
)
from streamflow.cwl.transformer import ForwardTransformer
from streamflow.cwl.workflow import CWLWorkflow
from streamflow.data.remotepath import StreamFlowPath
from streamflow.deployment.utils import get_path_processor
from streamflow.workflow.combinator import LoopCombinator, LoopTerminationCombinator
from streamflow.workflow.executor import StreamFlowExecutor
from streamflow.workflow.step import (
    CombinatorStep,
    ConditionalStep,
    DefaultCommandOutputProcessor,
    DeployStep,
    ExecuteStep,
    GatherStep,
    InputInjectorStep,
    LoopCombinatorStep,
    LoopOutputStep,
    ScatterStep,
    ScheduleStep,
    TransferStep,
)
from streamflow.workflow.token import (
    FileToken,
    IterationTerminationToken,
    JobToken,
    ListToken,
    TerminationToken,
)

from vf.perturb import Sched

DEPLOYMENT = "vf-volatile"
VOLATILE_DIRNAME = "test-fs-volatile"
PHASES = ("schedule", "transfer", "execute")
KINDS = ("soft", "own", "all")


# --------------------------------------------------------------------------------------------
# per-run harness state
# --------------------------------------------------------------------------------------------
class Barrier:
    def __init__(self, need: int):
        self.need = need
        self.arrived: list[str] = []
        self.event = asyncio.Event()


class H:
    """State of the run in progress (one run at a time per worker process)."""

    faults: dict = {}  # (job, phase) -> fault dict
    attempts: collections.Counter = collections.Counter()  # (job, phase) -> attempts seen
    execs: dict = {}  # job -> [ {start, end, outcome, out} ]
    events: list = []
    losses: list = []
    outputs: dict = {}  # output path -> job that wrote it (latest execution)
    barriers: dict = {}
    holds: dict = {}  # job -> [Event]: the job waits inside its command until all are set
    passed: dict = {}  # (job, phase) of a fault -> Event set when that job got past its failures
    done: dict = {}  # job -> Event set at its first successful execution (for "after" gates)
    clock = 0
    volatile = None  # the volatile work directory (of the first deployment)
    roots: dict = {}  # deployment name -> volatile work directory
    step_site: dict = {}  # step name -> deployment name (steps not listed run on DEPLOYMENT)
    durations = None  # random.Random for job durations (yields)
    max_yield = 3
    avail: list = []  # (t, path, result) observed FileToken availability probes
    recover_calls: dict = {}  # job -> [ {start, end, outcome} ]
    executors: list = []  # [ {wf, start, end, outcome} ]
    wf_objs: dict = {}
    wf_keys: dict = {}
    wf_refs: list = []
    syncs: list = []  # decisions of _synchronize_workflows: {t, failed, wfkey, recovering: {job: bool}}

    @classmethod
    def reset(cls, faults=(), volatile=None, durations=None, max_yield=3, roots=None, step_site=None):
        cls.roots = dict(roots or {DEPLOYMENT: volatile})
        cls.step_site = dict(step_site or {})
        cls.faults = {}
        for f in faults:
            cls.faults[(f["job"], f["phase"])] = dict(f)
        cls.attempts = collections.Counter()
        cls.execs = {}
        cls.events = []
        cls.losses = []
        cls.outputs = {}
        cls.barriers = {}
        cls.holds = {}
        cls.passed = {}
        cls.done = {}
        for f in faults:
            ev = asyncio.Event()
            cls.passed[(f["job"], f["phase"])] = ev
            for j in f.get("hold", ()):
                cls.holds.setdefault(j, []).append(ev)
            for j in f.get("after", ()):
                cls.done.setdefault(j, asyncio.Event())
        groups = collections.Counter(f["barrier"] for f in faults if f.get("barrier") is not None)
        for g, n in groups.items():
            cls.barriers[g] = Barrier(n)
        cls.clock = 0
        cls.volatile = volatile
        cls.durations = durations
        cls.max_yield = max_yield
        cls.avail = []
        cls.recover_calls = {}
        cls.executors = []
        cls.wf_objs = {}
        cls.wf_keys = {}
        cls.wf_refs = []
        cls.syncs = []

    @classmethod
    def tick(cls) -> int:
        cls.clock += 1
        Sched.events += 1
        return cls.clock

    @classmethod
    def ev(cls, _ev, **kw) -> dict:
        e = dict(t=cls.tick(), ev=_ev, **kw)
        cls.events.append(e)
        return e

    @classmethod
    def root_of(cls, job) -> str:
        """Volatile work directory of the deployment `job` runs on."""
        step = job.name.rsplit("/", 1)[0]
        return cls.roots.get(cls.step_site.get(step, DEPLOYMENT), cls.volatile)

    @classmethod
    def wfkey(cls, wf) -> int:
        """Small stable number of a Workflow object of this run (1 = the original workflow)."""
        k = cls.wf_keys.get(id(wf))
        if k is None:
            k = cls.wf_keys[id(wf)] = len(cls.wf_keys) + 1
            cls.wf_refs.append(wf)  # keep alive: id() must stay unique during the run
        return k

    @classmethod
    def exec_count(cls, job) -> int:
        return len(cls.execs.get(job, ()))


def _existing_files(root: str) -> list[str]:
    out = []
    for d, _, files in os.walk(root):
        for f in files:
            out.append(os.path.join(d, f))
    return sorted(out)


async def _inject(job: Job, phase: str, context) -> bool:
    """Called at the failure point of `phase` for `job`.  Returns True when this attempt must
    fail (after applying the fault's data loss)."""
    key = (job.name, phase)
    H.attempts[key] += 1
    attempt = H.attempts[key]
    fault = H.faults.get(key)
    if fault is not None and attempt > fault["count"] and key in H.passed:
        H.passed[key].set()  # the faulty job got past its failures: release the jobs it holds
    if fault is None or attempt > fault["count"]:
        return False
    if fault.get("after") and attempt == 1:
        for j in fault["after"]:
            await H.done[j].wait()
        H.ev("after_gate_open", job=job.name, after=list(fault["after"]))
    if fault.get("barrier") is not None and attempt == 1:
        b = H.barriers[fault["barrier"]]
        b.arrived.append(job.name)
        H.ev("barrier_arrive", job=job.name, n=len(b.arrived))
        if len(b.arrived) >= b.need:
            b.event.set()
        else:
            await b.event.wait()
    kind = fault["kind"]
    if kind == "own":
        dirs = [d for d in (job.input_directory, job.output_directory, job.tmp_directory) if d]
        _delete(dirs, job.name, phase, kind, attempt)
    elif kind == "all":
        _delete([H.root_of(job)], job.name, phase, kind, attempt)
    H.ev("fault", job=job.name, phase=phase, kind=kind, attempt=attempt)
    return True


def _delete(dirs, job, phase, kind, attempt):
    for d in dirs:
        # never delete anything but (a sub directory of) the volatile work directory
        roots = [r for r in H.roots.values() if os.path.basename(r) == VOLATILE_DIRNAME]
        if not any(d == r or d.startswith(r + os.sep) for r in roots):
            raise RuntimeError(f"harness: refusing to delete {d} (outside {roots})")
        files = _existing_files(d) if os.path.isdir(d) else []
        producers = sorted({H.outputs[f] for f in files if f in H.outputs})
        shutil.rmtree(d, ignore_errors=True)
        rec = dict(t=H.tick(), by=job, phase=phase, kind=kind, attempt=attempt, dir=d,
                   files=files, producers=producers)
        H.losses.append(rec)
        H.events.append(dict(t=rec["t"], ev="loss", by=job, kind=kind, producers=producers,
                             nfiles=len(files)))


# --------------------------------------------------------------------------------------------
# engine plug-ins (modelled on tests/utils/workflow.py)
# --------------------------------------------------------------------------------------------
class VfFileToken(FileToken):
    async def get_paths(self, context) -> MutableSequence[str]:
        return [self.value]


async def _register_path(context, connector, location, path: str, relpath: str):
    p = StreamFlowPath(path, context=context, location=location)
    if real_path := await p.resolve():
        if real_path != p:
            if data_locations := context.data_manager.get_data_locations(
                path=str(real_path), deployment=connector.deployment_name
            ):
                data_location = next(iter(data_locations))
            else:
                data_location = context.data_manager.register_path(
                    location=location, path=str(real_path), relpath=os.path.basename(str(real_path))
                )
            link_location = context.data_manager.register_path(
                location=location, path=str(p), relpath=relpath, data_type=DataType.SYMBOLIC_LINK
            )
            context.data_manager.register_relation(data_location, link_location)
            return data_location
        return context.data_manager.register_path(
            location=location, path=str(p), relpath=relpath, data_type=DataType.PRIMARY
        )
    return None


async def build_token(job: Job, value: Any, context, recoverable: bool) -> Token:
    tag = get_tag(job.inputs.values())
    if isinstance(value, list):
        return ListToken(tag=tag, value=[await build_token(job, v, context, recoverable) for v in value])
    if isinstance(value, dict) and value.get("class") == "File":
        connector = context.scheduler.get_connector(job.name)
        locations = context.scheduler.get_locations(job.name)
        relpath = (
            os.path.relpath(value["path"], job.output_directory)
            if job.output_directory and value["path"].startswith(job.output_directory)
            else os.path.basename(value["path"])
        )
        await _register_path(context, connector, next(iter(locations)), value["path"], relpath)
        return VfFileToken(tag=tag, value=value["path"], recoverable=recoverable)
    return Token(tag=tag, value=value, recoverable=recoverable)


class VfInjectorStep(InputInjectorStep):
    async def process_input(self, job: Job, token_value: Any) -> Token:
        return await build_token(job, token_value, self.workflow.context, recoverable=True)


class VfOutputProcessor(DefaultCommandOutputProcessor):
    async def process(self, job, command_output, connector=None, recoverable=False):
        context = self.workflow.context
        value = (await command_output).value
        for v in value if isinstance(value, list) else [value]:
            if isinstance(v, dict) and v.get("class") == "File" and not os.path.isfile(v["path"]):
                raise WorkflowExecutionException(f"Job {job.name} output does not exist: File {v['path']}")
        return await build_token(job, value, context, recoverable)


def _render(token: Token) -> str:
    """Content of an input as the commands see it.  Raises FileNotFoundError when a file is gone."""
    if isinstance(token, ListToken):
        return "|".join(_render(t) for t in token.value)
    if isinstance(token, FileToken):
        with open(token.value) as f:
            return f.read()
    if token.value is None:
        return "~"
    return str(token.value)


class VfFailCommand(Command):
    """op = "pipe" (one output file per input element: `name@tag#i(x)`, or `name@tag(x)` for a
    single file), "concat" (one file `name@tag(x0|x1|..)` from all inputs rendered in port order,
    joined with ';'), "inc" (integer + 1)."""

    def __init__(self, step, op: str = "pipe", label: str = "", pop: bool = False):
        super().__init__(step)
        self.op = op
        self.label = label
        self.pop = pop

    async def _save_additional_params(self, database: Database) -> MutableMapping[str, Any]:
        return cast(dict, await super()._save_additional_params(database)) | {"op": self.op, "label": self.label, "pop": self.pop}

    @classmethod
    async def _load(cls, row, loading_context: DatabaseLoadingContext, step):
        return cls(step=step, op=row["op"], label=row["label"], pop=bool(row.get("pop")))

    def _write(self, job: Job, name: str, content: str) -> dict:
        os.makedirs(job.output_directory, exist_ok=True)
        path = os.path.join(job.output_directory, name)
        with open(path, "w") as f:
            f.write(content)
        H.outputs[path] = job.name
        return {"class": "File", "path": path}

    async def execute(self, job: Job) -> CommandOutput:
        rec = dict(start=H.tick(), end=None, outcome=None, out=None, n=H.exec_count(job.name) + 1,
                   wfkey=H.wfkey(self.step.workflow),
                   in_tag=get_tag(job.inputs.values()) if job.inputs else None)
        H.execs.setdefault(job.name, []).append(rec)
        H.events.append(dict(t=rec["start"], ev="exec_start", job=job.name, n=rec["n"]))
        if job.name in H.holds and not all(e.is_set() for e in H.holds[job.name]):
            H.ev("held", job=job.name)
            for e in H.holds[job.name]:
                await e.wait()  # RUNNING until the faulty sibling passes (or the engine cancels us)
            H.ev("released", job=job.name)
        Sched.inflight += 1
        try:
            # a job takes a seeded number of loop turns (completion orders vary with the seed)
            if H.durations is not None:
                for _ in range(H.durations.randrange(0, H.max_yield + 1)):
                    await asyncio.sleep(0)
            await Sched.jitter()
        finally:
            Sched.inflight -= 1
        context = self.step.workflow.context
        if await _inject(job, "execute", context):
            rec["outcome"] = "injected"
            out = CommandOutput("Injected failure", Status.FAILED)
        else:
            tag = get_job_tag(job.name)
            try:
                if self.op == "inc":
                    value = int(next(iter(job.inputs.values())).value) + 1
                elif self.op == "pipe":
                    token = next(iter(job.inputs.values()))
                    if isinstance(token, ListToken):
                        value = [
                            self._write(job, f"{self.label}.{tag}.{i}.out", f"{self.label}@{tag}#{i}({_render(t)})")
                            for i, t in enumerate(token.value)
                        ]
                    else:
                        value = self._write(job, f"{self.label}.{tag}.out", f"{self.label}@{tag}({_render(token)})")
                elif self.op == "concat":
                    value = self._write(
                        job, f"{self.label}.{tag}.out", f"{self.label}@{tag}(" + ";".join(_render(job.inputs[k]) for k in sorted(job.inputs)) + ")"
                    )
                else:
                    raise NotImplementedError(self.op)
                rec["outcome"] = "ok"
                if job.name in H.done:
                    H.done[job.name].set()
                rec["out"] = value if self.op == "inc" else [v["path"] for v in (value if isinstance(value, list) else [value])]
                # with pop processors the command returns an object keyed by output port name
                out = CommandOutput({k: value for k in self.step.output_ports} if self.pop else value, Status.COMPLETED)
            except OSError as e:  # an input vanished (somebody's fail-stop): a genuine job failure
                rec["outcome"] = "genuine"
                out = CommandOutput(f"{type(e).__name__}: {e}", Status.FAILED)
        rec["end"] = H.tick()
        H.events.append(dict(t=rec["end"], ev="exec_end", job=job.name, n=rec["n"], outcome=rec["outcome"]))
        return out


class VfFailScheduleStep(ScheduleStep):
    async def _set_job_directories(self, connector, locations, job: Job) -> None:
        if await _inject(job, "schedule", self.workflow.context):
            raise WorkflowExecutionException(f"Injected error into {self.name} step")
        await super()._set_job_directories(connector, locations, job)


class VfFailTransferStep(TransferStep):
    async def _transfer_path(self, job: Job, path: str) -> str:
        context = self.workflow.context
        dst_connector = context.scheduler.get_connector(job.name)
        dst_locations = context.scheduler.get_locations(job.name)
        dst_path_processor = get_path_processor(dst_locations[0])
        if source_location := await context.data_manager.get_source_location(
            path=path, dst_deployment=dst_connector.deployment_name
        ):
            dst_path = dst_path_processor.join(job.input_directory, source_location.relpath)
            try:
                await context.data_manager.transfer_data(
                    src_location=source_location.location,
                    src_path=source_location.path,
                    dst_locations=dst_locations,
                    dst_path=dst_path,
                    writable=True,  # a copy, never a link into the producer's directory
                )
            except WorkflowExecutionException as err:
                raise WorkflowExecutionException(f"Job {job.name} failed transfer: {err}")
            if source_location.deployment != dst_connector.deployment_name:
                # a copy on another deployment is a replica of the same data: transfer_data records this relation
                # for read-only copies between deployments (local connectors would symlink those, hence the
                # writable copy above plus the explicit relation)
                dm = context.data_manager
                dst = [loc for loc in dm.get_data_locations(dst_path, data_type=DataType.PRIMARY) if loc.path == dst_path]
                if dst:
                    dm.register_relation(source_location, dst[0])
        else:
            raise WorkflowExecutionException(f"Job {job.name} input does not exist: File {path}")
        return dst_path

    async def _transfer(self, job: Job, token: Token) -> Token:
        if isinstance(token, ListToken):
            return token.update(value=[await self._transfer(job, t) for t in token.value])
        if isinstance(token, FileToken):
            token = token.update(await self._transfer_path(job, token.value))
            token.recoverable = False
            return token
        token = token.update(token.value)
        token.recoverable = False
        return token

    async def transfer(self, job: Job, token: Token) -> Token:
        # a two-input job (diamond join) has two transfer steps, `l` and `r`: the fault of the
        # (job, transfer) pair belongs to the first one only, so that attempts are well defined
        if not self.name.endswith("/__transfer__/r"):
            if await _inject(job, "transfer", self.workflow.context):
                raise WorkflowExecutionException(f"Injected error into {self.name} step")
        return await self._transfer(job, token)


class VfLoopWhen(ConditionalStep):
    """Loop condition `counter < limit` (BaseLoopConditionalStep of the test-suite without eval)."""

    def __init__(self, name: str, workflow: Workflow):
        super().__init__(name, workflow)
        self.skip_ports: MutableMapping[str, str] = {}

    async def _eval(self, inputs: MutableMapping[str, Token]) -> bool:
        return inputs["counter"].value < inputs["limit"].value

    async def _on_true(self, inputs: MutableMapping[str, Token]) -> None:
        for port_name, port in self.get_output_ports().items():
            port.put(
                await self._persist_token(
                    token=inputs[port_name].update(inputs[port_name].value),
                    port=port,
                    input_token_ids=get_entity_ids(inputs.values()),
                )
            )

    async def _on_false(self, inputs: MutableMapping[str, Token]) -> None:
        for port in self.get_skip_ports().values():
            port.put(IterationTerminationToken(tag=get_tag(inputs.values())))

    async def _save_additional_params(self, database: Database) -> MutableMapping[str, Any]:
        return cast(dict, await super()._save_additional_params(database)) | {
            "skip_ports": {k: p.persistent_id for k, p in self.get_skip_ports().items()}
        }

    @classmethod
    async def _load(cls, row, loading_context: DatabaseLoadingContext):
        step = cls(name=row["name"], workflow=await loading_context.load_workflow(row["workflow"]))
        for k, pid in row["params"]["skip_ports"].items():
            step.add_skip_port(k, await loading_context.load_port(pid))
        return step

    def add_skip_port(self, name: str, port: Port) -> None:
        if port.name not in self.workflow.ports:
            self.workflow.ports[port.name] = port
        self.skip_ports[name] = port.name

    def get_skip_ports(self) -> MutableMapping[str, Port]:
        return {k: self.workflow.ports[v] for k, v in self.skip_ports.items()}


class VfLoopOutputLast(LoopOutputStep):
    async def _process_output(self, tag: str) -> Token:
        return sorted(
            self.token_map.get(tag, [Token(value=None)]), key=lambda t: int(t.tag.split(".")[-1])
        )[-1].retag(tag=tag)


# --------------------------------------------------------------------------------------------
# hooks (installed once per process): recover() calls and executors, availability probes
# --------------------------------------------------------------------------------------------
_hooked = False


def install_hooks():
    global _hooked
    if _hooked:
        return
    _hooked = True
    from streamflow.recovery.failure_manager import RollbackFailureManager
    import streamflow.workflow.token as wtoken

    orig_recover = RollbackFailureManager.recover

    async def recover(self, job, step, exception):
        rec = dict(start=H.tick(), end=None, outcome=None, step=step.name, exc=type(exception).__name__,
                   wfkey=H.wfkey(step.workflow))
        H.recover_calls.setdefault(job.name, []).append(rec)
        H.events.append(dict(t=rec["start"], ev="recover_start", job=job.name, step=step.name, wfkey=rec["wfkey"]))
        try:
            r = await orig_recover(self, job, step, exception)
            rec["outcome"] = "ok"
            return r
        except BaseException as e:
            rec["outcome"] = type(e).__name__
            rec["msg"] = str(e)[:200]
            raise
        finally:
            rec["end"] = H.tick()
            H.events.append(dict(t=rec["end"], ev="recover_end", job=job.name, outcome=rec["outcome"],
                                 msg=rec.get("msg")))

    RollbackFailureManager.recover = recover

    orig_run = StreamFlowExecutor.run

    async def run(self):
        rec = dict(wf=self.workflow.persistent_id, wfkey=H.wfkey(self.workflow), start=H.tick(), end=None,
                   outcome=None, steps=sorted(self.workflow.steps))
        H.executors.append(rec)
        H.wf_objs[rec["wf"]] = self.workflow
        H.events.append(dict(t=rec["start"], ev="executor_start", wf=rec["wf"]))
        try:
            r = await orig_run(self)
            rec["outcome"] = "ok"
            return r
        except BaseException as e:
            rec["outcome"] = type(e).__name__
            raise
        finally:
            rec["end"] = H.tick()
            H.events.append(dict(t=rec["end"], ev="executor_end", wf=rec["wf"], outcome=rec["outcome"]))

    StreamFlowExecutor.run = run

    orig_run_job = ExecuteStep._run_job

    async def _run_job(self, job, inputs, connectors):
        status = await orig_run_job(self, job, inputs, connectors)
        key = (job.name, "execute")
        if status == Status.FAILED and key in H.passed and not H.passed[key].is_set():
            # The faulty job failed for good.  The step cancels the siblings it knows of within a few loop
            # turns; siblings whose tasks are created later are not cancelled by the engine and would, as
            # real jobs do, simply finish: release the held ones after a grace of 50 loop turns.
            ev = H.passed[key]

            async def release():
                Sched.inflight += 1
                try:
                    for _ in range(50):
                        await asyncio.sleep(0)
                finally:
                    Sched.inflight -= 1
                H.ev("hold_released_after_definitive_failure", job=job.name)
                ev.set()

            H.wf_refs.append(asyncio.ensure_future(release()))
        return status

    ExecuteStep._run_job = _run_job

    orig_sync = RollbackFailureManager._synchronize_workflows

    async def _synchronize_workflows(self, failed_job, job_tokens, mapper, retry_requests, workflow):
        rec = dict(t=H.tick(), failed=failed_job, wfkey=H.wfkey(workflow), recovering={})
        for rr in retry_requests:
            try:
                rec["recovering"][rr.name] = bool(await self.is_recovering(rr.name))
            except Exception:
                rec["recovering"][rr.name] = None
        H.syncs.append(rec)
        H.events.append(dict(t=rec["t"], ev="sync", failed=failed_job, wfkey=rec["wfkey"],
                             recovering=dict(rec["recovering"])))
        return await orig_sync(self, failed_job=failed_job, job_tokens=job_tokens, mapper=mapper,
                               retry_requests=retry_requests, workflow=workflow)

    RollbackFailureManager._synchronize_workflows = _synchronize_workflows

    orig_avail = wtoken._is_path_available

    async def _is_path_available(context, data_location):
        r = await orig_avail(context, data_location)
        H.avail.append((H.clock, data_location.path, bool(r), os.path.exists(data_location.path)))
        return r

    wtoken._is_path_available = _is_path_available


# --------------------------------------------------------------------------------------------
# programs: generation helpers, job enumeration, denotation
# --------------------------------------------------------------------------------------------
def _ins(kind, n=0):
    return {"kind": kind, "n": n}


def denote(prog: dict):
    """Pure evaluation on plain values (str = file content, list of str, int, None)."""
    inp = prog["input"]
    val = [f"in{i}" for i in range(inp["n"])] if inp["kind"] == "list" else "in"
    return _den(prog["stages"], val, "0")


def _r(v):
    if isinstance(v, list):
        return "|".join(_r(x) for x in v)
    return "~" if v is None else str(v)


def _den(stages, val, tag):
    for st in stages:
        op, name = st["op"], st["name"]
        if op == "pipe":
            if isinstance(val, list):
                val = [f"{name}@{tag}#{i}({_r(x)})" for i, x in enumerate(val)]
            else:
                val = f"{name}@{tag}({_r(val)})"
        elif op == "concat":
            val = f"{name}@{tag}({_r(val)})"
        elif op == "scatter":
            val = [_den(st["body"], x, f"{tag}.{i}") for i, x in enumerate(val)]
        elif op == "loop":
            if st["iters"] == 0:
                val = None
            for j in range(st["iters"]):
                val = _den(st["body"], val, f"{tag}.{j}")
        elif op == "diamond":
            left = _den(st["left"], val, tag)
            right = _den(st["right"], val, tag)
            val = f"{name}@{tag}({_r(left)};{_r(right)})"
        else:
            raise ValueError(op)
    return val


def jobs_of(prog: dict) -> list[dict]:
    """Every job of the failure-free run: name, step, tag, depends-on (direct data producers)."""
    out: list[dict] = []
    n = prog["input"]["n"] if prog["input"]["kind"] == "list" else None
    _jobs(prog["stages"], "0", n, [], out)
    return out


def _jobs(stages, tag, width, prods, out):
    """`prods` = names of the jobs that produced the current value (direct producers)."""
    for st in stages:
        op, name = st["op"], st["name"]
        if op in ("pipe", "concat"):
            j = f"/{name}/{tag}"
            out.append({"job": j, "step": f"/{name}", "tag": tag, "deps": list(prods), "op": op})
            prods = [j]
            if op == "concat":
                width = None
        elif op == "scatter":
            ends = []
            for i in range(width):
                ends += _jobs(st["body"], f"{tag}.{i}", None, list(prods), out)[0]
            prods = ends
        elif op == "loop":
            cur = list(prods)
            inc_prev: list[str] = []
            for j in range(st["iters"]):
                t = f"{tag}.{j}"
                inc = f"/{name}-inc/{t}"
                out.append({"job": inc, "step": f"/{name}-inc", "tag": t, "deps": list(inc_prev), "op": "inc"})
                inc_prev = [inc]
                cur, _ = _jobs(st["body"], t, width, cur, out)
            prods = cur if st["iters"] else []
        elif op == "diamond":
            left, _ = _jobs(st["left"], tag, width, list(prods), out)
            right, _ = _jobs(st["right"], tag, width, list(prods), out)
            j = f"/{name}/{tag}"
            out.append({"job": j, "step": f"/{name}", "tag": tag, "deps": left + right, "op": "concat"})
            prods = [j]
            width = None
    return prods, width


def ancestors(jobs: list[dict]) -> dict[str, set]:
    deps = {j["job"]: set(j["deps"]) for j in jobs}
    anc: dict[str, set] = {}

    def go(j):
        if j in anc:
            return anc[j]
        anc[j] = set()
        for d in deps.get(j, ()):
            anc[j] |= {d} | go(d)
        return anc[j]

    for j in deps:
        go(j)
    return anc


# --------------------------------------------------------------------------------------------
# building the real workflow
# --------------------------------------------------------------------------------------------
class Builder:
    def __init__(self, context, workflow: Workflow, dep: DeploymentConfig, inputs_dir: str, deps=None, sites=None,
                 pop: bool = False):
        self.context = context
        self.wf = workflow
        self.dep = dep
        self.deps = dict(deps or {dep.name: dep})
        self.sites = dict(sites or {})  # step name -> deployment name
        self.pop = pop
        self.inputs_dir = inputs_dir
        self.deploys = {
            n: workflow.create_step(cls=DeployStep, name=posixpath.join("__deploy__", n), deployment_config=d)
            for n, d in self.deps.items()
        }
        self.deploy = self.deploys[dep.name]

    def _schedule(self, cls, step_name: str) -> ScheduleStep:
        dep = self.deps[self.sites.get(step_name, self.dep.name)]
        return self.wf.create_step(
            cls=cls,
            name=posixpath.join(step_name, "__schedule__"),
            job_prefix=step_name,
            connector_ports={dep.name: self.deploys[dep.name].get_output_port()},
            binding_config=BindingConfig(targets=[Target(deployment=dep)]),
            hardware_requirement=None,
        )

    def inject(self, name: str, value: Any) -> Port:
        step_name = f"/{name}-injector"
        sched = self._schedule(ScheduleStep, step_name)
        step = self.wf.create_step(cls=VfInjectorStep, name=step_name, job_port=sched.get_output_port())
        step.add_input_port(name, self.wf.create_port())
        step.add_output_port(name, self.wf.create_port())
        step.get_input_port(name).put(Token(value, recoverable=True))
        step.get_input_port(name).put(TerminationToken())
        self.wf.input_ports[name] = step.get_input_port(name)
        return step.get_output_port(name)

    def execute(self, name: str, op: str, inputs: MutableMapping[str, Port], out: str = "out") -> Port:
        step_name = f"/{name}"
        sched = self._schedule(VfFailScheduleStep, step_name)
        ex = self.wf.create_step(ExecuteStep, name=step_name, job_port=sched.get_output_port())
        ex.command = VfFailCommand(ex, op=op, label=name, pop=self.pop)
        for key, port in inputs.items():
            sched.add_input_port(key, port)
            tr = self.wf.create_step(
                cls=VfFailTransferStep,
                name=posixpath.join(step_name, "__transfer__", key),
                job_port=sched.get_output_port(),
            )
            tr.add_input_port(key, port)
            tr.add_output_port(key, self.wf.create_port())
            ex.add_input_port(key, tr.get_output_port(key))
        proc = VfOutputProcessor(out, self.wf)
        if self.pop:
            proc = PopCommandOutputProcessor(out, self.wf, processor=proc)
        ex.add_output_port(out, self.wf.create_port(), proc)
        return ex.get_output_port(out)

    def input_file(self, name: str, content: str) -> dict:
        os.makedirs(self.inputs_dir, exist_ok=True)
        path = os.path.join(self.inputs_dir, name)
        with open(path, "w") as f:
            f.write(content)
        return {"class": "File", "path": path}

    # ---- stages ----
    def stages(self, stages, port: Port, key: str) -> Port:
        for st in stages:
            op, name = st["op"], st["name"]
            if op in ("pipe", "concat"):
                port = self.execute(name, op, {key: port})
            elif op == "scatter":
                sc = self.wf.create_step(cls=ScatterStep, name=f"/{name}-scatter")
                sc.add_input_port(key, port)
                sc.add_output_port(key, self.wf.create_port())
                inner = self.stages(st["body"], sc.get_output_port(key), key)
                g = self.wf.create_step(cls=GatherStep, name=f"/{name}-gather", size_port=sc.get_size_port())
                g.add_input_port(key, inner)
                g.add_output_port(key, self.wf.create_port())
                port = g.get_output_port(key)
            elif op == "diamond":
                left = self.stages(st["left"], port, key)
                right = self.stages(st["right"], port, key)
                port = self.execute(name, "concat", {"l": left, "r": right})
            elif op == "loop":
                port = self.loop(st, port)
            else:
                raise ValueError(op)
        return port

    def loop(self, st, port: Port) -> Port:
        """Wired exactly like RecoveryTranslator.get_input_loop/get_output_loop in test_recovery.test_loop."""
        name = st["name"]
        step_name = f"/{name}"
        wf = self.wf
        input_ports = {
            "x": port,
            "counter": self.inject(f"{name}-counter", 0),
            "limit": self.inject(f"{name}-limit", st["iters"]),
        }
        comb = LoopCombinator(workflow=wf, name=step_name + "-loop-combinator")
        forward = {}
        for pn, p in input_ports.items():
            fw = wf.create_step(cls=ForwardTransformer, name=posixpath.join(step_name, pn) + "-input-forward-transformer")
            fw.add_input_port(pn, p)
            forward[pn] = wf.create_port()
            fw.add_output_port(pn, forward[pn])
            comb.add_item(pn)
        comb_step = wf.create_step(cls=LoopCombinatorStep, name=step_name + "-loop-combinator", combinator=comb)
        for pn, p in forward.items():
            comb_step.add_input_port(pn, p)
            comb_step.add_output_port(pn, wf.create_port())
        when = wf.create_step(cls=VfLoopWhen, name=step_name + "-loop-when")
        loop_in = {}
        for pn in input_ports:
            when.add_input_port(pn, comb_step.get_output_port(pn))
            loop_in[pn] = wf.create_port()
            when.add_output_port(pn, loop_in[pn])
        # body
        counter = self.execute(f"{name}-inc", "inc", {"counter": loop_in["counter"]}, out="counter")
        body_out = self.stages(st["body"], loop_in["x"], "x")
        loop_ports = {"x": body_out, "counter": counter, "limit": loop_in["limit"]}
        # output side
        internal = dict(loop_ports)
        term_comb = LoopTerminationCombinator(workflow=wf, name=step_name + "-loop-termination-combinator")
        term_step = wf.create_step(cls=CombinatorStep, name=step_name + "-loop-terminator", combinator=term_comb)
        for pn, p in comb_step.get_input_ports().items():
            term_step.add_output_port(pn, p)
            term_comb.add_output_item(pn)
        fw = wf.create_step(cls=ForwardTransformer, name=posixpath.join(step_name, "x") + "-output-forward-transformer")
        fw.add_input_port("x", loop_ports["x"])
        fw.add_output_port("x", wf.create_port())
        internal["x"] = fw.get_output_port("x")
        lo = wf.create_step(cls=VfLoopOutputLast, name=posixpath.join(step_name, "x") + "-loop-output")
        lo.add_input_port("x", fw.get_output_port())
        when.add_skip_port("x", fw.get_output_port())
        lo.add_output_port("x", wf.create_port())
        term_step.add_input_port("x", lo.get_output_port("x"))
        term_comb.add_item("x")
        for pn in loop_ports:
            bp = wf.create_step(cls=ForwardTransformer, name=posixpath.join(step_name, pn) + "-back-propagation-transformer")
            bp.add_input_port(pn, internal[pn])
            bp.add_output_port(pn, comb_step.get_input_port(pn))
        return lo.get_output_port("x")


async def build(context, prog: dict, case_dir: str):
    """Returns (workflow, output_port).  `case_dir` holds inputs/ and the volatile work directory."""
    case_dir = os.path.realpath(case_dir)
    vol = os.path.join(case_dir, "vol", VOLATILE_DIRNAME)
    os.makedirs(vol, exist_ok=True)
    dep = DeploymentConfig(name=DEPLOYMENT, type="local", config={}, external=True, lazy=False, workdir=vol)
    await context.deployment_manager.deploy(dep)
    deps, roots = {dep.name: dep}, {dep.name: vol}
    sites = {f"/{k}": DEPLOYMENT + "-" + v for k, v in (prog.get("sites") or {}).items()}
    for name in sorted(set(sites.values())):
        root = os.path.join(case_dir, "vol-" + name.rsplit("-", 1)[1], VOLATILE_DIRNAME)
        os.makedirs(root, exist_ok=True)
        deps[name] = DeploymentConfig(name=name, type="local", config={}, external=True, lazy=False, workdir=root)
        roots[name] = root
        await context.deployment_manager.deploy(deps[name])
    wf = CWLWorkflow(context=context, name=sf_utils.random_name(), config={}, cwl_version="v1.2")
    await wf.save(context.database)
    b = Builder(context, wf, dep, os.path.join(case_dir, "inputs"), deps=deps, sites=sites, pop=bool(prog.get("pop")))
    build.roots, build.step_site = roots, sites
    inp = prog["input"]
    if inp["kind"] == "list":
        value = [b.input_file(f"in{i}", f"in{i}") for i in range(inp["n"])]
    else:
        value = b.input_file("in", "in")
    port = b.inject("in", value)
    out = b.stages(prog["stages"], port, "x")
    await wf.save(context.database)
    return wf, out, vol


def token_content(token: Token):
    """Observed value of a workflow output: file contents (str), list of, plain value."""
    if isinstance(token, ListToken):
        return [token_content(t) for t in token.value]
    if isinstance(token, FileToken):
        try:
            with open(token.value) as f:
                return f.read()
        except OSError as e:
            return {"missing": token.value, "err": type(e).__name__}
    return token.value


def sha1_of(v) -> Any:
    if isinstance(v, list):
        return [sha1_of(x) for x in v]
    if isinstance(v, str):
        return hashlib.sha1(v.encode()).hexdigest()
    return v


def hung_state() -> list:
    """For every executor that has not returned: steps not terminated and what their input ports hold."""
    out = []
    for rec in H.executors:
        if rec["end"] is not None:
            continue
        wf = H.wf_objs.get(rec["wf"])
        if wf is None:
            continue
        steps = {}
        for name, st in wf.steps.items():
            if st.terminated:
                continue
            ports = {}
            for pn, port in st.get_input_ports().items():
                ports[pn] = {
                    "port": port.name[:8], "cls": type(port).__name__,
                    "tokens": [(type(t).__name__, t.tag if not isinstance(t, TerminationToken) else t.value.name)
                               for t in port.token_list][:12],
                    "boundaries": [(b.action.name if b.action.name else str(b.action), list(b.tags),
                                    getattr(b.port.workflow, "persistent_id", None))
                                   for b in getattr(port, "boundaries", [])],
                }
            steps[name] = ports
        out.append({"wf": rec["wf"], "open_steps": steps})
    return out


class RunResult:
    def __init__(self):
        self.hung = None
        self.open_recover = None
        self.syncs = []
        self.main_wf = None
        self.status = None  # "ok" | "raised" | "deadlock" | "walltimeout"
        self.exc = None
        self.exc_msg = None
        self.outputs = None  # list of observed output values (tokens before the termination token)
        self.n_tokens = None
        self.step_status = {}
        self.execs = {}
        self.attempts = {}
        self.losses = []
        self.events = []
        self.recover_calls = {}
        self.executors = []
        self.versions = {}
        self.stacks = None
        self.db_execs = None
        self.avail = []
        self.barrier_open = {}
        self.pending_after = 0

    def exec_counts(self):
        return {j: len(v) for j, v in self.execs.items()}


async def run_program(prog: dict, faults: list, case_dir: str, seed: int, failure_manager="default",
                      max_retries: int | None = 40, K: int = 3, max_yield: int = 3,
                      wall_timeout: float = 60.0, perturb: bool = True) -> RunResult:
    """One execution of `prog` on the real engine with `faults` injected, under perturbation
    seed `seed`.  failure_manager: "default" (RollbackFailureManager) or "dummy"."""
    import random

    from vf import perturb as P
    from vf.harness.ctx import close_context, make_context

    install_hooks()
    res = RunResult()
    shutil.rmtree(case_dir, ignore_errors=True)
    os.makedirs(case_dir, exist_ok=True)
    fm = None
    if failure_manager == "default":
        fm = {"type": "default", "config": {"max_retries": max_retries, "retry_delay": 0}}
    context = make_context(os.path.join(case_dir, "ctx"), db="vf-jitter", failure_manager=fm)
    logging.getLogger("streamflow").setLevel(logging.CRITICAL)
    try:
        Sched.reset(seed, K=K, enabled=perturb)
        wf, out_port, vol = await build(context, prog, case_dir)
        H.reset(faults, volatile=vol, durations=random.Random(seed * 7919 + 13) if perturb else None,
                max_yield=max_yield, roots=build.roots, step_site=build.step_site)
        executor = StreamFlowExecutor(wf)
        # run_quiescent takes its task census at the instant it detects quiescence (before it
        # cancels anything): take our own census of the hung recovery workflows at that instant
        orig_stacks = P._task_stacks
        snap = {}

        def stacks_and_census(limit=40):
            if "hung" not in snap:
                snap["hung"] = hung_state()
                snap["open_recover"] = {j: sum(1 for r in v if r["end"] is None) for j, v in H.recover_calls.items()}
            return orig_stacks(limit)

        P._task_stacks = stacks_and_census
        try:
            await P.run_quiescent(executor.run(), wall_timeout=wall_timeout)
            res.status = "ok"
        except P.Deadlock as e:
            res.status = "deadlock"
            res.stacks = e.stacks
            res.hung = snap.get("hung")
            res.open_recover = snap.get("open_recover")
        except P.WallTimeout as e:
            res.status = "walltimeout"
            res.stacks = str(e)[:2000]
        except Exception as e:
            res.status = "raised"
            res.exc = type(e).__name__
            res.exc_msg = str(e)[:300]
        finally:
            P._task_stacks = orig_stacks
        toks = [t for t in out_port.token_list if not isinstance(t, TerminationToken)]
        res.n_tokens = len(toks)
        res.outputs = [token_content(t) for t in toks]
        res.step_status = {n: s.status.name for n, s in wf.steps.items()}
        res.execs = {j: [dict(r) for r in v] for j, v in H.execs.items()}
        res.attempts = {f"{j}|{p}": n for (j, p), n in H.attempts.items()}
        res.losses = list(H.losses)
        res.events = list(H.events)
        res.recover_calls = {j: [dict(r) for r in v] for j, v in H.recover_calls.items()}
        res.executors = [dict(r) for r in H.executors]
        res.syncs = [dict(r) for r in H.syncs]
        res.main_wf = wf.persistent_id
        res.avail = list(H.avail)
        res.barrier_open = {g: (b.event.is_set(), list(b.arrived), b.need) for g, b in H.barriers.items()}
        if failure_manager == "default":
            res.versions = {n: r.version for n, r in context.failure_manager._retry_requests.items()}
        if res.status in ("ok", "raised"):
            await P.settle(60)
            res.pending_after = len(P.pending_engine_tasks())
    finally:
        Sched.enabled = False
        try:
            await asyncio.wait_for(close_context(context), 10)
        except Exception:
            pass
        Sched.enabled = True
        shutil.rmtree(case_dir, ignore_errors=True)
    return res


def run_sync(*a, **k) -> RunResult:
    """One run; a run stopped by the wall-clock watchdog (loaded machine) is repeated once with a
    doubled watchdog before the caller reports it as inconclusive."""
    res = asyncio.run(run_program(*a, **k))
    if res.status == "walltimeout":
        k = dict(k, wall_timeout=2 * k.get("wall_timeout", 60.0))
        res = asyncio.run(run_program(*a, **k))
        res.watchdog_retry = True
    return res
