"""C15 harness: an isolated-filesystem shell connector, the program builder and the job-port monitor.

`vf-c15-shell`  C15IsolatedShell(VfShellRemoteConnector): every location gets a PRIVATE view of the
    deployment's mount directory: each shell / command / stream of location L runs in its own mount
    namespace (`unshare -m`) where `<mount>` is a bind mount of `<roots>/<L>`.  So "the directory
    exists on location L" is decidable from the host: `<roots>/<L>/<dir relative to mount>`.  This is
    what several remote nodes with the same path layout look like.  Without `unshare` the connector
    degrades to a shared filesystem (evidence records `isolated_fs: false`).
"""
from __future__ import annotations

import asyncio
import base64
import os
import shlex
import subprocess

from streamflow.core import utils
from streamflow.deployment.connector import connector_classes
from streamflow.deployment.connector.base import (
    SubprocessStreamReaderWrapperContextManager,
    SubprocessStreamWriterWrapperContextManager,
)

from vf.harness.connectors import VfShellRemoteConnector
from vf.perturb import Sched

_NS = 'r="$1"; m="$2"; shift 2; mount --make-rprivate / && mount --bind "$r" "$m" && exec "$@"'

_unshare_ok = None


def unshare_available() -> bool:
    global _unshare_ok
    if _unshare_ok is None:
        try:
            r = subprocess.run(["unshare", "-m", "--", "sh", "-c", "mount --make-rprivate / && true"],
                               capture_output=True, timeout=20)
            _unshare_ok = r.returncode == 0
        except Exception:
            _unshare_ok = False
    return _unshare_ok


class C15IsolatedShell(VfShellRemoteConnector):
    """config: locations=[names], slots, mount=<abs dir>, roots=<abs dir holding one dir per location>,
    fail_mkdir=[location names on which every `mkdir` command fails (exit status 1, nothing created)]"""

    def __init__(self, deployment_name, config_dir, locations=None, slots=8, mount=None, roots=None,
                 fail_mkdir=None, transferBufferSize=65536):
        super().__init__(deployment_name, config_dir, locations, slots, transferBufferSize)
        self.mount = mount
        self.roots = roots
        self.fail_mkdir = set(fail_mkdir or ())
        self.injected = 0
        self.isolated = bool(mount and roots) and unshare_available()
        self.ops = []  # (location, words) harness-side record of commands
        if mount:
            os.makedirs(mount, exist_ok=True)
            for n in self.location_names:
                os.makedirs(os.path.join(roots, n), exist_ok=True)

    def host_path(self, location_name: str, path: str) -> str:
        """where `path` as seen by `location_name` lives on the host"""
        if self.isolated and (path == self.mount or path.startswith(self.mount + "/")):
            return os.path.join(self.roots, location_name) + path[len(self.mount):]
        return path

    def _ns(self, location, words):
        if not self.isolated:
            return list(words)
        return ["unshare", "-m", "--", "sh", "-c", _NS, "_", os.path.join(self.roots, location.name), self.mount] + list(words)

    async def _create_shell(self, command, location):
        Sched.inflight += 1
        try:
            return await super()._create_shell(self._ns(location, command), location)
        finally:
            Sched.inflight -= 1

    async def get_stream_reader(self, command, location):
        enc = base64.b64encode(" ".join(command).encode()).decode()
        return SubprocessStreamReaderWrapperContextManager(
            coro=asyncio.create_subprocess_exec(
                *self._ns(location, ["sh", "-c", f"eval $(echo {enc} | base64 -d)"]),
                stdin=asyncio.subprocess.DEVNULL, stdout=asyncio.subprocess.PIPE, stderr=asyncio.subprocess.PIPE))

    async def get_stream_writer(self, command, location):
        enc = base64.b64encode(" ".join(command).encode()).decode()
        return SubprocessStreamWriterWrapperContextManager(
            coro=asyncio.create_subprocess_exec(
                *self._ns(location, ["sh", "-c", f"eval $(echo {enc} | base64 -d)"]),
                stdin=asyncio.subprocess.PIPE, stdout=asyncio.subprocess.DEVNULL, stderr=asyncio.subprocess.DEVNULL))

    async def run(self, location, command, environment=None, workdir=None, stdin=None,
                  stdout=asyncio.subprocess.STDOUT, stderr=asyncio.subprocess.STDOUT,
                  capture_output=False, timeout=None, job_name=None):
        import contextlib

        from streamflow.core.exception import WorkflowExecutionException

        self.ops.append((location.name, list(command)))
        Sched.inflight += 1
        try:
            await Sched.jitter()
            if location.name in self.fail_mkdir and command and command[0] == "mkdir":
                self.injected += 1  # fault injection: the remote side refuses to create directories
                return ("mkdir: cannot create directory (vf injected fault)", 1) if capture_output else None
            if job_name is None and stdin is None:
                with contextlib.suppress(WorkflowExecutionException):
                    return await utils.run_in_shell(
                        shell=await self.get_shell(command=["sh"], location=location),
                        location=location, command=command, environment=environment,
                        workdir=workdir, capture_output=capture_output, timeout=timeout)
            cmd = utils.create_command(self.__class__.__name__, command, environment, workdir, stdin, stdout, stderr)
            return await utils.run_in_subprocess(
                location=location,
                command=[shlex.quote(w) for w in self._ns(location, ["sh", "-c", cmd])],
                capture_output=capture_output, timeout=timeout)
        finally:
            Sched.inflight -= 1


connector_classes["vf-c15-shell"] = C15IsolatedShell
