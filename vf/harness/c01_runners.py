"""C01 runners: (1) a real GatherStep fed directly with element / size / termination tokens in a
prescribed order; (2) real ScatterStep(s) -> element-wise pipeline -> real GatherStep(s) run by the
real StreamFlowExecutor under schedule perturbation.  Both return plain observations; the oracle
lives in vf/checks/c01.py."""
from __future__ import annotations

import asyncio

from streamflow.core.workflow import Token, Workflow
from streamflow.workflow.executor import StreamFlowExecutor
from streamflow.workflow.step import GatherStep, ScatterStep
from streamflow.workflow.token import ListToken, TerminationToken

from vf.harness.c01_common import (
    ExecPipelines,
    PutRecorder,
    VfShuffler,
    data_tokens,
    fn_cls,
    from_token,
    n_terminations,
    to_token,
)
from vf.perturb import Sched, run_quiescent


def observe_lists(port):
    """what the oracle sees on a gather output port"""
    out = []
    for t in port.token_list:
        if isinstance(t, TerminationToken):
            out.append({"term": t.value.name})
        elif isinstance(t, ListToken):
            out.append({"tag": t.tag, "value": from_token(t), "etags": [e.tag for e in t.value]})
        else:
            out.append({"tag": t.tag, "scalar": from_token(t), "type": type(t).__name__})
    return out


def deep_tags(t):
    """nested element tags of a ListToken tree (None for non-list leaves)"""
    if isinstance(t, ListToken):
        return [(e.tag, deep_tags(e)) for e in t.value]
    return None


# ----------------------------------------------------------------------------- direct path
async def run_direct(ctx, case, wall=60.0):
    """case = {"depth": d, "events": [[kind, ...], ...]} where an event is
         ["el", tag, value]   element token on the input port
         ["size", key, n]     size token on the size port
         ["Tin"] / ["Tsize"]  termination of the input / size port
         ["y", k]             k loop turns before the next put
    """
    wf = Workflow(context=ctx, config={}, name="c01d")
    pin, psize, pout = wf.create_port(), wf.create_port(), wf.create_port()
    g = wf.create_step(cls=GatherStep, name="/g", size_port=psize, depth=case.get("depth", 1))
    g.add_input_port("x", pin)
    g.add_output_port("x", pout)
    await wf.save(ctx.database)
    rec = PutRecorder()
    rec.watch(pout, "out")

    async def feed_and_run():
        run = asyncio.create_task(g.run())
        for ev in case["events"]:
            k = ev[0]
            if k == "el":
                t = to_token(ev[2], ev[1])
                await t.save(ctx.database, pin.persistent_id)
                pin.put(t)
            elif k == "size":
                t = Token(value=ev[2], tag=ev[1], recoverable=True)
                await t.save(ctx.database, psize.persistent_id)
                psize.put(t)
            elif k == "Tin":
                pin.put(TerminationToken())
            elif k == "Tsize":
                psize.put(TerminationToken())
            elif k == "y":
                for _ in range(ev[1]):
                    await asyncio.sleep(0)
            Sched.events += 1
        await run

    await run_quiescent(feed_and_run(), wall_timeout=wall)
    return {"out": observe_lists(pout), "status": g.status.name, "terminated": g.terminated,
            "deep": [deep_tags(t) for t in data_tokens(pout)]}


# ----------------------------------------------------------------------------- engine path
def build_engine(ctx, case, workdir):
    """case = {"depth": d (1..3), "roots": {tag: nested list}, "stages": [[kind, fname], ...],
               "mids": [fname|None per gather level, innermost first]}
    Graph:  src -S1-> ... -Sd-> stage_1 .. stage_k -Gd-> mid -> ... -G1-> out
    """
    wf = Workflow(context=ctx, config={}, name="c01e")
    d = case["depth"]
    src = wf.create_port()
    cur = src
    size_ports = []
    rec = PutRecorder()
    for lvl in range(d):
        st = wf.create_step(cls=ScatterStep, name=f"/s{lvl}-scatter")
        st.add_input_port("a", cur)
        cur = wf.create_port()
        st.add_output_port("a", cur)
        size_ports.append(st.get_size_port())
    pipes = ExecPipelines(wf, workdir)
    for i, (kind, fname) in enumerate(case["stages"]):
        nxt = wf.create_port()
        if kind == "fn":
            st = wf.create_step(cls=fn_cls(fname, 6), name=f"/e{i}")
            st.add_input_port("a", cur)
            st.add_output_port("o", nxt)
        elif kind == "shuf":
            st = wf.create_step(cls=VfShuffler, name=f"/e{i}", window=int(fname))
            st.add_input_port("a", cur)
            st.add_output_port("o", nxt)
        else:
            pipes.add(f"/e{i}", cur, nxt, fname, 12)
        cur = nxt
    gather_inputs = []
    if case.get("size_delay"):
        # the size token takes its own (slow) route to the innermost gather, as it does through the
        # translator's size transformers: it can now arrive after any number of elements
        delayed = wf.create_port()
        st = wf.create_step(cls=fn_cls("id", int(case["size_delay"])), name="/size-delay")
        st.add_input_port("a", size_ports[d - 1])
        st.add_output_port("o", delayed)
        size_ports[d - 1] = delayed
    for lvl in reversed(range(d)):
        g = wf.create_step(cls=GatherStep, name=f"/g{lvl}-gather", size_port=size_ports[lvl])
        g.add_input_port("a", cur)
        rec.watch(cur, f"g{lvl}.in")
        rec.watch(size_ports[lvl], f"g{lvl}.size")
        gather_inputs.append(cur)
        cur = wf.create_port()
        g.add_output_port("a", cur)
        mid = case["mids"][d - 1 - lvl] if case.get("mids") else None
        if mid and lvl > 0:
            nxt = wf.create_port()
            st = wf.create_step(cls=fn_cls("L" + mid, 4), name=f"/m{lvl}")
            st.add_input_port("a", cur)
            st.add_output_port("o", nxt)
            cur = nxt
    rec.watch(cur, "out")
    return wf, src, cur, gather_inputs, rec


async def run_engine(ctx, case, workdir, sched_seed, wall=60.0, K=3):
    wf, src, out, gins, rec = build_engine(ctx, case, workdir)
    await wf.save(ctx.database)
    Sched.reset(sched_seed, K)
    for tag, v in case["roots"]:
        t = to_token(v, tag)
        await t.save(ctx.database, src.persistent_id)
        src.put(t)
    src.put(TerminationToken())
    ex = StreamFlowExecutor(wf)
    err = None
    try:
        await run_quiescent(ex.run(), wall_timeout=wall)
    except (asyncio.CancelledError, KeyboardInterrupt):
        raise
    except Exception as e:  # Deadlock / WallTimeout are re-raised to the check
        from vf.perturb import Deadlock, WallTimeout

        if isinstance(e, (Deadlock, WallTimeout)):
            raise
        err = f"{type(e).__name__}: {e}"
    arrivals = [[t.tag for t in data_tokens(p)] for p in gins]
    return {
        "err": err,
        "out": observe_lists(out),
        "deep": [deep_tags(t) for t in data_tokens(out)],
        "statuses": {s.name: s.status.name for s in wf.steps.values()},
        "trace": rec.digest(),
        "arrivals": arrivals,
        "nterm": n_terminations(out),
    }
