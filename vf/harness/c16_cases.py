"""Shapes, fault enumerations and shared oracles of C16..C19 (see c16_recovery.py for the harness)."""
from __future__ import annotations

import itertools
import os

from vf.harness import c16_recovery as R

PHASES = R.PHASES
KINDS = R.KINDS


def P(name):
    return {"op": "pipe", "name": name}


def _file():
    return {"kind": "file", "n": 0}


def _list(n):
    return {"kind": "list", "n": n}


# ---- shapes ---------------------------------------------------------------------------------
def pipeline(k):
    return {"shape": f"pipe{k}", "input": _file(), "stages": [P(f"p{i}") for i in range(k)]}


def scatter(n, body=1, pre=True, post=True):
    st = []
    if pre:
        st.append(P("a"))
    st.append({"op": "scatter", "name": "s", "body": [P("b" if i == 0 else f"b{i}") for i in range(body)]})
    if post:
        st.append({"op": "concat", "name": "c"})
    return {"shape": f"scatter{n}" + (f"x{body}" if body > 1 else "") + ("" if pre else "-nopre") + ("" if post else "-nopost"),
            "input": _list(n), "stages": st}


def loop(k, body=1, pre=False, post=False):
    st = []
    if pre:
        st.append(P("a"))
    st.append({"op": "loop", "name": "l", "iters": k, "body": [P("lb" if i == 0 else f"lb{i}") for i in range(body)]})
    if post:
        st.append(P("z"))
    return {"shape": f"loop{k}" + (f"x{body}" if body > 1 else "") + ("-pre" if pre else "") + ("-post" if post else ""),
            "input": _file(), "stages": st}


def diamond(left=1, right=2, pre=True, post=False):
    st = []
    if pre:
        st.append(P("a"))
    st.append({"op": "diamond", "name": "d", "left": [P(f"l{i}") for i in range(left)],
               "right": [P(f"r{i}") for i in range(right)]})
    if post:
        st.append(P("z"))
    return {"shape": f"diamond{left}{right}" + ("" if pre else "-nopre") + ("-post" if post else ""),
            "input": _file(), "stages": st}


def combo_pipe_scatter_pipe(n):
    return {"shape": f"pipe-scatter{n}-pipe", "input": _list(n),
            "stages": [P("a"), P("a2"), {"op": "scatter", "name": "s", "body": [P("b"), P("b2")]},
                       {"op": "concat", "name": "c"}, P("z")]}


def combo_scatter_loop(n, k):
    # gather -> concat -> loop over the single file -> pipe
    return {"shape": f"scatter{n}-loop{k}", "input": _list(n),
            "stages": [{"op": "scatter", "name": "s", "body": [P("b")]}, {"op": "concat", "name": "c"},
                       {"op": "loop", "name": "l", "iters": k, "body": [P("lb")]}]}


def combo_loop_scatter(n, k):
    # loop over a list value (body elementwise), then scatter the list
    return {"shape": f"loop{k}-scatter{n}", "input": _list(n),
            "stages": [{"op": "loop", "name": "l", "iters": k, "body": [P("lb")]},
                       {"op": "scatter", "name": "s", "body": [P("b")]}, {"op": "concat", "name": "c"}]}


def combo_scatter_diamond(n):
    return {"shape": f"scatter{n}-diamond", "input": _list(n),
            "stages": [P("a"), {"op": "scatter", "name": "s", "body": [
                {"op": "diamond", "name": "d", "left": [P("l0")], "right": [P("r0")]}]},
                {"op": "concat", "name": "c"}]}


def combo_diamond_scatter(n):
    return {"shape": f"diamond-scatter{n}", "input": _list(n),
            "stages": [P("a"), {"op": "diamond", "name": "d",
                                "left": [{"op": "scatter", "name": "sl", "body": [P("bl")]}],
                                "right": [{"op": "scatter", "name": "sr", "body": [P("br")]}]}]}


def with_pop(prog):
    """Same program, every output extracted through PopCommandOutputProcessor."""
    return dict(prog, shape=prog["shape"] + "-pop", pop=True)


def two_sites(k=3, on_b=(2,)):
    """Pipeline p0..p(k-1); the stages listed in `on_b` run on the second deployment."""
    sp = pipeline(k)
    return dict(sp, shape=f"pipe{k}-siteb" + "".join(str(i) for i in on_b), sites={f"p{i}": "b" for i in on_b})


def two_sites_scatter(n=3):
    """a (site a) -> scatter(b on site b) -> c (site a)."""
    sp = scatter(n)
    return dict(sp, shape=f"scatter{n}-siteb", sites={"b": "b"})


def sequence_faults(prog):
    """Fault SEQUENCES on one downstream job D across phases: D's transfer (or schedule) fails softly -
    D is recovered once with all data intact - and then D's execute phase fails with a fail-stop;
    optionally after an upstream job U already failed with a fail-stop."""
    jobs = R.jobs_of(prog)
    anc = R.ancestors(jobs)
    for j in jobs:
        d = j["job"]
        if not anc[d]:
            continue
        for first in ("transfer", "schedule"):
            for kind in ("all", "own"):
                base = [{"job": d, "phase": first, "kind": "soft", "count": 1},
                        {"job": d, "phase": "execute", "kind": kind, "count": 1}]
                yield base
                if kind == "all":
                    for u in sorted(anc[d]):
                        for pu in ("execute", "transfer"):
                            yield [{"job": u, "phase": pu, "kind": "all", "count": 1}] + base


def has_loop(stages) -> bool:
    for st in stages:
        if st["op"] == "loop":
            return True
        for k in ("body", "left", "right"):
            if k in st and has_loop(st[k]):
                return True
    return False


def post_loop_jobs(prog) -> dict:
    """job name -> loop name, for jobs that directly consume a loop's output."""
    out = {}

    def walk(stages, tag, width, prev_loop):
        for st in stages:
            op = st["op"]
            if op in ("pipe", "concat"):
                if prev_loop:
                    out[f"/{st['name']}/{tag}"] = prev_loop
                prev_loop = None
            elif op == "scatter":
                for i in range(width or 0):
                    walk(st["body"], f"{tag}.{i}", None, prev_loop)
                prev_loop = None
            elif op == "loop":
                prev_loop = st["name"]
            elif op == "diamond":
                walk(st["left"], tag, width, prev_loop)
                walk(st["right"], tag, width, prev_loop)
                # the join consumes the branches; a branch that is empty would pass the loop through
                prev_loop = None
        return prev_loop

    n = prog["input"]["n"] if prog["input"]["kind"] == "list" else None
    walk(prog["stages"], "0", n, None)
    return out


# ---- fault enumeration ------------------------------------------------------------------------
def single_faults(prog, kinds=KINDS, counts=(1, 2, 3), phases=PHASES):
    for j in R.jobs_of(prog):
        for ph in phases:
            for kind in kinds:
                for c in counts:
                    yield [{"job": j["job"], "phase": ph, "kind": kind, "count": c}]


def fault_key(faults):
    return [(f["job"], f["phase"], f["kind"], f["count"], f.get("barrier")) for f in faults]


def random_faults(rng, prog, k, kinds=KINDS, counts=(1, 2, 3), phases=PHASES):
    jobs = [j["job"] for j in R.jobs_of(prog)]
    k = min(k, len(jobs))
    return [{"job": j, "phase": rng.choice(phases), "kind": rng.choice(kinds), "count": rng.choice(counts)}
            for j in rng.sample(jobs, k)]


# ---- shared oracles ---------------------------------------------------------------------------
def compact(res: R.RunResult, prog, faults, seed, extra=None) -> dict:
    """JSON witness: the case plus what the monitors saw (bounded)."""
    w = {
        "prog": prog, "faults": faults, "seed": seed,
        "status": res.status, "exc": res.exc, "exc_msg": res.exc_msg,
        "outputs": res.outputs, "expected": R.denote(prog),
        "exec_counts": res.exec_counts(),
        "attempts": res.attempts,
        "versions": res.versions,
        "recover_calls": {j: [(r["start"], r["end"], r["outcome"], r.get("wfkey"), r.get("msg")) for r in v]
                          for j, v in res.recover_calls.items()},
        "syncs": res.syncs[:60],
        "executors": [(e["wf"], e["start"], e["end"], e["outcome"]) for e in res.executors],
        "losses": [{k: l[k] for k in ("t", "by", "phase", "kind", "attempt", "producers")} | {"nfiles": len(l["files"])}
                   for l in res.losses],
        "not_completed": {k: v for k, v in res.step_status.items() if v != "COMPLETED"},
        "events": res.events[:400],
    }
    if res.stacks:
        w["stacks"] = res.stacks[:30] if isinstance(res.stacks, list) else res.stacks
    if extra:
        w.update(extra)
    return w


def final_output_lost(res: R.RunResult) -> bool:
    """The output token's file was deleted by a logged loss after it was written and the engine
    had no consumer left that could notice: no recovery can be expected (out of C16's domain)."""
    def missing(v):
        if isinstance(v, list):
            return [m for x in v for m in missing(x)]
        if isinstance(v, dict) and "missing" in v:
            return [v["missing"]]
        return []

    lost = {f for l in res.losses for f in l["files"]}
    m = [p for o in (res.outputs or []) for p in missing(o)]
    return bool(m) and all(p in lost for p in m)


def fired(res: R.RunResult) -> int:
    return sum(1 for e in res.events if e["ev"] == "fault")


def injected_exec_failures(res: R.RunResult, job) -> int:
    return sum(1 for r in res.execs.get(job, ()) if r["outcome"] == "injected")


def loop_bodies(prog) -> dict:
    """loop name -> set of step names ('/lb') of its body and counter jobs."""
    out = {}

    def names(stages, acc):
        for st in stages:
            if st["op"] in ("pipe", "concat"):
                acc.add("/" + st["name"])
            elif st["op"] == "diamond":
                acc.add("/" + st["name"])
                names(st["left"], acc)
                names(st["right"], acc)
            elif st["op"] == "scatter":
                names(st["body"], acc)
            elif st["op"] == "loop":
                names(st["body"], acc)

    def walk(stages):
        for st in stages:
            if st["op"] == "loop":
                acc = {f"/{st['name']}-inc"}
                names(st["body"], acc)
                out[st["name"]] = acc
            for k in ("body", "left", "right"):
                if k in st:
                    walk(st[k])

    walk(prog["stages"])
    return out


def step_of(job: str) -> str:
    return job.rsplit("/", 1)[0]


def downstream_of_loops(prog) -> dict:
    """job -> set of loop names whose body jobs are among its ancestors while the job itself is
    outside that loop's body."""
    jobs = R.jobs_of(prog)
    anc = R.ancestors(jobs)
    bodies = loop_bodies(prog)
    out = {}
    for j in jobs:
        name = j["job"]
        for ln, steps in bodies.items():
            if step_of(name) in steps:
                continue
            if any(step_of(a) in steps for a in anc[name]):
                out.setdefault(name, set()).add(ln)
    return out


def zero_iter_loops(prog) -> set:
    out = set()

    def walk(stages):
        for st in stages:
            if st["op"] == "loop" and st["iters"] == 0:
                out.add(st["name"])
            for k in ("body", "left", "right"):
                if k in st:
                    walk(st[k])

    walk(prog["stages"])
    return out


def after_zero_iter_loop(prog) -> set:
    """Jobs that (transitively) consume the None token a 0-iteration loop emits."""
    zl = zero_iter_loops(prog)
    if not zl:
        return set()
    out = set()

    def walk(stages, tag, width, tainted):
        for st in stages:
            op = st["op"]
            if op in ("pipe", "concat"):
                if tainted:
                    out.add(f"/{st['name']}/{tag}")
            elif op == "scatter":
                for i in range(width or 0):
                    walk(st["body"], f"{tag}.{i}", None, tainted)
            elif op == "loop":
                if st["iters"] == 0:
                    tainted = True
                else:
                    for j in range(st["iters"]):
                        walk(st["body"], f"{tag}.{j}", width, tainted)
            elif op == "diamond":
                walk(st["left"], tag, width, tainted)
                walk(st["right"], tag, width, tainted)
                if tainted:
                    out.add(f"/{st['name']}/{tag}")
        return tainted

    n = prog["input"]["n"] if prog["input"]["kind"] == "list" else None
    walk(prog["stages"], "0", n, False)
    return out


# ---- mechanism predicates (explicit, tight; one per root cause seen on the unchanged tree) ------
def is_loop_output_not_reemitted(prog, res: R.RunResult) -> bool:
    """A job J outside a loop L but downstream of it needed recovery after L's data had been lost;
    every recover(J) call returned normally, yet J - or a job between L and J whose output was lost
    too - never executed successfully afterwards, and the executor returned normally with a missing
    or wrong workflow output (e.g. a consumer run on an empty gathered list).  (The recovery workflow
    re-runs L's iterations but drops L's condition step, so L's output is never re-emitted.)"""
    if res.status != "ok":
        return False
    dl = downstream_of_loops(prog)
    bodies = loop_bodies(prog)
    anc = R.ancestors(R.jobs_of(prog))
    for j, calls in res.recover_calls.items():
        if j not in dl or not calls or any(c["outcome"] != "ok" for c in calls):
            continue
        for ln in dl[j]:
            lost_t = [l["t"] for l in res.losses if any(step_of(p) in bodies[ln] for p in l["producers"])]
            if not lost_t:
                continue
            last_call = max(c["start"] for c in calls)
            before = [t for t in lost_t if t < last_call]
            if not before:
                continue
            # J itself: never ran successfully after the loop data was (last) lost before its recovery
            t0 = max(before)
            if not [e for e in res.execs.get(j, ()) if e["outcome"] == "ok" and e["start"] > t0]:
                return True
            # a job between L and J whose own output was deleted and that never ran again
            for x in (a for a in anc.get(j, ()) if ln in dl.get(a, ())):
                lost_x = [l["t"] for l in res.losses if x in l["producers"]]
                if lost_x and not [e for e in res.execs.get(x, ()) if e["outcome"] == "ok" and e["start"] > max(lost_x)]:
                    return True
    return False


def is_scatter_join_mispaired(prog, res: R.RunResult) -> bool:
    """A multi-input job inside a scatter (diamond join) whose input ports deliver their tokens in
    different tag orders after a recovery delayed one element: ExecuteStep._check_inputs pairs 'the
    job just fetched from the job port' with 'whatever tag is complete', so one job of the step is
    consumed and never run while another job runs twice (same output directory) although it never
    failed; the executor returns normally with a wrong list, or - when the doubly used job carries
    an injected fault - its recovery recurses until the retry limit aborts the workflow."""
    if res.status not in ("ok", "raised") or not res.recover_calls:
        return False
    by_step: dict = {}
    for j in R.jobs_of(prog):
        if len(j["deps"]) >= 2:
            by_step.setdefault(j["step"], []).append(j["job"])
    for step, js in by_step.items():
        if len(js) < 2:
            continue
        ok = {j: sum(1 for e in res.execs.get(j, ()) if e["outcome"] == "ok") for j in js}
        failed = {j: sum(1 for e in res.execs.get(j, ()) if e["outcome"] != "ok") for j in js}
        never_any = [j for j in js if ok[j] == 0 and failed[j] == 0]
        never = [j for j in never_any if j not in res.recover_calls]
        twice = [j for j in js if ok[j] >= 2 and failed[j] == 0]
        mismatch = [j for j in js for e in res.execs.get(j, ()) if e.get("in_tag") not in (None, j.rsplit("/", 1)[1])]
        # a job token consumed without ever being run (and never reported as failed) is the signature;
        # a job run twice / run on another element's inputs is additional evidence when present
        if never_any and (twice or mismatch):
            return True
        if never and res.status == "ok":
            return True
    return False


def is_concurrent_recovery_drops_job(prog, res: R.RunResult) -> bool:
    """After a fail-stop deleted files other jobs had written, two or more recover() calls were
    open at the same time (sibling jobs, the two transfer steps of one job, or a job failing again
    while its own recovery is in progress); all of them returned normally, the executor returned
    normally, but some job of the program never executed successfully: its element is silently
    missing from the gathered list / the output is wrong."""
    if res.status != "ok":
        return False
    if not any(l["producers"] for l in res.losses):
        return False
    calls = [c for v in res.recover_calls.values() for c in v]
    if len(calls) < 2 or any(c["outcome"] != "ok" for c in calls):
        return False
    overlapped = any(a is not b and a["start"] < b["start"] < (a["end"] or 1 << 60) for a in calls for b in calls)
    if not overlapped:
        return False
    for j in R.jobs_of(prog):
        if not any(e["outcome"] == "ok" for e in res.execs.get(j["job"], ())):
            return True
    return False


def is_zero_iter_unrecoverable(prog, res: R.RunResult) -> bool:
    """A job consuming the (None, provenance-less) output token of a 0-iteration loop failed and
    recover() raised 'is not available and it does not have previous tokens'."""
    if res.status != "raised":
        return False
    tainted = after_zero_iter_loop(prog)
    for j, calls in res.recover_calls.items():
        if j in tainted and any(
            c["outcome"] == "FailureHandlingException"
            and "is not available and it does not have previous tokens" in (c.get("msg") or "")
            for c in calls
        ):
            return True
    return False


def is_runaway_nested_recovery(res: R.RunResult, limit) -> bool:
    """After a fail-stop loss with >= 2 jobs in recovery, recover() of one job is re-entered >= 5
    times with nothing executed, injected or deleted in between (each nested recovery workflow fails
    at once: its input is never regenerated, or the two transfer steps of one job keep handing the
    job to each other), until the retry limit aborts the workflow ('FAILED Job .. N times. Execution
    aborted') or Python's recursion limit is hit (RecursionError), although the job was injected to
    fail at most 3 times."""
    if res.status != "raised":
        return False
    if not any(l["producers"] for l in res.losses):
        return False
    if len(res.recover_calls) < 2:
        return False
    streak: dict = {}
    runaway = set()
    for e in res.events:
        if e["ev"] == "recover_start":
            streak[e["job"]] = streak.get(e["job"], 0) + 1
            if streak[e["job"]] >= 5:
                runaway.add(e["job"])
        elif e["ev"] in ("exec_start", "fault", "loss"):
            streak = {}
    for j in runaway:
        for c in res.recover_calls.get(j, ()):
            if c["outcome"] == "RecursionError" or (
                    c["outcome"] == "FailureHandlingException" and "Execution aborted" in (c.get("msg") or "")):
                return True
    return False


def _blocked_on_request_lock(res: R.RunResult) -> bool:
    import linecache

    for t in res.stacks or []:
        if not isinstance(t, dict):
            continue
        for fr in t.get("stack", ()):
            parts = fr.rsplit(":", 2)
            if len(parts) == 3 and parts[2] == "_recover":
                fn = parts[0]
                for root in (os.environ.get("VF_REPO", ""), "/repo"):
                    path = os.path.join(root, fn) if root and not fn.startswith("/") else fn
                    line = linecache.getline(path, int(parts[1]))
                    if line:
                        if "request.lock" in line:
                            return True
                        break
    return False


def starved_recovery_steps(res: R.RunResult) -> list:
    out = []
    for h in res.hung or []:
        if h["wf"] == res.main_wf:
            continue
        for st, ports in h["open_steps"].items():
            for pn, p in ports.items():
                real = [t for t in p["tokens"] if t[0] != "TerminationToken"]
                waiting_boundary = any(b[1] for b in p["boundaries"])
                if not real or waiting_boundary:
                    out.append((h["wf"], st, pn, p["cls"]))
    return out


def is_concurrent_recovery_hang(res: R.RunResult) -> bool:
    """Quiescent deadlock of this shape: data was lost by a fail-stop, >= 2 distinct jobs needed
    recovery, nobody waits for a RecoveryRequest lock, and a *recovery* workflow has a step starved
    on an input port that no step of that workflow feeds, in one of the two observed forms:
      (a) the ScheduleStep of a recovery workflow waits on its ConnectorPort (no DeployStep / no
          connector token in that workflow), or
      (b) some job failed again inside a recovery workflow (>= 2 recover() calls of one job, or
          recover() called by a step that lives in a recovery workflow) and a step of a nested
          recovery workflow waits for a job / data token expected from a sibling recovery workflow.
    A first-level recovery starving on an inter-workflow port (what a broken
    `_synchronize_workflows` gives) matches neither form."""
    if res.status != "deadlock":
        return False
    if not any(l["producers"] for l in res.losses):
        return False
    if len(res.recover_calls) < 2:
        return False
    if _blocked_on_request_lock(res):
        return False
    starved = starved_recovery_steps(res)
    if not starved:
        return False
    form_a = any(st.endswith("/__schedule__") and cls == "ConnectorPort" for _, st, _, cls in starved)
    nested = max(len(v) for v in res.recover_calls.values()) >= 2 or any(
        c.get("wfkey", 1) != 1 for v in res.recover_calls.values() for c in v)
    return form_a or nested


def excess_reexecutions(res: R.RunResult, producers=None):
    """For C19: per producer P, the re-executions beyond (losses of P's data + P's own failures).
    Returns list of dicts {job, n_exec, losses, own_failures, excess:[exec records], stale:[bool]}."""
    out = []
    for job, execs in res.execs.items():
        if producers is not None and job not in producers:
            continue
        loss_t = [l["t"] for l in res.losses if job in l["producers"]]
        own_fail = sum(1 for e in execs if e["outcome"] in ("injected", "genuine"))
        allowed = 1 + len(loss_t) + own_fail
        if len(execs) <= allowed:
            continue
        # which re-executions are the excess ones: after each loss one re-execution is justified (the
        # first that starts after it); after each own failure one more
        justified = set()
        for lt in loss_t:
            for i, e in enumerate(execs):
                if i > 0 and e["start"] > lt and i not in justified:
                    justified.add(i)
                    break
        for i, e in enumerate(execs):
            if e["outcome"] in ("injected", "genuine"):
                for k in range(i + 1, len(execs)):
                    if k not in justified:
                        justified.add(k)
                        break
        excess = [i for i in range(1, len(execs)) if i not in justified]
        stale = []
        for i in excess:
            e = execs[i]
            sync = next((s for s in res.syncs if s["wfkey"] == e.get("wfkey")), None)
            d = sync["t"] if sync else None
            ok = False
            if d is not None:
                for k in range(1, i):
                    r = execs[k]
                    if r["outcome"] == "ok" and r["end"] is not None and r["end"] < d and not any(r["end"] < lt < d for lt in loss_t):
                        ok = True
                        break
            stale.append(ok)
        out.append({"job": job, "n_exec": len(execs), "losses": len(loss_t), "own_failures": own_fail,
                    "excess": [dict(execs[i]) for i in excess], "stale": stale})
    return out
