"""Guard for the C06 engine harness: the loop built by vf/harness/c06_loops.py must have the same
machinery topology as the loop the REAL CWLTranslator produces for the equivalent CWL document
(three loop inputs i, n, acc; outputs o_i, o_acc, o_aux; i <- o_i, acc <- o_acc; n not fed back).

`translator_signature` translates a reference document with the real translator (no execution, no
JavaScript); `harness_signature` builds the harness loop; both are reduced to a set of edges between
*roles* (step-name suffixes of the loop machinery; every other step is BODY or OUTSIDE) labelled with
the step class and port names.  The check reports INCONCLUSIVE if they ever differ: the harness would
then no longer exercise the wiring StreamFlow really uses.
"""
from __future__ import annotations

import os

ROLES = ("-input-forward-transformer", "-loop-combinator", "-loop-when", "-output-forward-transformer",
         "-loop-output", "-loop-terminator", "-back-propagation-transformer")

CWL_DOC = """\
cwlVersion: v1.2
class: Workflow
$namespaces:
  cwltool: "http://commonwl.org/cwltool#"
requirements:
  InlineJavascriptRequirement: {}
inputs:
  i: int
  n: int
  acc: Any
outputs:
  r_i: {type: Any, outputSource: loop/o_i}
  r_acc: {type: Any, outputSource: loop/o_acc}
  r_aux: {type: Any, outputSource: loop/o_aux}
steps:
  loop:
    run:
      class: ExpressionTool
      inputs: {i: int, n: int, acc: Any}
      outputs: {o_i: int, o_acc: Any, o_aux: Any}
      expression: "${return {'o_i': inputs.i + 1, 'o_acc': inputs.acc, 'o_aux': inputs.i};}"
    in: {i: i, n: n, acc: acc}
    out: [o_i, o_acc, o_aux]
    requirements:
      cwltool:Loop:
        loopWhen: $(inputs.i < inputs.n)
        loop: {i: o_i, acc: o_acc}
        outputMethod: %s
"""


def _real_class(step):
    for c in type(step).__mro__:
        if c.__module__.startswith("streamflow."):
            return c.__name__
    return type(step).__name__


def _role(name, prefix):
    if not name.startswith(prefix):
        return "OUTSIDE"
    rest = name[len(prefix):]
    if rest.startswith("/inner"):
        return "BODY"
    for r in ROLES:
        if rest.endswith(r):
            return rest  # e.g. "/i-input-forward-transformer", "-loop-combinator"
    return "BODY"


def signature(wf, prefix):
    sig = set()
    role = {s.name: _role(s.name, prefix) for s in wf.steps.values()}
    for s in wf.steps.values():
        if role[s.name] not in ("BODY", "OUTSIDE"):
            sig.add(("step", role[s.name], _real_class(s)))
    for pname, port in wf.ports.items():
        prods = [(s, k) for s in wf.steps.values() for k, v in s.output_ports.items() if v == pname]
        cons = [(s, k) for s in wf.steps.values() for k, v in s.input_ports.items() if v == pname]
        skips = [(s, k) for s in wf.steps.values() for k, v in getattr(s, "skip_ports", {}).items() if v == pname]
        for p, pk in prods + [(s, "skip:" + k) for s, k in skips]:
            for c, ck in cons:
                rp, rc = role[p.name], role[c.name]
                if "OUTSIDE" in (rp, rc) or (rp == "BODY" and rc == "BODY"):
                    continue  # sources / sinks of the loop and the inside of the body are not loop machinery
                sig.add(("edge", rp, pk if rp not in ("BODY", "OUTSIDE") else "*", rc,
                         ck if rc not in ("BODY", "OUTSIDE") else "*"))
    return sig


def translator_signature(ctx, scratch, method="last"):
    import cwl_utils.parser
    import cwl_utils.parser.utils
    from streamflow.config.config import WorkflowConfig
    from streamflow.cwl.translator import CWLTranslator

    d = os.path.join(scratch, "c06_wiring")
    os.makedirs(d, exist_ok=True)
    path = os.path.join(d, f"loop_{method}.cwl")
    with open(path, "w") as f:
        f.write(CWL_DOC % method)
    cfg = {"version": "v1.0", "workflows": {"w": {"type": "cwl", "config": {"file": path}}}}
    wc = WorkflowConfig("w", cfg)
    doc = cwl_utils.parser.load_document_by_uri(path)
    job = os.path.join(d, "job.json")
    with open(job, "w") as f:
        f.write('{"i": 0, "n": 2, "acc": null}')
    inputs = cwl_utils.parser.utils.load_inputfile_by_uri(version=doc.cwlVersion, path=job,
                                                          loadingOptions=doc.loadingOptions)
    tr = CWLTranslator(context=ctx, name="c06-wiring", output_directory=d, cwl_definition=doc,
                       cwl_inputs=inputs, cwl_inputs_path=job, workflow_config=wc)
    wf = tr.translate()
    return signature(wf, "/loop"), wf


def harness_signature(ctx, scratch, method="last"):
    from vf.harness.c06_loops import build_program

    case = {"spec": {"method": method, "body": "fn", "acc": "append", "aux_k": 0},
            "instances": [["0", 0, 2, None]], "scatter": False}
    wf, _, _, _, _ = build_program(ctx, case, scratch)
    return signature(wf, "/loop"), wf
