"""Hostile / benign string generators shared by C24 (path names) and C25 (env values, workdirs).

Safety (DESIGN.md §2.5): the strings generated here ARE interpreted by a root shell on the
unchanged tree (unquoted paths, double-quoted env values).  `assert_safe` is an independent
validator applied to every generated string before it is used; it enforces

* no NUL, no '/' (names are single path components; the harness adds the directories);
* never '..';
* after whitespace or a shell operator (; & | < > ( ) ` $( newline) the next character is
  alphanumeric — so no word can start with '/', '~', '.', '-', '$' or a glob character
  (a bare `*` word after `rm -rf` would be expanded in the shell's cwd);
* every *command word* (first word after ; & | ( ` $( or newline) is `id` or `vfnoop_<n>`;
* redirection targets are plain relative words (`vfout<n>`), never absolute;
* `$` is only followed by a name from a fixed list of variables whose values are harmless
  (HOME = the worker's scratch home, vfunset = unset), `$$`, `$1`, `$(`, `${HOME}` or a
  non-identifier character.
"""
from __future__ import annotations

import re

# characters a POSIX shell interprets in an *unquoted* word that is embedded in an absolute path
UNQUOTED_SPECIAL = set(" \t\n'\"\\`$*?[;&|<>()")
# characters still interpreted inside double quotes
DQUOTED_SPECIAL = set('"\\`$')
WHITESPACE = set(" \t\n")

BENIGN_CLASSES = {
    "plain": ["plain", "abc", "File1", "x", "data01", "README"],
    "dotdash": ["a.b-c_d", "out.txt", "v1.2.3", "my-file", "a_b", "x-y.z"],
    "dotfile": [".hidden", ".cfg.d"],
    "uni": ["üñí", "日本語", "naïve", "Ωmega", "été", "файл"],
    "long": ["L" + "o" * 118 + "g", "n" * 100 + ".dat"],
}

# class -> list of instances.  Only `id`/`vfnoop_N` may appear in command position.
HOSTILE_CLASSES = {
    "space": ["a b", "my file.txt", "x y z"],
    "squote": ["it's", "a'b'c", "'q"],
    "dquote": ['q"q', 'a"b"c', '"q'],
    "dollar": ["a$HOME", "a${HOME}b", "a$vfunset", "p$$", "a$1b", "$HOME", "cost$"],
    "btick": ["a`id`", "a`vfnoop_1`b", "a`id"],
    "subst": ["a$(id)", "a$(vfnoop_2)b"],
    "star": ["st*r", "*", "a*"],
    "qmark": ["q?m", "?x", "a?"],
    "brack": ["b[ab]c", "[x]", "a[b"],
    "semi": ["a;id", "a;vfnoop_3", "a;"],
    "amp": ["a&id", "a&&id", "a&"],
    "pipe": ["a|id", "a||id"],
    "lt": ["a<vfout1", "a<"],
    "gt": ["a>vfout2", "a>>vfout3"],
    "paren": ["a(id", "a(id)", "a)b"],
    "bslash": ["a\\b", "a\\", "a\\\\b", "a\\ b"],
    "hash": ["#h", "a#b"],
    "tilde": ["~t", "a~"],
    "dash": ["-rf", "-n", "--help", "-"],
    "bang": ["a!b", "!x"],
    "brace": ["{a,b}", "a{1,2}c"],
    "punct": ["a=b", "100%", "a:b", "a,b", "@x", "a+b", "a^b"],
    "mixed": ["a b;id", "it's a$HOME", 'q"w e', "x `id` y", "a&id c", "st*r t", "a\\b c", "a'b\"c"],
}

ALLOWED_CMDS = re.compile(r"^(id|vfnoop_[0-9]+)$")
ALLOWED_VARS = ("HOME", "vfunset")


class UnsafeString(AssertionError):
    pass


BREAK = set(" \t\n;&|<>()`")


def assert_safe(s: str, allow_slash: bool = False) -> str:
    """Independent validator of the generator rules (raises UnsafeString)."""
    if "\0" in s:
        raise UnsafeString(f"NUL in {s!r}")
    if "/" in s and not allow_slash:
        raise UnsafeString(f"'/' in {s!r}")
    if ".." in s:
        raise UnsafeString(f"'..' in {s!r}")
    n = len(s)
    for i, c in enumerate(s):
        if c in BREAK:
            # rule 2: a new word starts here -> alnum, another break character, or end
            if i + 1 < n and not ((s[i + 1].isascii() and s[i + 1].isalnum()) or s[i + 1] in BREAK):
                raise UnsafeString(f"word after {c!r} starts with {s[i + 1]!r} in {s!r}")
            j = i + 1
            while j < n and s[j] in " \t":
                j += 1
            word = re.match(r"[A-Za-z0-9_]*", s[j:]).group(0)
            opening_tick = c == "`" and s[:i].count("`") % 2 == 0
            if (c in ";&|(\n" or opening_tick) and word and not ALLOWED_CMDS.match(word):
                raise UnsafeString(f"command word {word!r} not allowed in {s!r}")
            if c in "<>" and word and not re.match(r"^vfout[0-9]+$", word):
                raise UnsafeString(f"redirection target {word!r} in {s!r}")
        if c == "$":
            m = re.match(r"\{?([A-Za-z_][A-Za-z0-9_]*)", s[i + 1:])
            if m and m.group(1) not in ALLOWED_VARS:
                raise UnsafeString(f"variable ${m.group(1)} in {s!r}")
    return s


def all_classes():
    return dict(BENIGN_CLASSES, **HOSTILE_CLASSES)


def is_benign_char(ch: str) -> bool:
    return ch.isalnum() or ch in "._-"


def is_benign(name: str) -> bool:
    """alnum / unicode letters (and combining marks), dot, dash and underscore *inside*."""
    import unicodedata

    if not name or name[0] == "-":
        return False
    return all(is_benign_char(ch) or unicodedata.category(ch).startswith("M") for ch in name)


def twin(name: str, taken: set[str]) -> str:
    """Benign name of the same shape: every non-benign character becomes a letter."""
    import unicodedata

    out = "".join(ch if (is_benign_char(ch) or unicodedata.category(ch).startswith("M")) else "Q" for ch in name)
    if out.startswith("-"):
        out = "Q" + out[1:]
    if not out.strip("."):
        out = "Q" + out
    base, k = out, 0
    while out in taken:
        k += 1
        out = f"{base}{k}"
    return out


def pick_name(rng, cls: str) -> str:
    inst = all_classes()[cls]
    return assert_safe(rng.choice(inst))


def special_chars(s: str, charset=UNQUOTED_SPECIAL) -> str:
    return "".join(sorted(set(s) & charset))


# ---------------------------------------------------------------- contents (C24) / values (C25)
CONTENTS = [
    "", "x", "hello\nworld", "  lead and trail \n\n", "\n", "line\n", "üñí✓\n", "abc", "\nabc",
    "tab\tsep\n", "a b  c\n", " \n ", "two\n\nparas\n", "trail space ", "$HOME `id` 'q' \"d\"\n",
]


def content(rng, big: int = 0, buf: int = 0, p_sized: float = 0.0) -> str:
    """Small literal contents; (thorough) a compact token `@@BIG:<chars>:<k>`; or, with probability `p_sized`, a
    multi-byte text `@@MB:<bytes>:<density>:<nl>` whose UTF-8 length sits on / next to a multiple of the connector's
    transferBufferSize `buf` (expanded by `expand`)."""
    if buf and rng.random() < p_sized:
        m = rng.choice([1, 1, 2, 2, 3, 5])
        nbytes = max(1, m * buf + rng.choice([-1, 0, 1, 1, 7, buf // 2]))
        return f"@@MB:{nbytes}:{rng.choice([0, 1, 2, 2])}:{rng.choice([0, 1])}"
    if big and rng.random() < 0.08:
        n = rng.choice([4096, 65536, 70000, big])
        return f"@@BIG:{max(1, n // 2)}:{rng.randint(0, 9)}"
    return rng.choice(CONTENTS)


_MB_UNITS = ["plain ascii line with one ü\n", "aü✓b日 mixed é\n", "日本語✓テキスト漢字\n"]


def expand(data: str) -> str:
    if data.startswith("@@MB:"):
        _, nbytes, density, nl = data.split(":")
        nbytes, unit = int(nbytes), _MB_UNITS[int(density)]
        ub = unit.encode("utf-8")
        text = (ub * (nbytes // len(ub) + 1))[:nbytes].decode("utf-8", errors="ignore")
        if int(nl) and text.endswith("\n"):
            text = text[:-1] + "z"  # no trailing newline in this variant
        text += "x" * (nbytes - len(text.encode("utf-8")))  # exact UTF-8 length
        return text
    if not data.startswith("@@BIG:"):
        return data
    _, n, k = data.split(":")
    line = ("abcdefghij ü"[int(k):] + "abcdefghij ü"[: int(k)]) * 5 + "\n"
    return (line * (int(n) // len(line) + 1))[: int(n)]
