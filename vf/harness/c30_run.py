"""C30 execution harness: run one generated tool with the reference runner (cwltool, separate
process, `--no-container`) and with StreamFlow (in-process `streamflow.cwl.runner.main`), collect what
the tool process itself saw (probe dump) and compare.
"""
from __future__ import annotations

import json
import logging
import os
import re
import shutil
import subprocess
import sys

PROBE_SRC = r'''
import json, os, stat, sys
d = {"argv": sys.argv[1:], "env": {k: v for k, v in os.environ.items() if k in ("VF_A", "VF_B", "VF_C")}}
def kind(fd):
    try:
        st = os.fstat(fd)
    except OSError:
        return "closed"
    if stat.S_ISREG(st.st_mode):
        try:
            return "file:" + os.path.basename(os.readlink("/proc/self/fd/%d" % fd))
        except OSError:
            return "file:?"
    return "other"
d["stdin_kind"] = kind(0).split(":")[0]
d["stdout"] = kind(1)
d["stderr"] = kind(2)
d["same_out_err"] = False
try:
    a, b = os.fstat(1), os.fstat(2)
    d["same_out_err"] = (a.st_dev, a.st_ino) == (b.st_dev, b.st_ino) and stat.S_ISREG(a.st_mode)
except OSError:
    pass
if d["stdin_kind"] == "file":
    d["stdin_hex"] = sys.stdin.buffer.read().hex()
d["cwd_entries"] = sorted(n for n in os.listdir(".") if n.startswith("vf") and n != "vf_dump.json")
with open("vf_dump.json", "w") as f:
    json.dump(d, f)
sys.stdout.write("OUT-MARK\n")
sys.stdout.flush()
sys.stderr.write("ERR-MARK\n")
'''

REF_DRIVER = r'''
import io, json, os, sys, logging
logging.disable(logging.CRITICAL)
import cwltool.main
jobs = json.load(open(sys.argv[1]))
res = []
for j in jobs:
    out = io.StringIO()
    try:
        os.chdir(j["cwd"])
        rc = cwltool.main.main(["--no-container", "--relax-path-checks", "--quiet", "--outdir", j["outdir"], j["tool"], j["job"]], stdout=out, stderr=io.StringIO())
    except SystemExit as e:
        rc = e.code if isinstance(e.code, int) else 1
    except BaseException as e:
        rc = 99
    res.append({"rc": rc, "stdout": out.getvalue()[-20000:]})
    json.dump(res, open(sys.argv[2] + ".tmp", "w"))
    os.replace(sys.argv[2] + ".tmp", sys.argv[2])
'''

INPUT_FILES = {"in file.txt": b"content of in file\n", "b.dat": b"\x00\x01binary\xff", "c'q.txt": b"quote\n", "fin.txt": b"stdin \xc3\xbc bytes\nline2\n"}


def write_probe(scratch: str) -> str:
    p = os.path.join(scratch, "vf_probe.py")
    if not os.path.exists(p):
        with open(p, "w") as f:
            f.write(PROBE_SRC)
    return p


def materialise(case: dict, d: str) -> None:
    os.makedirs(d, exist_ok=True)
    for n, b in INPUT_FILES.items():
        with open(os.path.join(d, n), "wb") as f:
            f.write(b)
    with open(os.path.join(d, "t.cwl"), "w") as f:
        json.dump(case["tool"], f)  # JSON is YAML
    with open(os.path.join(d, "j.yml"), "w") as f:
        json.dump(case["job"], f)


def run_reference(scratch: str, dirs: list[str], timeout=600) -> list[dict]:
    """One cwltool process for a batch of case directories. -> [{"rc", "out"}]"""
    drv = os.path.join(scratch, "vf_ref_driver.py")
    if not os.path.exists(drv):
        with open(drv, "w") as f:
            f.write(REF_DRIVER)
    jobs = [{"cwd": d, "outdir": os.path.join(d, "ref"), "tool": os.path.join(d, "t.cwl"), "job": os.path.join(d, "j.yml")} for d in dirs]
    jf, rf = os.path.join(scratch, "vf_ref_jobs.json"), os.path.join(scratch, "vf_ref_res.json")
    with open(jf, "w") as f:
        json.dump(jobs, f)
    if os.path.exists(rf):
        os.unlink(rf)
    env = dict(os.environ)
    env.pop("PYTHONPATH", None)  # the reference must not import the tree under test
    try:
        subprocess.run([sys.executable, drv, jf, rf], env=env, cwd=scratch, capture_output=True, timeout=timeout, stdin=subprocess.DEVNULL)
    except subprocess.TimeoutExpired:
        pass
    res = []
    if os.path.exists(rf):
        with open(rf) as f:
            res = json.load(f)
    res += [{"rc": None, "stdout": ""}] * (len(dirs) - len(res))
    return res


class _Capture(logging.Handler):
    def __init__(self):
        super().__init__(level=logging.DEBUG)
        self.lines: list[str] = []

    def emit(self, record):
        try:
            self.lines.append(record.getMessage()[:2000])
        except Exception:
            pass


def run_streamflow(d: str):
    """In-process StreamFlow run of the case in directory d. Returns (runner status, log lines)."""
    from streamflow.cwl.runner import main
    from streamflow.log_handler import logger

    cap = _Capture()
    logger.addHandler(cap)
    saved = [h for h in logger.handlers if h is not cap]
    for h in saved:
        logger.removeHandler(h)  # keep the worker's stderr quiet
    cwd = os.getcwd()
    os.chdir(d)
    old = sys.stdout
    sys.stdout = open(os.path.join(d, "sf_stdout.json"), "w")
    try:
        rc = main(["--debug", "--outdir", os.path.join(d, "sf"), os.path.join(d, "t.cwl"), os.path.join(d, "j.yml")])
    except BaseException as e:  # noqa
        rc = 98
        cap.lines.append(f"runner raised {type(e).__name__}: {e}")
    finally:
        sys.stdout.close()
        sys.stdout = old
        os.chdir(cwd)
        logger.removeHandler(cap)
        for h in saved:
            logger.addHandler(h)
    return rc, cap.lines


_DIRPFX = r"/(?:[\w.\-]+/)+"


def normalise_arg(a: str) -> str:
    """Staging directories differ by design: keep basenames of the known input files only."""
    names = "|".join(re.escape(n) for n in INPUT_FILES)
    return re.sub(_DIRPFX + r"(?=(?:" + names + r"))", "<DIR>/", a)


def collect(d: str, sub: str, rc, tool: dict) -> dict:
    """Observation of one run: status + probe dump + captured stream files."""
    if rc != 0:
        return {"status": "failed", "rc": rc}
    out = os.path.join(d, sub)
    try:
        with open(os.path.join(out, "vf_dump.json")) as f:
            dump = json.load(f)
    except Exception as e:
        return {"status": "nodump", "err": str(e)[:100]}
    obs = {
        "status": "ok",
        "argv": dump["argv"],
        "env": dump["env"],
        "stdin": dump.get("stdin_hex") if "stdin" in tool else "n/a",
        "stray": dump.get("cwd_entries", []),
    }
    # stream redirections, as far as the tool declares them
    if "so" in tool["outputs"]:
        name = dump["stdout"]
        obs["stdout_to_file"] = name.startswith("file:")
        if "stdout" in tool:
            obs["stdout_name"] = name
        if name.startswith("file:"):
            try:
                with open(os.path.join(out, name[5:]), "rb") as f:
                    obs["stdout_content"] = f.read().decode("utf-8", "replace")
            except OSError:
                obs["stdout_content"] = None
    if "se" in tool["outputs"]:
        name = dump["stderr"]
        obs["stderr_to_file"] = name.startswith("file:")
        if "stderr" in tool:
            obs["stderr_name"] = name
        if name.startswith("file:"):
            try:
                with open(os.path.join(out, name[5:]), "rb") as f:
                    obs["stderr_content"] = f.read().decode("utf-8", "replace")
            except OSError:
                obs["stderr_content"] = None
    if "so" in tool["outputs"] and "se" in tool["outputs"]:
        obs["same_out_err"] = dump["same_out_err"]
    return obs


def diff_keys(a: dict, b: dict) -> list[str]:
    return sorted(k for k in set(a) | set(b) if a.get(k) != b.get(k))


def cleanup_streamflow_state(scratch: str) -> None:
    shutil.rmtree(os.path.join(scratch, "streamflow"), ignore_errors=True)
    shutil.rmtree(os.path.join(os.environ.get("HOME", scratch), ".streamflow"), ignore_errors=True)
