"""C21 history class "in-flight copies": get_source_location racing with data locations that are
registered PRIMARY but not yet available (what transfer_data creates for its destinations before the
copy) and that change before they become available.

flight    synthetic: the destination records are created exactly the way transfer_data does
          (register_path(parent); DataLocation(PRIMARY, available unset); path_mapper.put;
          register_relation(src, dst)); concurrent get_source_location tasks are started while the
          records are unavailable; then a seeded event per record (stays PRIMARY / becomes
          SYMBOLIC_LINK as transfer_data does for read-only same-location copies / is invalidated by
          invalidate_location on the path or its parent) and finally `available.set()`.
transfer  the REAL transfer_data on real files over the vf-shell deployments, with
          streamflow.data.manager._copy gated (the copy blocks until the harness releases it).
Obligation G, judged inside each task in the same loop step in which get_source_location returned:
the value is a PRIMARY, non-INVALID member of get_data_locations(path, data_type=PRIMARY) at that
moment, and None only if that answer is empty.
"""
from __future__ import annotations

import asyncio
import os

NAMES = ["a", "b", "c"]
PLAIN = [0, 1, 2, 6]  # r1, r2, x1, local


def gen_flight(rng):
    sl = rng.choice(PLAIN)
    P = "T/" + "/".join(rng.choice(NAMES) for _ in range(rng.randint(1, 2))) + "/src"
    pre = [["reg", sl, P, "PRIMARY"]]
    extra = None
    if rng.random() < 0.5:  # a second, available primary copy related to the source
        extra = [rng.choice(PLAIN), "T/" + rng.choice(NAMES) + "/copy"]
    flights = []
    for k in range(rng.choice([1, 1, 2])):
        flights.append({
            "li": rng.choice(PLAIN + [sl]),
            "sym": f"T/d{k}/" + rng.choice(NAMES) + "/dst",
            "related": rng.random() < 0.85,  # writable copies are not related to the source
            "event": rng.choice(["primary", "symlink", "symlink", "invalidate", "invalidate", "invalidate_parent"]),
        })
    paths = [P] + [f["sym"] for f in flights if f["related"]] or [P]
    gets = []
    for _ in range(rng.randint(1, 4)):
        f = rng.choice(flights)
        li = f["li"] if rng.random() < 0.7 else rng.choice(PLAIN)
        gets.append([rng.choice(paths) if rng.random() < 0.5 else (f["sym"] if f["related"] else P), li,
                     rng.choice(["before", "before", "mid"])])
    order = list(range(len(flights)))
    rng.shuffle(order)
    return {"kind": "flight", "pre": pre, "extra": extra, "flights": flights, "gets": gets, "set_order": order,
            "yields": rng.randint(0, 3)}


async def run_flight(sh, env, case, resolve):
    """-> (failure dict | None, info)"""
    from streamflow.core.data import DataLocation, DataType
    from streamflow.data.manager import DefaultDataManager

    table, bases = env.table, env.bases
    dm = DefaultDataManager(env.ctx)
    info = {"blocked": 0, "changed_while_waited": 0}
    fails = []

    def own(li, p):
        k = table[li]["key"]
        return next((d for d in dm.get_data_locations(p, k[0], k[1]) if d.path == p), None)

    for (_, li, sym, typ) in case["pre"]:
        dm.register_path(table[li]["loc"], resolve(sym, bases), None, DataType[typ])
    sli, ssym = case["pre"][0][1], case["pre"][0][2]
    src = own(sli, resolve(ssym, bases))
    if src is None:
        return {"ob": "C1", "what": "source registration not reported", "a": [sli, ssym]}, info
    if case["extra"]:
        eli, esym = case["extra"]
        dm.register_path(table[eli]["loc"], resolve(esym, bases))
        e = own(eli, resolve(esym, bases))
        if e is not None:
            dm.register_relation(src, e)
    recs = []
    for f in case["flights"]:
        p = resolve(f["sym"], bases)
        loc = table[f["li"]]["loc"]
        # --- what transfer_data does for a destination before the copy starts
        dm.register_path(loc, os.path.dirname(p))
        dl = DataLocation(location=loc, path=p, relpath=src.relpath, data_type=DataType.PRIMARY)
        dm.path_mapper.put(path=p, data_location=dl)
        if f["related"]:
            dm.register_relation(src, dl)
        recs.append(dl)

    async def get(path, li, idx):
        dep = table[li]["key"][0]
        r = await dm.get_source_location(path, dep)
        # same loop step as the return: nothing can have changed in between
        prim = dm.get_data_locations(path, data_type=DataType.PRIMARY)
        sh.count("G_inflight")
        if r is None:
            if prim:
                fails.append({"ob": "G-none-while-primary-exists", "get": case["gets"][idx],
                              "primary": sorted(((d.deployment, d.name), d.path) for d in prim)})
        elif r.data_type != DataType.PRIMARY or not any(r is d for d in prim):
            fails.append({"ob": "G-not-a-valid-primary", "get": case["gets"][idx],
                          "got": [(r.deployment, r.name), r.path, r.data_type.name],
                          "in_flight": any(r is d for d in recs)})

    tasks = []

    def start(when):
        for idx, (sym, li, w) in enumerate(case["gets"]):
            if w == when:
                tasks.append(asyncio.ensure_future(get(resolve(sym, bases), li, idx)))

    async def spin(n):
        for _ in range(n):
            await asyncio.sleep(0)

    start("before")
    await spin(3 + case["yields"])
    info["blocked"] = sum(1 for t in tasks if not t.done())
    for f, dl in zip(case["flights"], recs):
        waited = any(not t.done() for t in tasks)
        ev = f["event"]
        if ev == "symlink":  # transfer_data: `data_location.data_type = SYMBOLIC_LINK if is_symlink else PRIMARY`
            dl.data_type = DataType.SYMBOLIC_LINK
        elif ev == "invalidate":
            dm.invalidate_location(dl.location, dl.path)
        elif ev == "invalidate_parent":
            dm.invalidate_location(dl.location, os.path.dirname(dl.path))
        if ev != "primary" and waited:
            info["changed_while_waited"] += 1
        await spin(case["yields"])
    start("mid")
    await spin(1 + case["yields"])
    for k in case["set_order"]:
        recs[k].available.set()
        await spin(1 + case["yields"])
    # every event is set: pure asyncio code must finish in a bounded number of loop turns
    for _ in range(2000):
        if all(t.done() for t in tasks):
            break
        await asyncio.sleep(0)
    pending = [i for i, t in enumerate(tasks) if not t.done()]
    if pending:
        for t in tasks:
            t.cancel()
        await asyncio.gather(*tasks, return_exceptions=True)
        return {"ob": "G-blocked", "what": "get_source_location still pending after every `available` was set",
                "tasks": pending}, info
    for t in tasks:
        if t.exception() is not None:
            return {"ob": "raised", "exc": type(t.exception()).__name__, "tb": repr(t.exception())[:400]}, info
    return (fails[0] if fails else None), info


# ------------------------------------------------------------------------------------------
# real transfer_data with a gated copy


class Gate:
    installed = False
    entered: asyncio.Event | None = None
    release: asyncio.Event | None = None
    active = False

    @classmethod
    def install(cls):
        if cls.installed:
            return
        cls.installed = True
        from streamflow.data import manager as DM

        orig = DM._copy

        async def _copy(*a, **k):
            if cls.active:
                cls.entered.set()
                await cls.release.wait()
            return await orig(*a, **k)

        _copy.__wrapped__ = orig
        DM._copy = _copy


def gen_transfer(rng, n):
    return {"kind": "transfer", "n": n, "mode": rng.choice(["same", "same", "remote"]), "gets": rng.randint(1, 3),
            "query": rng.choice(["dst", "dst", "src"])}


async def run_transfer(sh, env, case):
    """-> (failure|None, info).  Uses the context's own data manager (StreamFlowPath.resolve consults it)."""
    from streamflow.core.data import DataType

    Gate.install()
    ctx, table = env.ctx, env.table
    dm = ctx.data_manager
    info = {"blocked": 0, "changed_while_waited": 0}
    d = os.path.join(env.root, "x", f"f{case['n']}_{os.getpid()}_{sh.evaluations}")
    os.makedirs(d, exist_ok=True)
    srcp, dstp = os.path.join(d, "src.txt"), os.path.join(d, "out", "dst.txt")
    with open(srcp, "w") as f:
        f.write("payload %s" % case["n"])
    r1, x1 = table[0], table[2]
    dst = r1 if case["mode"] == "same" else x1
    dm.register_path(r1["loc"], srcp)
    fails = []
    Gate.entered, Gate.release, Gate.active = asyncio.Event(), asyncio.Event(), True
    tr = asyncio.ensure_future(dm.transfer_data(r1["loc"], srcp, [dst["loc"]], dstp, writable=False))
    try:
        # wait (real shell I/O: wall-clock watchdog => inconclusive) until the copy is gated and the
        # destination record is registered, PRIMARY and unavailable
        rec = None
        for _ in range(3000):
            if tr.done():
                break
            if Gate.entered.is_set():
                rec = next((x for x in dm.get_data_locations(dstp, dst["key"][0], dst["key"][1])
                            if x.path == dstp and not x.available.is_set()), None)
                if rec is not None:
                    break
            await asyncio.sleep(0.01)
        if rec is None:
            Gate.release.set()
            await asyncio.gather(tr, return_exceptions=True)
            sh.inconclusive_because(f"gated transfer_data did not reach the in-flight state: done={tr.done()} "
                                    f"exc={tr.exception() if tr.done() and not tr.cancelled() else None}"[:600])
            return None, info
        sh.count("transfer_real_gated")
        qpath = dstp if case["query"] == "dst" else srcp

        async def get(idx):
            r = await dm.get_source_location(qpath, dst["key"][0])
            prim = dm.get_data_locations(qpath, data_type=DataType.PRIMARY)
            sh.count("G_inflight")
            if r is None:
                if prim:
                    fails.append({"ob": "G-none-while-primary-exists", "get": idx, "query": case["query"]})
            elif r.data_type != DataType.PRIMARY or not any(r is x for x in prim):
                fails.append({"ob": "G-not-a-valid-primary", "get": idx, "query": case["query"],
                              "got": [(r.deployment, r.name), os.path.basename(r.path), r.data_type.name],
                              "in_flight": r is rec})

        tasks = [asyncio.ensure_future(get(i)) for i in range(case["gets"])]
        for _ in range(5):
            await asyncio.sleep(0)
        info["blocked"] = sum(1 for t in tasks if not t.done())
        Gate.release.set()
        try:
            await asyncio.wait_for(asyncio.gather(tr, *tasks), 120)
        except asyncio.TimeoutError:
            sh.inconclusive_because("gated transfer_data / get_source_location did not finish in 120 s")
            return None, info
        if rec.data_type != DataType.PRIMARY and info["blocked"]:
            info["changed_while_waited"] = 1
        sh.count("transfer_result_" + rec.data_type.name)
        return (fails[0] if fails else None), info
    finally:
        Gate.active = False
        Gate.release.set()
