"""Shared history generator / driver for C10, C11, C12 (and the scheduler segment of C14).

A *case* (JSON) is: a configuration (deployments -> locations with hardware or slots, optional stacked
wrapper levels with bind-mapped storages), job specifications (requirement, directories, targets, files
to write), a history of events and a pace.  The driver runs the history against the REAL
DefaultScheduler of a real StreamFlowContext (retry_delay=0: no timer can mask a lost notification) and
keeps the shadow ledger (vf/models/c10_ledger.py) from boundary events only.  The deciding oracles live
in the check modules (vf/checks/c10.py, c11.py, c12.py) and are passed in as *observers*:

    observer.after_call(run, what)      after every schedule()/notify_status() return
    await observer.at_quiescence(run, tag)   at every provably quiescent point (vf.perturb.settle)
    await observer.at_end(run)               after the history was driven to completion
    observer.on_exception(run, what, e) a scheduler call raised

Events (per job a sequential process, like the engine's steps; processes interleave):
    ["S", j]            start schedule() of job j (blocks until granted)
    ["N", j, STATUS]    notify_status(job j, STATUS) -- issued after j's previous operation returned
Lifecycle the engine can emit (callers of notify_status in workflow/step.py and recovery/failure_manager.py):
    FIREABLE->RUNNING|CANCELLED|FAILED|RECOVERY ; RUNNING->COMPLETED|FAILED|CANCELLED|RECOVERY ;
    FAILED->RECOVERY ; RECOVERY->ROLLBACK ; COMPLETED|FAILED|CANCELLED->ROLLBACK (someone else's recovery) ;
    ROLLBACK->schedule again ; any status may be notified twice (FIREABLE included), one after the other or --
    ["N", j, "COMPLETED*2"] -- as two calls in flight at the same time (asyncio.gather), which race for the
    scheduler lock when another task (a schedule() in the middle of _process_target, another job's release)
    holds it across an await.
"""
from __future__ import annotations

import asyncio
import os
import shutil

from vf.common import digest

LIFECYCLE = {
    "new": {"S": "FIREABLE"},
    "FIREABLE": {"RUNNING": "RUNNING", "CANCELLED": "CANCELLED", "FAILED": "FAILED", "RECOVERY": "RECOVERY",
                 "FIREABLE": "FIREABLE"},
    # "X*2": the same notification issued twice CONCURRENTLY (both calls in flight at once)
    "RUNNING": {"COMPLETED": "COMPLETED", "FAILED": "FAILED", "CANCELLED": "CANCELLED", "RECOVERY": "RECOVERY",
                "RUNNING": "RUNNING", "COMPLETED*2": "COMPLETED", "FAILED*2": "FAILED"},
    "COMPLETED": {"COMPLETED": "COMPLETED", "ROLLBACK": "ROLLBACK"},
    "FAILED": {"FAILED": "FAILED", "ROLLBACK": "ROLLBACK", "RECOVERY": "RECOVERY"},
    "CANCELLED": {"CANCELLED": "CANCELLED", "ROLLBACK": "ROLLBACK"},
    "RECOVERY": {"ROLLBACK": "ROLLBACK", "RECOVERY": "RECOVERY"},
    "ROLLBACK": {"S": "FIREABLE", "ROLLBACK": "ROLLBACK"},
}
STATUSES = ["RUNNING", "COMPLETED", "FAILED", "CANCELLED", "RECOVERY", "ROLLBACK"]
DISK_KEYS = ("out", "tmp", "in")

_registered = {"done": False}


def register():
    """Requirement class and the stacked-location connector (own subclass of ConnectorWrapper)."""
    if _registered["done"]:
        return
    _registered["done"] = True
    import vf.harness.connectors  # noqa: F401  registers vf-hw
    from streamflow.core.scheduling import AvailableLocation, Hardware, Storage
    from streamflow.deployment.connector import connector_classes
    from streamflow.deployment.wrapper import ConnectorWrapper
    from vf.perturb import Sched

    class C10Wrap(ConnectorWrapper):
        """Stacked locations over an inner deployment.  config `locations`:
        {name: {"wraps": inner location name, "cores","memory","disks": {mount point: size},
                "binds": {mount point: inner path}} | {"wraps": ..., "slots": n}}"""

        def __init__(self, deployment_name, config_dir, connector, service=None, locations=None, yields=1,
                     transferBufferSize=65536):
            super().__init__(deployment_name, config_dir, connector, service, transferBufferSize)
            self.locs = locations or {}
            self.yields = yields

        async def get_available_locations(self, service=None):
            inner = await self.connector.get_available_locations(service=self.service)
            Sched.inflight += 1
            try:
                for _ in range(self.yields):
                    await asyncio.sleep(0)
                await Sched.jitter()
            finally:
                Sched.inflight -= 1
            out = {}
            for n, v in self.locs.items():
                hw = None
                if "cores" in v:
                    st = {os.sep: Storage(os.sep, float(v.get("root_size", 1e9)))}
                    for mp, cap in v.get("disks", {}).items():
                        st[mp] = Storage(mp, float(cap), bind=v.get("binds", {}).get(mp))
                    hw = Hardware(cores=float(v["cores"]), memory=float(v["memory"]), storage=st)
                out[n] = AvailableLocation(name=n, deployment=self.deployment_name, service=service,
                                           hostname="localhost", local=True, slots=v.get("slots"),
                                           stacked=True, hardware=hw, wraps=inner[v["wraps"]])
            return out

        @classmethod
        def get_schema(cls) -> str:
            return "{}"

    connector_classes["vf-c10-wrap"] = C10Wrap


def make_req(spec, job_dirs):
    """The requirement object handed to schedule(): like CWLHardwareRequirement, one Storage per
    directory of the job, declared on '/', carrying the directory as its path."""
    from streamflow.core.scheduling import Hardware, HardwareRequirement, Storage

    class Req(HardwareRequirement):
        def __init__(self, cores, memory, disks):
            self.cores, self.memory, self.disks = cores, memory, disks

        @classmethod
        async def _load(cls, row, lc):
            raise NotImplementedError

        async def _save_additional_params(self, db):
            return {}

        def eval(self, job):
            dirs = {"out": job.output_directory, "tmp": job.tmp_directory, "in": job.input_directory}
            return Hardware(cores=self.cores, memory=self.memory,
                            storage={f"__{k}dir__": Storage(os.sep, size, {dirs[k]}) for k, (_, size) in self.disks.items()} or None)

    return Req(float(spec["cores"]), float(spec["memory"]), {k: (job_dirs[k], float(v[1])) for k, v in spec["disks"].items()})


# ------------------------------------------------------------------------------------------------
# environment: one real context per shard, deployments cached per configuration
# ------------------------------------------------------------------------------------------------
class Env:
    def __init__(self, sh):
        self.sh = sh
        self.root = os.path.realpath(os.path.join(sh.scratch, "c10"))
        self.ctx = None
        self.cfgs: dict[str, dict] = {}
        self.case_no = 0

    async def start(self):
        from vf.harness.ctx import make_context

        register()
        os.makedirs(self.root, exist_ok=True)
        self.ctx = make_context(os.path.join(self.root, "ctx"), db="default", scheduler_config={"retry_delay": 0})
        self.sched_cls = type(self.ctx.scheduler)

    async def stop(self):
        from vf.harness.ctx import close_context

        try:
            await close_context(self.ctx)
        except Exception:
            pass
        shutil.rmtree(self.root, ignore_errors=True)

    async def config(self, cfg):
        """Deploy (once) the deployments of `cfg`; returns the materialised configuration:
        absolute mount points, DeploymentConfig objects and the ledger topology."""
        from streamflow.core.deployment import DeploymentConfig, WrapsConfig

        key = digest(cfg, 12)
        if key in self.cfgs:
            return self.cfgs[key]
        if len(self.cfgs) >= 24:  # bound the number of live deployments
            old = next(iter(self.cfgs))
            await self.drop(old)
        croot = os.path.join(self.root, "cfg-" + key)
        os.makedirs(croot, exist_ok=True)

        def ab(rel):
            return croot if rel in ("", ".") else os.path.join(croot, rel)

        mat = {"key": key, "root": croot, "deps": {}, "locs": {}, "dep_locs": {}, "abs": ab}
        for d in cfg["deps"]:
            name = f"{key}-{d['name']}"
            locs_cfg = {}
            for ln, v in d["locs"].items():
                full = f"{key}-{ln}"
                if "cores" in v:
                    disks = {ab(mp): float(c) for mp, c in v.get("disks", {}).items()}
                    for mp in disks:
                        os.makedirs(mp, exist_ok=True)
                    lc = {"cores": v["cores"], "memory": v["memory"], "disks": disks,
                          "root_size": v.get("root", 1e9)}
                    binds = {ab(mp): ab(b) for mp, b in v.get("binds", {}).items()}
                    for b in binds.values():
                        os.makedirs(b, exist_ok=True)
                    if d["kind"] == "wrap":
                        lc["binds"] = binds
                    cap = {"cores": float(v["cores"]), "memory": float(v["memory"]),
                           "st": dict(disks, **{os.sep: float(v.get("root", 1e9))})}
                    spec = {"dep": name, "cap": cap, "slots": None, "binds": binds}
                else:
                    lc = {"slots": v.get("slots")}
                    spec = {"dep": name, "cap": None, "slots": v.get("slots"), "binds": {}}
                if d["kind"] == "wrap":
                    lc["wraps"] = f"{key}-{v['wraps']}"
                    spec["wraps"] = lc["wraps"]
                else:
                    spec["wraps"] = None
                locs_cfg[full] = lc
                mat["locs"][full] = spec
                mat["dep_locs"].setdefault(name, []).append(full)
            if d["kind"] == "wrap":
                dc = DeploymentConfig(name=name, type="vf-c10-wrap", config={"locations": locs_cfg, "yields": d.get("yields", 1)},
                                      external=True, lazy=False, workdir=croot,
                                      wraps=WrapsConfig(deployment=f"{key}-{d['wraps']}"))
            else:
                dc = DeploymentConfig(name=name, type="vf-hw", config={"locations": locs_cfg, "yields": d.get("yields", 1)},
                                      external=True, lazy=False, workdir=croot)
            await self.ctx.deployment_manager.deploy(dc)
            mat["deps"][d["name"]] = dc
        self.cfgs[key] = mat
        return mat

    async def drop(self, key):
        mat = self.cfgs.pop(key)
        for dc in reversed(list(mat["deps"].values())):
            try:
                await self.ctx.deployment_manager.undeploy(dc.name)
            except Exception:
                pass
        shutil.rmtree(mat["root"], ignore_errors=True)


async def settle_fast(max_spins=5000):
    """Drive the loop until it is provably quiescent (vf.perturb.loop_is_quiescent on three consecutive
    turns).  Nothing in these workloads completes on another thread, so no wall-clock wait is needed:
    'in flight' operations of the harness connectors finish after a bounded number of loop turns."""
    from vf import perturb

    loop = asyncio.get_running_loop()
    quiet = 0
    for _ in range(max_spins):
        await asyncio.sleep(0)
        if perturb.loop_is_quiescent(loop):
            quiet += 1
            if quiet >= 3:
                return True
        else:
            quiet = 0
    return await perturb.settle(max_beats=400)


def measure_mib(paths):
    """Usage of directories measured by the harness itself: regular files under os.walk, in MiB."""
    total = 0
    for p in paths:
        if os.path.isfile(p) and not os.path.islink(p):
            total += os.path.getsize(p)
            continue
        for dirpath, _, files in os.walk(p):
            for f in files:
                fp = os.path.join(dirpath, f)
                if not os.path.islink(fp):
                    total += os.path.getsize(fp)
    return total / 2 ** 20


def run_loop(coro):
    """Like asyncio.run, but without its final 'cancel every task and wait for it': a scheduler task that
    cannot be cancelled (see Run.cleanup) must not keep the worker alive -- the worker exits with os._exit."""
    loop = asyncio.new_event_loop()
    asyncio.set_event_loop(loop)
    return loop.run_until_complete(coro)


def short_msg(e):
    m = str(e)
    return m if len(m) <= 400 else m[:200] + " ... " + m[-200:]


def has_shared_inner(locs):
    seen = set()
    for v in locs.values():
        if v["wraps"] is not None:
            k = (v["dep"], v["wraps"])
            if k in seen:
                return True
            seen.add(k)
    return False


class NullObserver:
    def after_call(self, run, what):
        pass

    async def at_quiescence(self, run, tag):
        pass

    async def at_end(self, run):
        pass

    def on_exception(self, run, what, exc):
        pass


# ------------------------------------------------------------------------------------------------
# one execution
# ------------------------------------------------------------------------------------------------
class Run:
    def __init__(self, env, case, mat, observer):
        from vf.models.c10_ledger import Ledger, MergedLedger

        self.env, self.case, self.mat, self.obs = env, case, mat, observer
        exact = case.get("values", "int") != "decimal"
        self.ledger = Ledger(mat["locs"], exact=exact)
        # classification-only model of the merged-requirement mechanism (see MergedLedger)
        self.merged = MergedLedger(mat["locs"], exact=exact) if has_shared_inner(mat["locs"]) else None
        self.sch = env.sched_cls(env.ctx, retry_delay=0)
        env.ctx.scheduler = self.sch
        self.no = env.case_no
        self.names = [f"/st{j % 2}/0.{j}" for j in range(len(case["jobs"]))]
        self.attempt = [0] * len(case["jobs"])
        self.chain: dict[int, asyncio.Task] = {}
        self.pending: dict[int, dict] = {}     # job index -> info of the schedule() call in flight
        self.reqs: dict[int, dict] = {}        # job index -> ledger requirement of the current attempt
        self.exceptions: list = []
        self.exc_charges: list = []            # charges of the allocation whose notification raised
        self.last_alloc: dict = {}             # job index -> JobAllocation object of its latest grant
        self.in_notify: dict = {}              # job index -> status of the notify_status() call in flight
        self.stuck_notifies = 0
        self.trace: list = []                  # boundary events in the order they happened
        self.skipped = 0
        self.jobdirs: list = []
        self.stats = {"quiescent_points": 0, "calls": 0, "granted": 0, "released": 0}

    # -- job material ---------------------------------------------------------------------
    def dirs_for(self, j):
        spec = self.case["jobs"][j]
        base = os.path.join("jobs", f"c{self.no}", f"j{j}a{self.attempt[j]}")
        dirs = {}
        for k in DISK_KEYS:
            rel = spec["disks"][k][0] if k in spec["disks"] else spec.get("workbase", "")
            dirs[k] = os.path.join(self.mat["abs"](rel), base, k)
        return dirs

    def ledger_req(self, j, dirs):
        spec = self.case["jobs"][j]
        return {"cores": float(spec["cores"]), "memory": float(spec["memory"]),
                "disks": [(dirs[k], float(v[1]), k) for k, v in spec["disks"].items()]}

    def populate(self, j):
        """Write the job's files in its directories -- at every level the directory is visible
        (a bind mount shows the same files at the inner path)."""
        spec = self.case["jobs"][j]
        jl = self.ledger.jobs[self.names[j]]
        for _, _, paths in jl["charges"]:
            for ps in paths.values():
                for path, tag in ps:
                    if not spec.get("files", {}).get(tag):
                        continue  # an empty directory and a missing one measure the same
                    os.makedirs(path, exist_ok=True)
                    for i, size in enumerate(spec.get("files", {}).get(tag, [])):
                        sub = os.path.join(path, "sub") if i == 2 else path
                        os.makedirs(sub, exist_ok=True)
                        with open(os.path.join(sub, f"f{i}"), "wb") as f:
                            f.write(b"\0" * int(size))
                    self.jobdirs.append(path)

    # -- operations (each is one boundary-observed call) -----------------------------------
    async def op_schedule(self, j):
        from streamflow.core.config import BindingConfig
        from streamflow.core.deployment import Target
        from streamflow.core.workflow import Job

        name = self.names[j]
        st = self.ledger.status(name)
        if j in self.pending or st in ("FIREABLE", "RUNNING"):
            self.skipped += 1
            return
        spec = self.case["jobs"][j]
        self.attempt[j] += 1
        dirs = self.dirs_for(j)
        req = make_req(spec, dirs)
        lreq = self.ledger_req(j, dirs)
        targets = [Target(deployment=self.mat["deps"][d], locations=n, workdir=self.mat["root"]) for d, n in spec["targets"]]
        job = Job(name, 1, {}, dirs["in"], dirs["out"], dirs["tmp"])
        self.pending[j] = {"req": lreq, "targets": spec["targets"], "job": job, "hwreq": req, "target_objs": targets}
        self.trace.append(("call", "S", j))
        try:
            await self.sch.schedule(job, BindingConfig(targets=targets), req)
        except asyncio.CancelledError:
            raise
        except Exception as e:
            self.pending.pop(j, None)
            self.exceptions.append(("schedule", j, type(e).__name__, short_msg(e)))
            self.trace.append(("raise", "S", j, type(e).__name__))
            self.obs.on_exception(self, ("schedule", j), e)
            return
        self.pending.pop(j, None)
        alloc = self.sch.job_allocations.get(name)
        if alloc is None or alloc is self.last_alloc.get(j):
            # schedule() came back but no (new) JobAllocation exists: the request was dropped
            e = RuntimeError("schedule() returned without allocating the job")
            self.exceptions.append(("schedule", j, "NotAllocated", str(e)))
            self.trace.append(("raise", "S", j, "NotAllocated"))
            self.obs.on_exception(self, ("schedule", j), e)
            return
        self.last_alloc[j] = alloc
        locs = [l.name for l in alloc.locations]
        self.ledger.on_scheduled(name, locs, lreq, attempt=self.attempt[j])
        if self.merged is not None:
            self.merged.on_scheduled(name, locs, lreq, attempt=self.attempt[j])
        self.reqs[j] = lreq
        self.stats["calls"] += 1
        self.stats["granted"] += 1
        self.trace.append(("ret", "S", j, locs))
        self.obs.after_call(self, ("schedule", j))

    async def op_notify(self, j, status, lifecycle_only=True):
        from streamflow.core.workflow import Status

        name = self.names[j]
        cur = self.ledger.status(name)
        if cur is None or j in self.pending:
            self.skipped += 1
            return
        if lifecycle_only and status not in LIFECYCLE[cur]:
            self.skipped += 1
            return
        copies = 1
        if "*" in status:
            status, n = status.split("*")
            copies = int(n)
        if status == "RUNNING" and cur == "FIREABLE":
            self.populate(j)
        self.trace.append(("call", "N", j, status) if copies == 1 else ("call", "N", j, status, f"x{copies}"))
        self.in_notify[j] = status
        try:
            if copies == 1:
                await self.sch.notify_status(name, Status[status])
            else:
                self.stats["concurrent_duplicates"] = self.stats.get("concurrent_duplicates", 0) + 1
                res = await asyncio.gather(*(asyncio.create_task(self.sch.notify_status(name, Status[status]))
                                             for _ in range(copies)), return_exceptions=True)
                for r in res:
                    if isinstance(r, asyncio.CancelledError):
                        raise r
                for r in res:
                    if isinstance(r, Exception):
                        raise r
        except asyncio.CancelledError:
            raise
        except Exception as e:
            self.in_notify.pop(j, None)
            self.exceptions.append(("notify", j, status, type(e).__name__, short_msg(e)))
            jl = self.ledger.jobs[name]
            self.exc_charges.append({"job": j, "charges": [(ln, dict(ch)) for ln, ch, _ in jl["charges"]],
                                     "disk_total": sum(x[1] for x in jl["req"]["disks"])})
            self.trace.append(("raise", "N", j, status, type(e).__name__))
            # the engine's view: the notification was sent
            if self.ledger.on_status(name, status, lambda ps: measure_mib([p for p, _ in ps])):
                self.stats["released"] += 1
            if self.merged is not None:
                self.merged.on_status(name, status, lambda ps: measure_mib([p for p, _ in ps]))
            self.obs.on_exception(self, ("notify", j, status), e)
            return
        self.in_notify.pop(j, None)
        if self.ledger.on_status(name, status, lambda ps: measure_mib([p for p, _ in ps])):
            self.stats["released"] += 1
        if self.merged is not None:
            self.merged.on_status(name, status, lambda ps: measure_mib([p for p, _ in ps]))
        self.stats["calls"] += 1
        self.trace.append(("ret", "N", j, status))
        self.obs.after_call(self, ("notify", j, status))

    def issue(self, j, fn):
        prev = self.chain.get(j)

        async def seq():
            if prev is not None:
                try:
                    await prev
                except asyncio.CancelledError:
                    raise
                except Exception:
                    pass
            await fn()

        self.chain[j] = asyncio.create_task(seq())

    async def quiesce(self, tag):
        from vf import perturb

        ok = await settle_fast()
        if not ok:
            return False
        self.stats["quiescent_points"] += 1
        if self.in_notify:
            # the loop is quiescent while notify_status() has not returned: nothing can ever complete it
            self.stuck_notifies += 1
            hook = getattr(self.obs, "on_deadlock", None)
            if hook is not None:
                hook(self, dict(self.in_notify))
        await self.obs.at_quiescence(self, tag)
        return True

    def idle_active(self):
        return [j for j, n in enumerate(self.names)
                if self.ledger.status(n) in ("FIREABLE", "RUNNING") and (j not in self.chain or self.chain[j].done())]

    async def real_valid_count(self, j):
        """Cross-check for C12: how many locations of each target the real `_is_valid` accepts now."""
        info = self.pending[j]
        out = {}
        job_hw = info["hwreq"].eval(info["job"])
        for t in info["target_objs"]:
            conn = self.env.ctx.deployment_manager.get_connector(t.deployment.name)
            n = 0
            for loc in (await conn.get_available_locations(service=t.service)).values():
                try:
                    reqs = await self.sch._resolve_hardware_requirement(conn, loc, job_hw)
                    if self.sch._is_valid(connector=conn, location=loc, hardware_requirements=reqs, job_name=info["job"].name):
                        n += 1
                except Exception as e:
                    out.setdefault("errors", []).append(f"{type(e).__name__}: {str(e)[:120]}")
            out[t.deployment.name] = n
        return out

    async def execute(self, rng):
        case = self.case
        pace = case.get("pace", "q")
        ool = case.get("class", "life") == "ool"
        for ev in case["events"]:
            if ev[0] == "S":
                self.issue(ev[1], lambda j=ev[1]: self.op_schedule(j))
            else:
                self.issue(ev[1], lambda j=ev[1], s=ev[2]: self.op_notify(j, s, lifecycle_only=not ool))
            if pace == "q":
                if not await self.quiesce("event"):
                    return "not-quiescent"
            elif pace == "r":
                for _ in range(rng.randint(0, 6)):
                    await asyncio.sleep(0)
        if not await self.quiesce("issued"):
            return "not-quiescent"
        # drive to completion: advance idle active jobs until none is left
        order = case.get("drain", "fifo")
        for _ in range(40 * max(1, len(case["jobs"]))):
            idle = self.idle_active()
            if not idle:
                break
            j = idle[0] if order == "fifo" else (idle[-1] if order == "lifo" else rng.choice(idle))
            st = self.ledger.status(self.names[j])
            nxt = "RUNNING" if st == "FIREABLE" else case.get("drain_status", "COMPLETED")
            self.issue(j, lambda j=j, s=nxt: self.op_notify(j, s))
            if not await self.quiesce("drain"):
                return "not-quiescent"
        else:
            return "drain-did-not-finish"
        await self.obs.at_end(self)
        return "done"

    async def cleanup(self):
        """Cancel what the run left behind.  Bounded: a task that swallows cancellation (asyncio.Condition.wait
        re-acquiring a lock nobody will ever release) is abandoned, never awaited forever."""
        cur = asyncio.current_task()
        tasks = [t for t in self.chain.values() if not t.done()]
        # stray _process_target tasks of finished schedule() calls wait on the condition: cancel them too
        tasks += [t for t in asyncio.all_tasks() if t is not cur and not t.done() and t not in tasks
                  and getattr(t.get_coro(), "__qualname__", "").startswith("DefaultScheduler.")]
        for t in tasks:
            t.cancel()
        for _ in range(200):
            if all(t.done() for t in tasks):
                break
            await asyncio.sleep(0)
        self.abandoned = sum(1 for t in tasks if not t.done())
        for t in tasks:
            if t.done() and not t.cancelled():
                t.exception()  # retrieved: keeps asyncio from logging it at garbage collection
        shutil.rmtree(os.path.join(self.mat["root"], "jobs", f"c{self.no}"), ignore_errors=True)
        for p in set(self.jobdirs):
            # job directories live under the mount points: jobs/c<no>/... below each base
            i = p.find(os.path.join("jobs", f"c{self.no}"))
            if i > 0:
                shutil.rmtree(p[: i + len(os.path.join("jobs", f"c{self.no}"))], ignore_errors=True)


async def run_case(env: Env, case, observer):
    """Run one case; returns the Run (ledger, trace, stats, outcome)."""
    from vf import perturb
    from vf.common import rng_for

    mat = await env.config(case["cfg"])
    env.case_no += 1
    perturb.Sched.reset(case.get("seed", 0), K=case.get("K", 3))
    run = Run(env, case, mat, observer)
    rng = rng_for("c10-run", case.get("seed", 0))
    try:
        run.outcome = await run.execute(rng)
    finally:
        await run.cleanup()
    return run


# ------------------------------------------------------------------------------------------------
# generators
# ------------------------------------------------------------------------------------------------
def enumerate_histories(njobs, max_len, dups=True, min_len=1):
    """All event sequences of length min_len..max_len over `njobs` jobs that follow the lifecycle
    (job ids introduced in order).  Yields lists of events."""
    def rec(states, seq, used):
        if len(seq) >= min_len:
            yield list(seq)
        if len(seq) == max_len:
            return
        for j in range(min(used + 1, njobs)):
            for a, ns in LIFECYCLE[states[j]].items():
                if not dups and (ns == states[j] or "*" in a):
                    continue
                s2 = list(states)
                s2[j] = ns
                seq.append(["S", j] if a == "S" else ["N", j, a])
                yield from rec(s2, seq, max(used, j + 1))
                seq.pop()
    yield from rec(["new"] * njobs, [], 0)


def hw_loc(cores, memory, disks, root=1e9):
    return {"cores": cores, "memory": memory, "disks": disks, "root": root}


# small configurations for the bounded-exhaustive part: name -> (cfg, job specs).  Requests
# oversubscribe: j0 takes the whole location, j1/j2 half of it.
def small_scopes():
    J = lambda c, m, disks, targets, files=None: {"cores": c, "memory": m, "disks": disks, "targets": targets,
                                                    "files": files or {}, "workbase": ""}
    scopes = {}
    one = {"deps": [{"name": "d0", "kind": "hw", "locs": {"l0": hw_loc(2, 100, {"m1": 10})}}]}
    scopes["1hw"] = (one, [
        J(2, 100, {"out": ["m1", 10.0]}, [["d0", 1]], {"out": [100000]}),
        J(1, 50, {"out": ["m1", 4.0], "tmp": ["m1", 1.0]}, [["d0", 1]], {"out": [150000], "tmp": [1000]}),
        J(1, 50, {"tmp": ["", 5.0]}, [["d0", 1]], {"tmp": [12345]}),
    ])
    # contention on a mount point only: cores and memory would admit all three jobs
    disk = {"deps": [{"name": "d0", "kind": "hw", "locs": {"l0": hw_loc(4, 100, {"m1": 10})}}]}
    scopes["1hw-disk"] = (disk, [
        J(1, 10, {"out": ["m1", 6.0]}, [["d0", 1]], {"out": [100000]}),
        J(1, 10, {"out": ["m1", 3.0], "tmp": ["m1", 3.0]}, [["d0", 1]], {"tmp": [2000]}),
        J(1, 10, {"in": ["m1", 4.0], "tmp": ["", 9.0]}, [["d0", 1]], {"in": [524288]}),
    ])
    scopes["1slot"] = ({"deps": [{"name": "d0", "kind": "hw", "locs": {"l0": {"slots": 1}}}]}, [
        J(1, 1, {}, [["d0", 1]]), J(1, 1, {}, [["d0", 1]]), J(1, 1, {}, [["d0", 1]])])
    scopes["2slot"] = ({"deps": [{"name": "d0", "kind": "hw", "locs": {"l0": {"slots": 2}}}]}, [
        J(1, 1, {}, [["d0", 1]]), J(1, 1, {}, [["d0", 1]]), J(1, 1, {}, [["d0", 1]])])
    two = {"deps": [{"name": "d0", "kind": "hw", "locs": {"l0": hw_loc(2, 100, {"m1": 10}), "l1": hw_loc(1, 100, {"m1": 10})}}]}
    scopes["2hw"] = (two, [
        J(1, 60, {"out": ["m1", 6.0]}, [["d0", 2]], {"out": [200000]}),
        J(1, 50, {"out": ["m1", 5.0]}, [["d0", 1]], {"out": [100000]}),
        J(2, 40, {"tmp": ["m1", 4.0]}, [["d0", 1]], {"tmp": [4096]}),
    ])
    twodep = {"deps": [{"name": "d0", "kind": "hw", "locs": {"l0": hw_loc(1, 100, {"m1": 10})}},
                       {"name": "d1", "kind": "hw", "locs": {"k0": {"slots": 1}}}]}
    scopes["2dep"] = (twodep, [
        J(1, 100, {"out": ["m1", 8.0]}, [["d0", 1], ["d1", 1]], {"out": [100000]}),
        J(1, 10, {"out": ["m1", 8.0]}, [["d1", 1], ["d0", 1]], {"out": [100]}),
        J(1, 10, {}, [["d0", 1]]),
    ])
    wrap = {"deps": [{"name": "d0", "kind": "hw", "locs": {"l0": hw_loc(2, 100, {"m1": 10})}},
                     {"name": "w0", "kind": "wrap", "wraps": "d0",
                      "locs": {"o0": dict(hw_loc(2, 80, {"om": 8}), binds={"om": "m1/b"}, wraps="l0")}}]}
    # job 0 sits on the inner location directly, jobs 1 and 2 come through the wrapper: the outer location
    # alone would admit job 1 (2 of 2 cores) while the inner one has only 1 core left
    scopes["wrap"] = (wrap, [
        J(1, 50, {"out": ["m1", 5.0]}, [["d0", 1]], {"out": [524288]}),
        J(2, 80, {"out": ["om", 8.0]}, [["w0", 1]], {"out": [100000]}),
        J(1, 40, {"out": ["om", 4.0], "tmp": ["", 1.0]}, [["w0", 1]], {"out": [5000], "tmp": [70]}),
    ])
    return scopes


VALUES = {
    # integers: every sum is exact
    "int": {"cores": [1, 2, 4], "memory": [100, 200], "disk": [10, 20], "rc": [0.5, 1, 2], "rm": [10, 50, 100], "rd": [1, 5, 10]},
    # dyadic fractions: still exact in binary floating point
    "dyadic": {"cores": [1, 1.5, 4], "memory": [100, 200.5], "disk": [1.0, 2.5, 10], "rc": [0.125, 0.25, 0.75, 1],
               "rm": [0.5, 10.25, 50, 99.75], "rd": [0.125, 0.25, 0.375, 0.75, 1.125, 2.5]},
    # decimal fractions: sums round (0.1 + 0.7 - 0.7 - 0.1 != 0)
    "decimal": {"cores": [1, 1.5, 4], "memory": [100, 200.5], "disk": [1.0, 2.5, 10], "rc": [0.1, 0.25, 0.7, 1],
                "rm": [0.1, 10.3, 50, 99.9], "rd": [0.1, 0.2, 0.3, 0.7, 1.1, 2.5]},
}


def gen_config(rng, stacked=True, values="int", bind_over_slots=False, shared_inner=False, max_levels=2):
    """1..3 deployments x 1..3 locations, hardware (1..3 mount points) or slots, wrapper levels 0..2.
    `bind_over_slots`: allow an outer location with bound storages on an inner location that gives no
    hardware information (kept out of the main domain: see C12/bind-over-hardwareless-inner)."""
    V = VALUES[values]
    deps = []
    mounts_all = ["m1", "m2", "m3"]
    nd = rng.randint(1, 3)
    for d in range(nd):
        locs = {}
        mps = rng.sample(mounts_all, rng.randint(1, 3))
        hw_kind = rng.random() < 0.7  # a deployment's locations are all of one kind (as with every shipped connector)
        for l in range(rng.randint(1, 3)):
            if hw_kind:
                locs[f"d{d}l{l}"] = hw_loc(rng.choice(V["cores"]), rng.choice(V["memory"]),
                                           {m: rng.choice(V["disk"]) for m in mps},
                                           root=rng.choice([1e9, 1e9, 20]))
            else:
                locs[f"d{d}l{l}"] = {"slots": rng.choice([None, 1, 2, 3])}
        deps.append({"name": f"d{d}", "kind": "hw", "locs": locs, "yields": rng.randint(0, 2)})
    if stacked:
        # wrapper levels: each outer location wraps ONE distinct inner location (1:1)
        for lvl in range(min(max_levels, rng.choice([1, 1, 2] if (shared_inner or bind_over_slots) else [0, 1, 1, 2]))):
            inner = rng.choice(deps)
            inner_locs = list(inner["locs"].items())
            rng.shuffle(inner_locs)
            locs = {}
            wname = f"w{len(deps)}"
            w_hw = rng.random() < 0.8
            # one mount table (names and bind targets) for the whole wrapper deployment; capacities vary
            first = inner_locs[0][1]
            targets = list(first.get("disks", {})) if "cores" in first else []
            table = {}
            for k in range(rng.randint(0, 2)):
                om = f"{wname}m{k}"
                if targets and rng.random() < 0.8:
                    table[om] = f"{rng.choice(targets)}/b{wname}{k}"
                elif rng.random() < 0.5 and ("cores" in first or bind_over_slots):
                    table[om] = f"unmounted/b{wname}{k}"  # bound into the inner root file system
                else:
                    table[om] = None  # storage private to the outer location
            chosen = inner_locs[: rng.randint(1, len(inner_locs))]
            if shared_inner:  # several outer locations on ONE inner location (docker-compose services on a host)
                chosen = [inner_locs[0]] * rng.randint(2, 3)
            for i, (iname, ispec) in enumerate(chosen):
                if w_hw:
                    disks = {om: rng.choice(V["disk"]) for om in table}
                    binds = {om: b for om, b in table.items() if b is not None}
                    locs[f"{wname}o{i}"] = dict(hw_loc(rng.choice(V["cores"]), rng.choice(V["memory"]), disks,
                                                       root=rng.choice([1e9, 20])), binds=binds, wraps=iname)
                else:
                    locs[f"{wname}o{i}"] = {"slots": rng.choice([None, 1, 2]), "wraps": iname}
            deps.append({"name": wname, "kind": "wrap", "wraps": inner["name"], "locs": locs, "yields": rng.randint(0, 2)})
    return {"deps": deps}


def path_bases(cfg):
    bases = {""}
    for d in cfg["deps"]:
        for v in d["locs"].values():
            bases.update(v.get("disks", {}))
    return sorted(bases)


def gen_jobs(rng, cfg, njobs, values="int", multi=True, single_target=False):
    V = VALUES[values]
    bases = path_bases(cfg)
    jobs = []
    for j in range(njobs):
        tdeps = rng.sample(cfg["deps"], 1 if single_target else rng.randint(1, min(2, len(cfg["deps"]))))
        targets = []
        for d in tdeps:
            nl = 2 if (multi and len(d["locs"]) >= 2 and rng.random() < 0.25) else 1
            targets.append([d["name"], nl])
        # directories preferably on mount points the first target knows
        known = sorted({m for v in tdeps[0]["locs"].values() for m in v.get("disks", {})}) or bases
        disks, files = {}, {}
        for k in rng.sample(DISK_KEYS, rng.randint(0, 3)):
            base = rng.choice(known) if rng.random() < 0.8 else rng.choice(bases)
            disks[k] = [base, rng.choice(V["rd"])]
            # a job keeps within its reservation: the files of a directory never exceed the reserved size
            files[k], room = [], int(disks[k][1] * 2 ** 20)
            for _ in range(rng.randint(0, 3)):
                size = min(room, rng.choice([0, 1, 999, 4096, 65536, 100000, 1 << 19]))
                files[k].append(size)
                room -= size
        jobs.append({"cores": rng.choice(V["rc"]), "memory": rng.choice(V["rm"]), "disks": disks,
                     "targets": targets, "files": files, "workbase": rng.choice(bases)})
    return jobs


def gen_events(rng, njobs, nev, dup_p=0.15):
    """A random lifecycle history (per-job automaton), biased towards progress."""
    states = ["new"] * njobs
    ev = []
    for _ in range(nev):
        j = rng.randrange(njobs)
        opts = LIFECYCLE[states[j]]
        acts = list(opts)
        w = []
        for a in acts:
            if a == "S":
                w.append(6)
            elif opts[a] == states[j] or "*" in a:
                w.append(10 * dup_p)
            elif a in ("RUNNING", "COMPLETED"):
                w.append(4)
            else:
                w.append(1)
        a = rng.choices(acts, w)[0]
        states[j] = opts[a]
        ev.append(["S", j] if a == "S" else ["N", j, a])
    return ev


def gen_ool_events(rng, njobs, nev):
    """Out-of-lifecycle class: arbitrary notifications (e.g. RUNNING after a terminal status)."""
    ev = [["S", j] for j in range(njobs)]
    for _ in range(nev):
        j = rng.randrange(njobs)
        ev.append(["S", j] if rng.random() < 0.15 else ["N", j, rng.choice(STATUSES + ["FIREABLE"])])
    return ev


def gen_case(rng, quick=True, values=None, stacked=None, cls="main"):
    """Classes of generated cases:
      main            lifecycle histories; integer or dyadic quantities; wrapper locations 1:1 over inner ones
      decimal         as main with decimal fractions (0.1, 0.7 ...): float sums round
      shared_inner    one wrapper level whose 2..3 outer locations sit on ONE inner location; single-location targets
      bind_over_slots outer locations with bound storages over an inner location without hardware information
      ool             out-of-lifecycle notifications (e.g. RUNNING after a terminal status): recorded, never judged
    """
    if values is None:
        values = "decimal" if cls == "decimal" else rng.choice(["int", "int", "dyadic"])
    if stacked is None:
        stacked = True if cls in ("shared_inner", "bind_over_slots") else rng.random() < 0.5
    cfg = gen_config(rng, stacked=stacked, values=values, bind_over_slots=cls == "bind_over_slots",
                     shared_inner=cls == "shared_inner", max_levels=1 if cls == "shared_inner" else 2)
    njobs = rng.randint(2, 12 if not quick else 8)
    jobs = gen_jobs(rng, cfg, njobs, values=values, multi=cls != "shared_inner", single_target=cls == "bind_over_slots")
    if cls == "ool":
        events = gen_ool_events(rng, njobs, rng.randint(njobs, njobs * 4))
    else:
        events = gen_events(rng, njobs, rng.randint(njobs, njobs * 5))
    return {"cfg": cfg, "values": values, "jobs": jobs, "events": events,
            "pace": rng.choice(["q", "r", "r", "0"]), "seed": rng.randrange(1 << 30),
            "drain": rng.choice(["fifo", "lifo", "rand"]),
            "drain_status": rng.choice(["COMPLETED", "COMPLETED", "FAILED", "CANCELLED"]),
            "class": cls}


def exhaustive_cases(quick=True):
    """Bounded-exhaustive part: every lifecycle history of <= L events over <= 3 jobs on the small
    configurations of small_scopes() (1-2 locations), quiescing after every event, plus the same
    histories issued with no pause at all (maximal overlap) for the shorter ones.
    quick:    L = 5 (3 jobs) on all 7 scopes, L = 6 (2 jobs, no duplicated notification) on 2 scopes;
    thorough: L = 6 (3 jobs) on all 7 scopes, L = 7 (3 jobs, no duplicated notification) on 3 scopes."""
    scopes = small_scopes()
    if quick:
        plans = [(3, 1, 5, "q", True), (3, 1, 4, "0", True)]
    else:
        plans = [(3, 1, 6, "q", True), (3, 1, 5, "0", True), (3, 1, 5, "r", True)]
    for name, (cfg, jobs) in scopes.items():
        if quick:
            # 6-event histories of two jobs (without duplicated notifications) on the two one-location scopes
            extra = [(2, 6, 6, "q", False)] if name in ("1hw", "1slot") else []
        else:
            # every 7-event history of three jobs (without duplicated notifications) on three of the scopes
            extra = [(3, 7, 7, "q", False)] if name in ("1hw", "1slot", "wrap") else []
        for njobs, lo, hi, pace, dups in plans + extra:
            for ev in enumerate_histories(njobs, hi, dups=dups, min_len=lo):
                yield {"cfg": cfg, "values": "int", "jobs": jobs, "events": ev, "pace": pace, "seed": len(ev),
                       "drain": "fifo", "drain_status": "COMPLETED", "class": "main", "scope": name}


def case_key(case):
    return digest({k: case[k] for k in ("cfg", "jobs", "events", "pace", "drain") if k in case}, 16)


# ------------------------------------------------------------------------------------------------
# used by C14: run histories with no oracle but the installed contracts
# ------------------------------------------------------------------------------------------------
def run_histories_for_contracts(sh, n):
    async def main():
        env = Env(sh)
        await env.start()
        try:
            rng = sh.rng("c14-sched", sh.shard)
            for i in range(n):
                if i >= max(8, n // 5) and sh.out_of_budget():  # a floor that does not depend on the machine load
                    break
                case = gen_case(rng, quick=True)
                run = await run_case(env, case, NullObserver())
                sh.count("sched_histories")
                sh.count("sched_calls", run.stats["calls"])
        finally:
            await env.stop()

    run_loop(main())


# ------------------------------------------------------------------------------------------------
# the loop shared by the three checks: each check passes its own observer factory (its oracle)
# ------------------------------------------------------------------------------------------------
def drive(sh, observer_factory, classes, reps=2, exhaustive=True, replay_case=None):
    """Runs the bounded-exhaustive part (sharded) and then random cases of the given `classes`
    ([(class name, weight)]) until the soft budget is spent.  Every random program is executed `reps`
    times under different paces / jitter seeds (distinct interleavings are counted through the hash of
    the boundary-event trace).  `observer_factory(sh, case)` returns the observer; after the run its
    `finish(run)` reports to the Shard."""
    from vf.models import c14_hw

    async def one(env, case, traces):
        obs = observer_factory(sh, case)
        try:
            run = await run_case(env, case, obs)
        except Exception as e:  # harness failure, never a verdict
            from vf.common import short_tb
            sh.inconclusive_because("harness error on a case: " + short_tb(e))
            sh.count("harness_errors")
            return None
        if run.outcome != "done":
            sh.count("runs_" + run.outcome)
        sh.count("runs")
        sh.count("scheduler_calls", run.stats["calls"])
        sh.count("quiescent_points", run.stats["quiescent_points"])
        sh.count("grants", run.stats["granted"])
        sh.count("releases", run.stats["released"])
        if run.stats.get("concurrent_duplicates"):
            sh.count("concurrent_duplicate_notifications", run.stats["concurrent_duplicates"])
        if run.stuck_notifies:
            sh.count("runs_with_notify_status_stuck_at_quiescence")
        if getattr(run, "abandoned", 0):
            sh.count("uncancellable_scheduler_tasks", run.abandoned)
        traces.add(digest(run.trace, 12))
        obs.finish(run)
        return run

    async def main():
        env = Env(sh)
        await env.start()
        c14_hw.install(sh.count)
        c14_hw.MODE["raise"] = False
        del c14_hw.FAILURES[:]
        traces: set = set()
        multi = {"programs": 0, "with_2plus_interleavings": 0}
        by_class: dict = {}
        try:
            if replay_case is not None:
                await one(env, replay_case, traces)
                return
            if exhaustive and not os.environ.get("VF_C10_DEV_NO_EXHAUSTIVE"):  # (development switch)
                done_all = True
                for idx, case in enumerate(exhaustive_cases(sh.quick())):
                    if not sh.mine(idx):
                        continue
                    await one(env, case, traces)  # bounded by construction: never cut by the soft budget
                    sh.count("exhaustive_cases")
                sh.note("exhaustive_part_completed", done_all)
            rng = sh.rng("random", sh.shard)
            names = [c for c, _ in classes]
            weights = [w for _, w in classes]
            i = 0
            floor = sh.pick(40, 400)  # programs run whatever the machine load did to the soft budget
            while i < floor or not sh.out_of_budget():
                cls = rng.choices(names, weights)[0]
                case = gen_case(rng, quick=sh.quick(), cls=cls)
                local: set = set()
                for r in range(reps):
                    c = dict(case)
                    if r:
                        c["pace"] = "r"
                        c["seed"] = case["seed"] + r
                        c["K"] = 5
                    await one(env, c, local)
                multi["programs"] += 1
                multi["with_2plus_interleavings"] += len(local) > 1
                traces |= local
                by_class[cls] = by_class.get(cls, 0) + 1
                i += 1
                if sh.quick() and i >= 4000:
                    break
        finally:
            sh.note("distinct_boundary_traces", len(traces))
            sh.note("random_programs", dict(multi, by_class=by_class))
            if c14_hw.FAILURES:
                sh.note("c14_law_failures_seen", c14_hw.FAILURES[:3])
            await env.stop()

    run_loop(main())


def summarize(run, limit=14):
    """Compact, JSON-able picture of one real execution for the evidence file."""
    return {"class": run.case.get("class"), "scope": run.case.get("scope"), "pace": run.case.get("pace"),
            "events": run.case["events"][:20], "trace_tail": [list(map(str, t)) for t in run.trace[-limit:]],
            "stats": run.stats, "ledger_end": run.ledger.snapshot()["jobs"]}
