"""Harness connectors registered in StreamFlow's own plug-in registry (no containers needed).

vf-shell  VfShellRemoteConnector(BaseConnector): `local=False` locations executed through the
          *inherited* BaseConnector code (persistent `sh` shell, tar-stream copies).  Like every
          shipped subclass (ContainerConnector, SSH, Kubernetes) it wraps the non-shell `run`
          fallback and the stream readers/writers in a shell (`sh -c ...`); the bare BaseConnector
          stream methods `exec` the words without a shell, which no shipped connector relies on.
vf-hw     VfHardwareConnector(LocalConnector): configurable AvailableLocations (hardware or slots).
vf-wrap   VfWrapper(ConnectorWrapper): stacked locations over an inner deployment with `mounts`;
          bind mounts are emulated by symlinks so that get_inner_path's mapping is true on disk.
"""
from __future__ import annotations

import asyncio
import base64
import os
import shlex
from collections.abc import MutableMapping, MutableSequence

from streamflow.core import utils
from streamflow.core.deployment import ExecutionLocation
from streamflow.core.scheduling import AvailableLocation, Hardware, Storage
from streamflow.deployment.connector import connector_classes
from streamflow.deployment.connector.base import (
    BaseConnector,
    SubprocessStreamReaderWrapperContextManager,
    SubprocessStreamWriterWrapperContextManager,
)
from streamflow.deployment.connector.local import LocalConnector
from streamflow.deployment.wrapper import ConnectorWrapper

from vf.perturb import Sched


class VfShellRemoteConnector(BaseConnector):
    def __init__(self, deployment_name, config_dir, locations=None, slots=8, transferBufferSize=65536):
        super().__init__(deployment_name, config_dir, transferBufferSize)
        self.location_names = list(locations or ["r1"])
        self.slots = slots
        self.run_log = []  # (kind, command words) — harness-side call record

    async def deploy(self, external: bool) -> None:
        pass

    async def get_available_locations(self, service=None):
        return {
            n: AvailableLocation(name=n, deployment=self.deployment_name, service=service,
                                 hostname="localhost", local=False, slots=self.slots)
            for n in self.location_names
        }

    @classmethod
    def get_schema(cls) -> str:
        return "{}"

    async def get_stream_reader(self, command, location):
        enc = base64.b64encode(" ".join(command).encode()).decode()
        return SubprocessStreamReaderWrapperContextManager(
            coro=asyncio.create_subprocess_exec(
                "sh", "-c", f"eval $(echo {enc} | base64 -d)",
                stdin=asyncio.subprocess.DEVNULL, stdout=asyncio.subprocess.PIPE, stderr=asyncio.subprocess.PIPE))

    async def get_stream_writer(self, command, location):
        enc = base64.b64encode(" ".join(command).encode()).decode()
        return SubprocessStreamWriterWrapperContextManager(
            coro=asyncio.create_subprocess_exec(
                "sh", "-c", f"eval $(echo {enc} | base64 -d)",
                stdin=asyncio.subprocess.PIPE, stdout=asyncio.subprocess.DEVNULL, stderr=asyncio.subprocess.DEVNULL))

    async def run(self, location, command, environment=None, workdir=None, stdin=None,
                  stdout=asyncio.subprocess.STDOUT, stderr=asyncio.subprocess.STDOUT,
                  capture_output=False, timeout=None, job_name=None):
        import contextlib
        from streamflow.core.exception import WorkflowExecutionException

        self.run_log.append(("run", list(command)))
        if job_name is None and stdin is None:
            with contextlib.suppress(WorkflowExecutionException):
                return await utils.run_in_shell(
                    shell=await self.get_shell(command=["sh"], location=location),
                    location=location, command=command, environment=environment,
                    workdir=workdir, capture_output=capture_output, timeout=timeout)
        cmd = utils.create_command(self.__class__.__name__, command, environment, workdir, stdin, stdout, stderr)
        # what `docker exec <c> sh -c '<cmd>'` / ssh do for the shipped connectors
        return await utils.run_in_subprocess(
            location=location, command=["sh", "-c", shlex.quote(cmd)],
            capture_output=capture_output, timeout=timeout)


class VfHardwareConnector(LocalConnector):
    """config: locations = {name: {"cores":..,"memory":..,"disks":{mount_point: size}} | {"slots": n}}"""

    def __init__(self, deployment_name, config_dir, locations=None, yields=1, transferBufferSize=65536):
        super().__init__(deployment_name, config_dir, transferBufferSize)
        self.locs = locations or {}
        self.yields = yields

    async def get_available_locations(self, service=None):
        Sched.inflight += 1
        try:
            for _ in range(self.yields):
                await asyncio.sleep(0)
            await Sched.jitter()
        finally:
            Sched.inflight -= 1
        out = {}
        for n, v in self.locs.items():
            hw = None
            if "cores" in v:
                st = {os.sep: Storage(os.sep, float(v.get("root_size", 1e9)))}
                for mp, cap in v.get("disks", {}).items():
                    st[mp] = Storage(mp, float(cap))
                hw = Hardware(cores=float(v["cores"]), memory=float(v["memory"]), storage=st)
            out[n] = AvailableLocation(name=n, deployment=self.deployment_name, service=service,
                                       hostname="localhost", local=True, slots=v.get("slots"), hardware=hw)
        return out

    @classmethod
    def get_schema(cls) -> str:
        return "{}"


class VfWrapper(ConnectorWrapper):
    """config: mounts = {outer_path: inner_path}; locations = [names] (default: one per inner location).
    The outer paths are created as symlinks to the inner paths at deploy time."""

    def __init__(self, deployment_name, config_dir, connector, service=None, mounts=None,
                 locations=None, transferBufferSize=65536):
        super().__init__(deployment_name, config_dir, connector, service, transferBufferSize)
        self.mounts = dict(mounts or {})
        self.location_names = locations

    async def deploy(self, external: bool) -> None:
        for outer, inner in self.mounts.items():
            os.makedirs(inner, exist_ok=True)
            os.makedirs(os.path.dirname(outer), exist_ok=True)
            if not os.path.lexists(outer):
                os.symlink(inner, outer)

    async def get_available_locations(self, service=None):
        inner = await self.connector.get_available_locations(service=self.service)
        out = {}
        for k, (n, loc) in enumerate(inner.items()):
            name = (self.location_names[k] if self.location_names and k < len(self.location_names)
                    else f"{self.deployment_name}-{n}")
            hw = Hardware(cores=1.0, memory=1.0, storage={
                m: Storage(m, 1e9, bind=b) for m, b in self.mounts.items()
            } | {os.sep: Storage(os.sep, 1e9)})
            out[name] = AvailableLocation(name=name, deployment=self.deployment_name, service=service,
                                          hostname="localhost", local=False, slots=8, stacked=True,
                                          hardware=hw, wraps=loc)
        return out

    def _inner(self, location: ExecutionLocation) -> ExecutionLocation:
        return location.wraps if location.wraps is not None else location

    async def get_shell(self, command, location):
        return await self.connector.get_shell(command, self._inner(location))

    async def get_stream_reader(self, command, location):
        return await self.connector.get_stream_reader(command, self._inner(location))

    async def get_stream_writer(self, command, location):
        return await self.connector.get_stream_writer(command, self._inner(location))

    async def run(self, location, command, environment=None, workdir=None, stdin=None,
                  stdout=asyncio.subprocess.STDOUT, stderr=asyncio.subprocess.STDOUT,
                  capture_output=False, timeout=None, job_name=None):
        return await self.connector.run(self._inner(location), command, environment, workdir, stdin,
                                        stdout, stderr, capture_output, timeout, job_name)

    @classmethod
    def get_schema(cls) -> str:
        return "{}"


def register():
    connector_classes["vf-shell"] = VfShellRemoteConnector
    connector_classes["vf-hw"] = VfHardwareConnector
    connector_classes["vf-wrap"] = VfWrapper


register()
