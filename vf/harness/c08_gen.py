"""C08 workloads (a) and (c): hand-generated workflow graphs over every built-in step / port /
combinator / processor / command type with randomised constructor parameters, and token forests.

Everything is built with the real constructors; nothing is executed.  `build_graph(rng, ctx, variant)`
returns (workflow, info) where info lists which classes were instantiated (coverage evidence).

The generic class never wires one port to two names of the same step (that is the dedicated class
`dup-port`, finding C08/dependency-pk-collision) and never gives skip ports to a
CWLEmptyScatterConditionalStep (dedicated class `empty-scatter-skip`).
"""
from __future__ import annotations

import collections

STRS = ["", "a", "é", "日本語", "😀", "a b", "x/y", "q'uo\"te", "$(inputs.a)", "${return 1;}", "0", "null", "tab\there", "nl\nx"]
NAMES = ["a", "b", "in", "out", "é", "x y", "o", "p-1", "0"]
LIBS = [None, [], ["function f(x){return x;}"], ["var a = 1;", "var é = '😀';"]]


def rstr(rng):
    return rng.choice(STRS)


def ropt(rng, v):
    return None if rng.random() < 0.3 else v


def rjson(rng, depth=0):
    r = rng.random()
    if depth >= 3 or r < 0.5:
        return rng.choice([None, True, False, 0, 1, -7, 2 ** 53 + 1, -(2 ** 63), 10 ** 25, 0.1, 1.0, -0.0, 1e300, 2.5e-300,
                           "", "s", "é", "😀 astral", "nul\u0000x", "line\nbreak", "日本"])
    if r < 0.75:
        return [rjson(rng, depth + 1) for _ in range(rng.randint(0, 3))]
    return {rng.choice(["k", "é", "", "a b", "0", "😀"]): rjson(rng, depth + 1) for _ in range(rng.randint(0, 3))}


class G:
    """one random graph"""

    def __init__(self, rng, ctx, cwl: bool):
        from streamflow.core.workflow import Workflow
        from streamflow.cwl.workflow import CWLWorkflow

        self.rng = rng
        self.ctx = ctx
        self.used = collections.Counter()
        n = "wf-" + str(rng.randrange(1 << 40))
        cfg = rjson(rng, 1) if rng.random() < 0.5 else {"file": "w.cwl", "nested": {"l": [1, "é"]}}
        if not isinstance(cfg, dict):
            cfg = {"v": cfg}
        if cwl:
            fg = None
            if rng.random() < 0.3:
                import rdflib

                fg = rdflib.Graph()
                fg.add((rdflib.URIRef("http://e.org/a"), rdflib.RDFS.subClassOf, rdflib.URIRef("http://e.org/b")))
                if rng.random() < 0.5:
                    fg.add((rdflib.URIRef("http://e.org/b"), rdflib.RDFS.label, rdflib.Literal("é " + rstr(rng))))
            self.wf = CWLWorkflow(context=ctx, config=cfg, name=n, cwl_version=rng.choice(["v1.0", "v1.1", "v1.2"]), format_graph=fg)
            self.used["CWLWorkflow"] += 1
        else:
            self.wf = Workflow(context=ctx, config=cfg, name=n)
            self.used["Workflow"] += 1
        self.nport = 0
        self.nstep = 0
        self.deployments = []

    # ---------------------------------------------------------------- ports
    def port(self, cls=None):
        from streamflow.core.workflow import Port
        from streamflow.workflow.port import FilterTokenPort, InterWorkflowJobPort, InterWorkflowPort

        if cls is None:
            cls = self.rng.choice([Port, Port, Port, FilterTokenPort, InterWorkflowPort])
        self.nport += 1
        self.used[cls.__name__] += 1
        return self.wf.create_port(cls=cls, name=f"p{self.nport}-{self.rng.choice(NAMES)}")

    def job_port(self):
        from streamflow.workflow.port import InterWorkflowJobPort, JobPort

        return self.port(self.rng.choice([JobPort, JobPort, InterWorkflowJobPort]))

    def conn_port(self):
        from streamflow.workflow.port import ConnectorPort

        return self.port(ConnectorPort)

    def sname(self, suffix=""):
        self.nstep += 1
        return f"/s{self.nstep}/{self.rng.choice(NAMES)}{suffix}"

    def step(self, cls, name=None, **kw):
        self.used[cls.__name__] += 1
        return self.wf.create_step(cls=cls, name=name or self.sname(), **kw)

    def wire(self, step, nin=None, nout=None):
        """distinct fresh ports under distinct names; constraints of the step class are respected"""
        from streamflow.core.exception import WorkflowDefinitionException

        rng = self.rng
        names = rng.sample(NAMES, len(NAMES))
        for i in range(rng.randint(0, 3) if nin is None else nin):
            try:
                step.add_input_port(names[i], self.port())
            except WorkflowDefinitionException:
                break
        for i in range(rng.randint(0, 3) if nout is None else nout):
            try:
                step.add_output_port(names[-1 - i], self.port())
            except WorkflowDefinitionException:
                break
        from streamflow.core.workflow import Status

        st = rng.choice([Status.WAITING] * 4 + [Status.FIREABLE, Status.RUNNING, Status.COMPLETED, Status.FAILED, Status.SKIPPED])
        step.status = st
        step.terminated = st in (Status.COMPLETED, Status.FAILED, Status.SKIPPED)
        return step

    # ---------------------------------------------------------------- config entities
    def deployment(self):
        from streamflow.core.config import Config
        from streamflow.core.deployment import DeploymentConfig, WrapsConfig

        rng = self.rng
        if self.deployments and rng.random() < 0.4:
            return rng.choice(self.deployments)
        self.used["DeploymentConfig"] += 1
        d = DeploymentConfig(
            name=f"d{len(self.deployments)}-{rng.choice(NAMES)}", type=rng.choice(["local", "ssh", "docker", "slurm"]),
            config=rng.choice([{}, {"nodes": ["n1", {"hostname": "é"}], "opts": {"k": [1, 2.5, None]}}, {"image": "i:1"}]),
            external=rng.random() < 0.5, lazy=rng.random() < 0.5,
            scheduling_policy=ropt(rng, Config(name=rstr(rng) or "pol", type="data_locality", config=rng.choice([{}, {"k": [1, {"z": None}]}]))),
            workdir=ropt(rng, "/w/" + rstr(rng)),
            wraps=ropt(rng, WrapsConfig(deployment="inner-" + rstr(rng), service=ropt(rng, "svc"))))
        if d.wraps is not None:
            self.used["WrapsConfig"] += 1
        self.deployments.append(d)
        return d

    def target(self):
        from streamflow.core.deployment import LocalTarget, Target

        rng = self.rng
        if rng.random() < 0.3:
            self.used["LocalTarget"] += 1
            return LocalTarget(workdir=ropt(rng, "/lw/" + rstr(rng)))
        self.used["Target"] += 1
        return Target(deployment=self.deployment(), locations=rng.randint(1, 5), service=ropt(rng, rstr(rng) or "s"),
                      workdir=ropt(rng, "/t/" + rstr(rng)))

    def binding(self):
        from streamflow.core.config import BindingConfig
        from streamflow.core.deployment import FilterConfig

        rng = self.rng
        self.used["BindingConfig"] += 1
        filters = [FilterConfig(name=f"f{i}{rstr(rng)}", type=rng.choice(["shuffle", "matching"]),
                                config=rng.choice([{}, {"key": ["1", {"d": 2}]}, {"filters": [{"target": "x"}]}]))
                   for i in range(rng.choice([0, 0, 1, 2]))]
        self.used["FilterConfig"] += len(filters)
        return BindingConfig(targets=[self.target() for _ in range(rng.randint(1, 3))], filters=filters)

    def hw(self):
        from streamflow.cwl.hardware import CWLHardwareRequirement

        rng = self.rng
        self.used["CWLHardwareRequirement"] += 1
        return CWLHardwareRequirement(cwl_version=rng.choice(["v1.0", "v1.2"]), cores=ropt(rng, rng.choice([2, 0.5, "$(inputs.a)"])),
                                      memory=ropt(rng, rng.choice([128, 1.5, "$(1+1)"])), tmpdir=ropt(rng, 10), outdir=ropt(rng, "$(2)"),
                                      full_js=rng.random() < 0.5, expression_lib=rng.choice(LIBS))

    # ---------------------------------------------------------------- processors
    def token_processor(self, depth=0, k=None):
        from streamflow.core.processor import MapTokenProcessor, NullTokenProcessor, ObjectTokenProcessor, UnionTokenProcessor
        from streamflow.cwl.processor import CWLTokenProcessor
        from streamflow.cwl.utils import LoadListing, SecondaryFile

        rng = self.rng
        k = k or rng.choice(["cwl", "cwl", "map", "obj", "union", "null"] if depth < 2 else ["cwl", "null"])
        n = rstr(rng)
        if k == "cwl":
            self.used["CWLTokenProcessor"] += 1
            return CWLTokenProcessor(
                name=n, workflow=self.wf, token_type=rng.choice([None, "int", "File", ["null", "string"], "enum"]),
                enum_symbols=rng.choice([None, [], ["red", "é"]]), expression_lib=rng.choice(LIBS), file_format=ropt(rng, "http://e.org/f"),
                full_js=rng.random() < 0.5, load_contents=rng.choice([None, True, False]),
                load_listing=rng.choice([None, LoadListing.no_listing, LoadListing.shallow_listing, LoadListing.deep_listing]),
                only_propagate_secondary_files=rng.random() < 0.5,
                secondary_files=rng.choice([None, [], [SecondaryFile(".idx", True), SecondaryFile("^.bai", "$(inputs.f)")]]),
                streamable=rng.random() < 0.5)
        if k == "map":
            self.used["MapTokenProcessor"] += 1
            return MapTokenProcessor(name=n, workflow=self.wf, processor=self.token_processor(depth + 1))
        if k == "obj":
            self.used["ObjectTokenProcessor"] += 1
            return ObjectTokenProcessor(name=n, workflow=self.wf, processors={kk: self.token_processor(depth + 1) for kk in rng.sample(NAMES, rng.randint(0, 2))})
        if k == "union":
            self.used["UnionTokenProcessor"] += 1
            return UnionTokenProcessor(name=n, workflow=self.wf, processors=[self.token_processor(depth + 1) for _ in range(rng.randint(0, 2))])
        self.used["NullTokenProcessor"] += 1
        return NullTokenProcessor(name=n, workflow=self.wf)

    def output_processor(self, depth=0, k=None):
        from streamflow.core.processor import (MapCommandOutputProcessor, ObjectCommandOutputProcessor,
                                               PopCommandOutputProcessor, UnionCommandOutputProcessor)
        from streamflow.cwl.processor import (CWLCommandOutputProcessor, CWLExpressionToolOutputProcessor,
                                              CWLObjectCommandOutputProcessor)
        from streamflow.cwl.utils import LoadListing, SecondaryFile
        from streamflow.workflow.step import DefaultCommandOutputProcessor

        rng = self.rng
        k = k or rng.choice(OUT_KINDS + ["cwl"] if depth < 2 else ["cwl", "expr", "default"])
        n = rstr(rng)
        tgt = self.target() if rng.random() < 0.3 else None
        if k == "cwl":
            self.used["CWLCommandOutputProcessor"] += 1
            return CWLCommandOutputProcessor(
                name=n, workflow=self.wf, target=tgt, token_type=rng.choice([None, "File", ["null", "int"], "string"]),
                enum_symbols=rng.choice([None, ["a"]]), expression_lib=rng.choice(LIBS), file_format=ropt(rng, "fmt"),
                full_js=rng.random() < 0.5, glob=rng.choice([None, "*.txt", ["a*", "b*"], "$(inputs.g)"]), load_contents=rng.random() < 0.5,
                load_listing=rng.choice(list(LoadListing)), optional=rng.random() < 0.5, output_eval=ropt(rng, "$(self[0])"),
                secondary_files=rng.choice([None, [SecondaryFile(".x", False)]]), single=rng.random() < 0.5, streamable=rng.random() < 0.5)
        if k == "expr":
            self.used["CWLExpressionToolOutputProcessor"] += 1
            return CWLExpressionToolOutputProcessor(name=n, workflow=self.wf, target=tgt, token_type=rng.choice([None, "int", ["null", "File"]]),
                                                    enum_symbols=rng.choice([None, ["e1", "e2"]]), file_format=ropt(rng, "f"),
                                                    optional=rng.random() < 0.5, streamable=rng.random() < 0.5)
        if k == "default":
            self.used["DefaultCommandOutputProcessor"] += 1
            return DefaultCommandOutputProcessor(name=n, workflow=self.wf, target=tgt)
        if k == "map":
            self.used["MapCommandOutputProcessor"] += 1
            return MapCommandOutputProcessor(name=n, workflow=self.wf, processor=self.output_processor(depth + 1), target=tgt)
        if k == "pop":
            self.used["PopCommandOutputProcessor"] += 1
            return PopCommandOutputProcessor(name=n, workflow=self.wf, processor=self.output_processor(depth + 1), target=tgt)
        if k == "union":
            self.used["UnionCommandOutputProcessor"] += 1
            return UnionCommandOutputProcessor(name=n, workflow=self.wf, processors=[self.output_processor(depth + 1) for _ in range(rng.randint(0, 2))], target=tgt)
        procs = {kk: self.output_processor(depth + 1) for kk in rng.sample(NAMES, rng.randint(0, 2))}
        if k == "obj":
            self.used["ObjectCommandOutputProcessor"] += 1
            return ObjectCommandOutputProcessor(name=n, workflow=self.wf, processors=procs, target=tgt)
        self.used["CWLObjectCommandOutputProcessor"] += 1
        return CWLObjectCommandOutputProcessor(name=n, workflow=self.wf, processors=procs, expression_lib=rng.choice(LIBS),
                                               full_js=rng.random() < 0.5, output_eval=ropt(rng, "$(1)"), target=tgt, single=rng.random() < 0.5)

    def cmd_token_processor(self, depth=0, k=None):
        from streamflow.cwl.command import (CWLCommandTokenProcessor, CWLForwardCommandTokenProcessor,
                                            CWLMapCommandTokenProcessor, CWLObjectCommandTokenProcessor)
        from streamflow.workflow.command import MapCommandTokenProcessor, ObjectCommandTokenProcessor, UnionCommandTokenProcessor

        rng = self.rng
        k = k or rng.choice(CMD_KINDS + ["cwl"] if depth < 2 else ["cwl", "fwd"])
        n = rstr(rng)
        if k == "cwl":
            self.used["CWLCommandTokenProcessor"] += 1
            return CWLCommandTokenProcessor(
                name=n, expression=rng.choice([None, "$(inputs.a)", 5, ["lit", 1], {"k": "v"}]),
                processor=self.cmd_token_processor(depth + 1) if depth < 2 and rng.random() < 0.3 else None,
                token_type=ropt(rng, rng.choice(["int", "File", "string"])), is_shell_command=rng.random() < 0.5,
                item_separator=ropt(rng, rng.choice([",", " ", "é"])), position=rng.choice([0, 3, -1, "$(inputs.pos)"]),
                prefix=ropt(rng, rng.choice(["-x", "--é=", ""])), separate=rng.random() < 0.5, shell_quote=rng.random() < 0.5)
        if k == "fwd":
            self.used["CWLForwardCommandTokenProcessor"] += 1
            return CWLForwardCommandTokenProcessor(name=n, token_type=ropt(rng, "int"))
        if k in ("map", "cwlmap"):
            cls = MapCommandTokenProcessor if k == "map" else CWLMapCommandTokenProcessor
            self.used[cls.__name__] += 1
            return cls(name=n, processor=self.cmd_token_processor(depth + 1))
        if k in ("obj", "cwlobj"):
            cls = ObjectCommandTokenProcessor if k == "obj" else CWLObjectCommandTokenProcessor
            self.used[cls.__name__] += 1
            return cls(name=n, processors={kk: self.cmd_token_processor(depth + 1) for kk in rng.sample(NAMES, rng.randint(0, 2))})
        self.used["UnionCommandTokenProcessor"] += 1
        return UnionCommandTokenProcessor(name=n, processors=[self.cmd_token_processor(depth + 1) for _ in range(rng.randint(0, 2))])

    def command(self, step, kind=None, all_processors=False):
        from streamflow.cwl.command import CWLCommand, CWLExpressionCommand

        rng = self.rng
        if kind == "cwl" or (kind is None and rng.random() < 0.6):
            self.used["CWLCommand"] += 1
            return CWLCommand(
                step=step, processors=([self.cmd_token_processor(k=k) for k in CMD_KINDS] if all_processors
                                       else [self.cmd_token_processor() for _ in range(rng.randint(0, 3))]),
                absolute_initial_workdir_allowed=rng.random() < 0.5, base_command=rng.choice([None, [], ["echo"], ["python3", "-c", "é"]]),
                environment=rng.choice([None, {}, {"K": "v", "É": "$(inputs.a)"}]), expression_lib=rng.choice(LIBS),
                failure_codes=rng.choice([None, [], [1, 2]]), full_js=rng.random() < 0.5,
                initial_work_dir=rng.choice([None, "$(inputs.l)", ["a", {"entry": "x", "entryname": "é", "writable": True}]]),
                inplace_update=rng.random() < 0.5, is_shell_command=rng.random() < 0.5, success_codes=rng.choice([None, [0], [0, 3]]),
                step_stderr=ropt(rng, "err"), step_stdin=ropt(rng, "$(inputs.f.path)"), step_stdout=ropt(rng, "out é"),
                time_limit=rng.choice([None, 0, 10, "$(inputs.t)"]))
        self.used["CWLExpressionCommand"] += 1
        return CWLExpressionCommand(step=step, expression=rstr(rng), absolute_initial_workdir_allowed=rng.random() < 0.5,
                                    expression_lib=rng.choice(LIBS), full_js=rng.random() < 0.5,
                                    initial_work_dir=rng.choice([None, "$(inputs.l)", ["a", {"entry": "x"}]]),
                                    inplace_update=rng.random() < 0.5, time_limit=rng.choice([None, 5, "$(1)"]))

    def combinator(self, depth=0, kind=None, inner=None):
        from streamflow.cwl.combinator import ListMergeCombinator
        from streamflow.workflow.combinator import (CartesianProductCombinator, DotProductCombinator, LoopCombinator,
                                                    LoopTerminationCombinator)

        rng = self.rng
        kind = kind or rng.choice(["cart", "dot", "loop", "term", "merge"])
        n = rstr(rng) or "c"
        if kind == "cart":
            c = CartesianProductCombinator(name=n, workflow=self.wf, depth=rng.randint(1, 3))
        elif kind == "dot":
            c = DotProductCombinator(name=n, workflow=self.wf)
        elif kind == "loop":
            c = LoopCombinator(name=n, workflow=self.wf)
        elif kind == "term":
            c = LoopTerminationCombinator(name=n, workflow=self.wf)
            for it in rng.sample(NAMES, rng.randint(0, 3)):
                c.add_output_item(it)
        else:
            c = ListMergeCombinator(name=n, workflow=self.wf, input_names=rng.sample(NAMES, rng.randint(0, 3)),
                                    output_name=rstr(rng), flatten=rng.random() < 0.5)
        self.used[type(c).__name__] += 1
        for it in rng.sample(NAMES, rng.randint(0, 3)):
            c.add_item("i-" + it)
        if depth < 2:
            for j in range(rng.choice([0, 0, 1, 2]) if inner is None else inner):
                inner = self.combinator(depth + 1, rng.choice(["cart", "dot"]))
                inner.name = f"{inner.name}-inner{depth}{j}"
                c.add_combinator(inner, set(rng.sample(NAMES, rng.randint(1, 2))))
        return c

    # ---------------------------------------------------------------- growth of an already persisted graph
    def grow(self, phase):
        """Extend a graph whose entities may already be persisted: new input / output ports on existing steps,
        new steps reading existing ports, new lonely ports.  Only wiring is added to existing steps (their
        constructor parameters and status are rows written once, so they are left alone): no new output port on an
        ExecuteStep (that would add an output processor to its saved parameters), no new skip ports; names are new
        (`g<phase>-...`), an existing name is never re-bound and a port is never wired twice to one step."""
        from streamflow.core.exception import WorkflowDefinitionException
        from streamflow.workflow.step import ExecuteStep

        rng = self.rng
        done = collections.Counter()
        old_steps = list(self.wf.steps.values())
        old_ports = list(self.wf.ports.values())
        for i, st in enumerate(rng.sample(old_steps, min(len(old_steps), rng.randint(1, 4)))):
            for j in range(rng.randint(1, 2)):
                try:
                    if rng.random() < 0.5:
                        st.add_input_port(f"g{phase}-in{i}{j}-{rng.choice(NAMES)}", self.port())
                        done["new_input_port_on_saved_step"] += 1
                    elif not isinstance(st, ExecuteStep):
                        st.add_output_port(f"g{phase}-out{i}{j}-{rng.choice(NAMES)}", self.port())
                        done["new_output_port_on_saved_step"] += 1
                except WorkflowDefinitionException:
                    done["growth_refused_by_step_class"] += 1
        for _ in range(rng.randint(1, 3)):
            st = self.add_random_step()
            done["new_step"] += 1
            if old_ports:
                p = rng.choice(old_ports)
                if p.name not in st.input_ports.values() and p.name not in st.output_ports.values():
                    try:
                        st.add_input_port(f"g{phase}-old-{rng.choice(NAMES)}", p)
                        done["new_step_reads_saved_port"] += 1
                    except WorkflowDefinitionException:
                        pass
        for _ in range(rng.randint(0, 2)):
            self.port()
            done["new_lonely_port"] += 1
        return done

    # ---------------------------------------------------------------- steps
    def add_random_step(self, kind=None, sub=None):
        from streamflow.cwl import step as cs
        from streamflow.cwl import transformer as ct
        from streamflow.workflow import step as ws

        rng = self.rng
        kind = kind or rng.choice(STEP_KINDS)
        if kind == "combinator":
            return self.wire(self.step(ws.CombinatorStep, combinator=self.combinator(kind=sub, inner=2 if sub else None)))
        if kind == "loopcombinator":
            return self.wire(self.step(ws.LoopCombinatorStep, combinator=self.combinator(kind=rng.choice(["loop", "dot"]))))
        if kind == "deploy":
            d = self.deployment()
            return self.wire(self.step(ws.DeployStep, name=f"/__deploy__/{self.nstep}-{d.name}", deployment_config=d,
                                       connector_port=self.conn_port() if rng.random() < 0.5 else None), nin=rng.randint(0, 1), nout=0)
        if kind in ("execute", "cwlexecute"):
            if kind == "execute":
                s = self.step(ws.ExecuteStep, job_port=self.job_port())
            else:
                s = self.step(cs.CWLExecuteStep, job_port=self.job_port(), recoverable=rng.choice([True, False, "$(inputs.r)"]),
                              expression_lib=rng.choice(LIBS), full_js=rng.random() < 0.5)
            if sub or rng.random() < 0.8:
                s.command = self.command(s, kind=sub, all_processors=bool(sub))
            names = rng.sample(NAMES, 3)
            for i in range(rng.randint(0, 2)):
                s.add_input_port(names[i], self.port())
            if sub:
                for k in OUT_KINDS:
                    s.add_output_port("o-" + k, self.port(), self.output_processor(k=k))
                    s.output_connectors["o-" + k] = "conn-" + k
            for i in range(rng.randint(0, 3)):
                s.add_output_port("o-" + names[i], self.port(), self.output_processor() if rng.random() < 0.8 else None)
                if rng.random() < 0.3:
                    s.output_connectors["o-" + names[i]] = "conn-" + rstr(rng)
            return self.wire(s, 0, 0)
        if kind == "gather":
            return self.wire(self.step(ws.GatherStep, name=self.sname("-gather"), size_port=self.port(), depth=rng.randint(1, 3)), nin=rng.randint(0, 1), nout=rng.randint(0, 1))
        if kind == "scatter":
            return self.wire(self.step(ws.ScatterStep, name=self.sname("-scatter"), size_port=self.port() if rng.random() < 0.5 else None), nin=rng.randint(0, 1), nout=rng.randint(0, 1))
        if kind in ("schedule", "cwlschedule"):
            b = self.binding()
            cports = {}
            for t in b.targets:
                cports.setdefault(t.deployment.name, self.conn_port())
            return self.wire(self.step(
                ws.ScheduleStep if kind == "schedule" else cs.CWLScheduleStep, name=self.sname("/__schedule__"), binding_config=b,
                connector_ports=cports, job_port=self.job_port() if rng.random() < 0.5 else None, job_prefix=ropt(rng, "/pre/" + rstr(rng)),
                hardware_requirement=self.hw() if rng.random() < 0.6 else None, input_directory=ropt(rng, "/in"),
                output_directory=ropt(rng, "/out é"), tmp_directory=ropt(rng, "/tmp/x")), nin=rng.randint(0, 2), nout=0)
        if kind in ("cond", "loopcond"):
            s = self.step(cs.CWLConditionalStep if kind == "cond" else cs.CWLLoopConditionalStep, name=self.sname("-when"),
                          expression=rstr(rng), expression_lib=rng.choice(LIBS), full_js=rng.random() < 0.5)
            for n in rng.sample(NAMES, rng.randint(0, 2)):
                s.add_skip_port(n, self.port())
            return self.wire(s)
        if kind == "emptyscatter":
            return self.wire(self.step(cs.CWLEmptyScatterConditionalStep, name=self.sname("-empty-scatter-condition"),
                                       scatter_method=rng.choice(["dotproduct", "flat_crossproduct", "nested_crossproduct", None])))
        if kind == "injector":
            return self.wire(self.step(cs.CWLInputInjectorStep, job_port=self.job_port()), nin=rng.randint(0, 1), nout=rng.randint(0, 1))
        if kind in ("loopall", "looplast"):
            return self.wire(self.step(cs.CWLLoopOutputAllStep if kind == "loopall" else cs.CWLLoopOutputLastStep), nin=rng.randint(0, 1), nout=rng.randint(0, 1))
        if kind == "transfer":
            return self.wire(self.step(cs.CWLTransferStep, name=self.sname("/__transfer__/x"), job_port=self.job_port(),
                                       prefix_path=rng.random() < 0.5, writable=rng.random() < 0.5))
        if kind == "simple_tr":
            cls = getattr(ct, sub) if sub else rng.choice([ct.AllNonNullTransformer, ct.BroadcastTransformer, ct.CartesianProductSizeTransformer,
                              ct.DotProductSizeTransformer, ct.FirstNonNullTransformer, ct.ForwardTransformer,
                              ct.ListToElementTransformer, ct.OnlyNonNullTransformer])
            return self.wire(self.step(cls))
        if kind == "clone":
            return self.wire(self.step(ct.CloneTransformer, replicas_port=self.port()), nin=rng.randint(0, 1), nout=rng.randint(0, 1))
        if kind == "tokentr":
            return self.wire(self.step(ct.CWLTokenTransformer, port_name=rstr(rng), processor=self.token_processor(k=sub)))
        if kind == "default":
            return self.wire(self.step(ct.DefaultTransformer, default_port=self.port()))
        if kind == "defaultretag":
            return self.wire(self.step(ct.DefaultRetagTransformer, default_port=self.port(), primary_port=rstr(rng)))
        if kind in ("valuefrom", "loopvaluefrom"):
            kw = dict(port_name=rstr(rng), processor=self.token_processor(), value_from=rstr(rng), expression_lib=rng.choice(LIBS), full_js=rng.random() < 0.5)
            if kind == "valuefrom":
                return self.wire(self.step(ct.ValueFromTransformer, **kw))
            s = self.step(ct.LoopValueFromTransformer, **kw)
            s.loop_input_ports = rng.sample(NAMES, rng.randint(0, 3))
            s.loop_source_port = ropt(rng, rstr(rng))
            return self.wire(s)
        raise AssertionError(kind)


STEP_KINDS = ["combinator", "loopcombinator", "deploy", "execute", "cwlexecute", "gather", "scatter", "schedule",
              "cwlschedule", "cond", "loopcond", "emptyscatter", "injector", "loopall", "looplast", "transfer",
              "simple_tr", "clone", "tokentr", "default", "defaultretag", "valuefrom", "loopvaluefrom"]
OUT_KINDS = ["cwl", "expr", "default", "map", "obj", "cwlobj", "pop", "union"]
CMD_KINDS = ["cwl", "fwd", "map", "cwlmap", "obj", "cwlobj", "union"]
TOK_KINDS = ["cwl", "map", "obj", "union", "null"]
COMB_KINDS = ["cart", "dot", "loop", "term", "merge"]
SIMPLE_TR = ["AllNonNullTransformer", "BroadcastTransformer", "CartesianProductSizeTransformer", "DotProductSizeTransformer",
             "FirstNonNullTransformer", "ForwardTransformer", "ListToElementTransformer", "OnlyNonNullTransformer"]


def build_incremental(rng, ctx):
    """(workflow, phases): the caller saves the workflow, calls phases[0](), saves, calls phases[1]() ... and only
    then runs the usual save / load / copy oracles on the final graph."""
    g = G(rng, ctx, cwl=rng.random() < 0.75)
    for _ in range(rng.randint(1, 4)):
        g.add_random_step()
    pnames = list(g.wf.ports)
    for i in range(rng.randint(0, 2)):
        if pnames:
            g.wf.output_ports[f"out{i}-{rng.choice(NAMES)}"] = rng.choice(pnames)
    growth = collections.Counter()
    phases = [(lambda k=k: growth.update(g.grow(k))) for k in range(rng.randint(1, 2))]
    info = {"variant": "incremental", "growth": growth, "used": g.used}
    return g.wf, phases, info


def build_shared_forest(rng):
    """composite tokens (List / Object / Job, nested up to 2 more levels) that share UNSAVED inner tokens"""
    from streamflow.core.workflow import Job
    from streamflow.workflow.token import JobToken, ListToken, ObjectToken

    inners = [build_token(rng, depth=2, allow_job=False) for _ in range(rng.randint(2, 5))]

    def wrap(t, depth=0):
        k = rng.choice(["list", "object", "job"] if depth == 0 else ["list", "object", "job", "none"])
        if k == "none":
            return t
        tag = rng.choice(["0", "0.1", "0.2.3"])
        if k == "list":
            items = [t] + [build_token(rng, depth=3, allow_job=False) for _ in range(rng.randint(0, 2))]
            if rng.random() < 0.4:
                items.append(rng.choice(inners))
            rng.shuffle(items)
            w = ListToken(value=items, tag=tag)
        elif k == "object":
            d = {"k" + str(i): x for i, x in enumerate([t] + ([rng.choice(inners)] if rng.random() < 0.4 else []))}
            w = ObjectToken(value=d, tag=tag)
        else:
            w = JobToken(value=Job(name="/s/" + tag, workflow_id=1, inputs={"i": t, **({"j": rng.choice(inners)} if rng.random() < 0.4 else {})},
                                   input_directory=None, output_directory="/o", tmp_directory=None), tag=tag)
        return wrap(w, depth + 1) if depth < 2 and rng.random() < 0.4 else w

    parents = [wrap(rng.choice(inners)) for _ in range(rng.randint(4, 12))]
    return parents, inners


def build_graph(rng, ctx, variant="generic"):
    """variant: generic | all-kinds | dup-port | empty-scatter-skip | workflow-inputs"""
    g = G(rng, ctx, cwl=True if variant in ("empty-scatter-skip", "all-kinds") else rng.random() < 0.75)
    if variant == "all-kinds":
        # every step kind twice, every combinator / processor / command kind at least once
        for _ in range(2):
            for kind in STEP_KINDS:
                g.add_random_step(kind)
        for k in COMB_KINDS:
            g.add_random_step("combinator", sub=k)
        for k in TOK_KINDS:
            g.add_random_step("tokentr", sub=k)
        for k in SIMPLE_TR:
            g.add_random_step("simple_tr", sub=k)
        g.add_random_step("execute", sub="cwl")
        g.add_random_step("cwlexecute", sub="expr")
        n = 0
    else:
        n = rng.randint(1, 7) if variant == "generic" else rng.randint(0, 2)
    for _ in range(n):
        g.add_random_step()
    # lonely ports and workflow outputs
    for _ in range(rng.randint(0, 2)):
        g.port()
    pnames = list(g.wf.ports)
    for i in range(rng.randint(0, 2)):
        if pnames:
            g.wf.output_ports[f"out{i}-{rng.choice(NAMES)}"] = rng.choice(pnames)
    info = {"variant": variant}
    if variant == "dup-port":
        from streamflow.cwl import transformer as ct
        from streamflow.workflow import step as ws

        how = rng.choice(["two-inputs", "two-outputs", "in-and-out"])
        p = g.port()
        if how == "two-inputs":
            s = g.step(ws.CombinatorStep, combinator=g.combinator(kind="dot"))
            s.add_input_port("a", p)
            s.add_input_port("b", p)
            s.add_output_port("o", g.port())
        elif how == "two-outputs":
            s = g.step(ct.BroadcastTransformer)
            s.add_input_port("i", g.port())
            s.add_output_port("x", p)
            s.add_output_port("y", p)
        else:
            s = g.step(ct.ForwardTransformer)
            s.add_input_port("io", p)
            s.add_output_port("io", p)
        info.update(how=how, step=s.name, port=p.name)
    elif variant == "empty-scatter-skip":
        from streamflow.cwl import step as cs

        s = g.step(cs.CWLEmptyScatterConditionalStep, name=g.sname("-empty-scatter-condition"), scatter_method="dotproduct")
        s.add_input_port("a", g.port())
        s.add_output_port("a", g.port())
        for nm in rng.sample(NAMES, rng.randint(1, 2)):
            s.add_skip_port(nm, g.port())
        info.update(step=s.name, skip=dict(s.skip_ports))
    elif variant == "workflow-inputs":
        for i in range(rng.randint(1, 3)):
            g.wf.input_ports[f"in{i}-{rng.choice(NAMES)}"] = g.port().name
        info.update(inputs=dict(g.wf.input_ports))
    info["classes"] = dict(g.used)
    return g.wf, info


# ------------------------------------------------------------------------------------------- tokens
def build_token(rng, depth=0, allow_job=True):
    """random token tree: Token / ListToken / ObjectToken / JobToken / CWLFileToken / termination tokens"""
    from streamflow.core.workflow import Job, Status, Token
    from streamflow.cwl.token import CWLFileToken
    from streamflow.workflow.token import IterationTerminationToken, JobToken, ListToken, ObjectToken, TerminationToken

    tag = rng.choice(["0", "0.0", "0.1", "0.10.3", "0.2.0.1"])
    kinds = ["plain", "plain", "plain", "file", "term", "iterterm"]
    if depth < 3:
        kinds += ["list", "list", "object", "object"] + (["job"] if allow_job else [])
    k = rng.choice(kinds)
    if k == "plain":
        return Token(value=rjson(rng), tag=tag, recoverable=rng.random() < 0.5)
    if k == "file":
        v = {"class": rng.choice(["File", "Directory"]), "path": "/d/" + rstr(rng), "basename": rstr(rng), "size": rng.choice([0, 2 ** 40]),
             "checksum": "sha1$" + "ab" * 20}
        if rng.random() < 0.4:
            v["secondaryFiles"] = [{"class": "File", "path": "/d/x.idx"}]
        if rng.random() < 0.3:
            v["contents"] = rstr(rng)
        return CWLFileToken(value=v, tag=tag, recoverable=rng.random() < 0.5)
    if k == "term":
        return TerminationToken(rng.choice(list(Status)))
    if k == "iterterm":
        return IterationTerminationToken(tag=tag)
    if k == "list":
        return ListToken(value=[build_token(rng, depth + 1, allow_job) for _ in range(rng.randint(0, 3))], tag=tag)
    if k == "object":
        return ObjectToken(value={kk: build_token(rng, depth + 1, allow_job) for kk in rng.sample(["a", "é", "", "x y", "😀"], rng.randint(0, 3))}, tag=tag)
    job = Job(name="/step é/" + tag, workflow_id=rng.randint(0, 5),
              inputs={kk: build_token(rng, depth + 1, False) for kk in rng.sample(["i", "é", "f"], rng.randint(0, 2))},
              input_directory=ropt(rng, "/in"), output_directory=ropt(rng, "/out/é"), tmp_directory=ropt(rng, "/tmp/j"))
    return JobToken(value=job, tag=tag, recoverable=rng.random() < 0.5)
