"""C26 harness: instrumented fake connectors with a logical clock.

`vf-c26-fake`  VfFakeConnector(Connector)        leaf deployment, no file system
`vf-c26-wrap`  VfFakeWrapper(ConnectorWrapper)   deployment wrapping another one

Both are registered in StreamFlow's own `connector_classes` registry and are instantiated by the
real DefaultDeploymentManager / FutureConnector.  Each instance gets an instance id; every
`deploy` / `undeploy` / first-use call appends call/done/fail events to `REC` (one global
recorder, reset per scenario) stamped with a logical clock.  The time an operation takes is a
scripted number of event-loop yields (`REC.yields[(op, name)]`), failures are scripted per
(op, name) by call ordinal.  While an operation is "in flight" `Sched.inflight` is bumped, so the
quiescence detector never mistakes a running fake operation for a deadlock.
"""
from __future__ import annotations

import asyncio
import contextvars

from streamflow.core.deployment import Connector
from streamflow.deployment.connector import connector_classes
from streamflow.deployment.wrapper import ConnectorWrapper

from vf.perturb import Sched


class InjectedFailure(RuntimeError):
    pass


class Recorder:
    def __init__(self):
        self.reset({}, {})

    def reset(self, yields, fails, touch=False):
        self.clock = 0
        self.events = []  # [clock, kind, name, iid, extra]
        self.yields = dict(yields)  # {"deploy:a": n}
        self.fails = {k: set(v) for k, v in fails.items()}  # {"deploy:a": {ordinal,...}}
        self.touch = touch
        self.next_iid = 0
        self.calls = {}  # "deploy:a" -> ordinal counter
        self.instances = {}  # iid -> instance
        self.manager = None  # the DefaultDeploymentManager of the running case (classification aid)

    def ev(self, kind, name, iid=None, extra=None):
        self.clock += 1
        Sched.events += 1
        self.events.append([self.clock, kind, name, iid, extra])
        return self.clock

    def new_instance(self, inst):
        iid = self.next_iid
        self.next_iid += 1
        self.instances[iid] = inst
        return iid


REC = Recorder()
# the FutureConnector whose deploy() is running in the current task (set by the wrapper that
# vf.checks.c26 puts around FutureConnector.deploy); classification aid only
CUR_FUTURE = contextvars.ContextVar("vf_c26_cur_future", default=None)


def _resolve(conn):
    return getattr(conn, "_connector", conn) if type(conn).__name__ == "FutureConnector" else conn


class _Instrumented:
    async def _op(self, what):
        name = self.deployment_name
        key = f"{what}:{name}"
        ordinal = REC.calls.get(key, 0)
        REC.calls[key] = ordinal + 1
        extra = ordinal
        if what == "undeploy":
            # wrapper instances whose wrapped connector is this very instance (directly or
            # through the FutureConnector of a lazy deployment), resolved at call time
            extra = {"ordinal": ordinal, "wrappers_on": [
                w.vf_iid for w in REC.instances.values()
                if isinstance(w, ConnectorWrapper) and _resolve(w.connector) is self]}
        if what == "deploy":
            fut = CUR_FUTURE.get()
            if fut is not None and REC.manager is not None:
                # deployed through a FutureConnector that the manager no longer holds under this name
                extra = {"ordinal": ordinal, "stale_future": REC.manager.deployments_map.get(name) is not fut}
        REC.ev(what + "-call", name, self.vf_iid, extra)
        Sched.inflight += 1
        try:
            if what == "deploy" and REC.touch and isinstance(self, ConnectorWrapper):
                # what every real wrapper does while deploying: use the wrapped connector
                REC.ev("touch-call", name, self.vf_iid, self.connector.deployment_name)
                await self.connector.get_available_locations()
                REC.ev("touch-done", name, self.vf_iid, self.connector.deployment_name)
            for _ in range(REC.yields.get(key, 0)):
                await asyncio.sleep(0)
        except BaseException as e:
            REC.ev(what + "-fail", name, self.vf_iid, type(e).__name__)
            raise
        finally:
            Sched.inflight -= 1
        if ordinal in REC.fails.get(key, ()):
            REC.ev(what + "-fail", name, self.vf_iid, "InjectedFailure")
            raise InjectedFailure(f"injected {what} failure of {name}")
        REC.ev(what + "-done", name, self.vf_iid)

    async def _use(self):
        REC.ev("use", self.deployment_name, self.vf_iid)
        return {}


class VfFakeConnector(_Instrumented, Connector):
    def __init__(self, deployment_name, config_dir, transferBufferSize=1):
        Connector.__init__(self, deployment_name, config_dir, transferBufferSize)
        self.vf_iid = REC.new_instance(self)

    async def deploy(self, external):
        await self._op("deploy")

    async def undeploy(self, external):
        await self._op("undeploy")

    async def get_available_locations(self, service=None):
        return await self._use()

    @classmethod
    def get_schema(cls):
        return "{}"

    async def copy_local_to_remote(self, *a, **k):
        pass

    async def copy_remote_to_local(self, *a, **k):
        pass

    async def copy_remote_to_remote(self, *a, **k):
        pass

    async def run(self, *a, **k):
        return ("", 0)

    async def get_shell(self, *a, **k):
        raise NotImplementedError

    async def get_stream_reader(self, *a, **k):
        raise NotImplementedError

    async def get_stream_writer(self, *a, **k):
        raise NotImplementedError


class VfFakeWrapper(_Instrumented, ConnectorWrapper):
    def __init__(self, deployment_name, config_dir, connector, service=None, transferBufferSize=1):
        ConnectorWrapper.__init__(self, deployment_name, config_dir, connector, service, transferBufferSize)
        self.vf_iid = REC.new_instance(self)

    async def deploy(self, external):
        await self._op("deploy")

    async def undeploy(self, external):
        await self._op("undeploy")

    async def get_available_locations(self, service=None):
        return await self._use()

    @classmethod
    def get_schema(cls):
        return "{}"


def register():
    connector_classes["vf-c26-fake"] = VfFakeConnector
    connector_classes["vf-c26-wrap"] = VfFakeWrapper


register()
