"""C21 harness: the location table of a shard (real ExecutionLocation objects obtained from real
deployments) and the validation of the `vf-wrap` connector, whose first user this check is.

Deployments (per shard, deployed once through the real DefaultDeploymentManager):
  c21-r   vf-shell  locations r1, r2      (remote, same deployment, two names)
  c21-x   vf-shell  location  x1          (remote, another deployment)
  c21-w   vf-wrap   over c21-r, mounts {<root>/o/m: <root>/i/m, <root>/o/m/deep: <root>/i/d}
                    -> stacked locations w1 (wraps r1), w2 (wraps r2)
  c21-ww  vf-wrap   over c21-w, mounts {<root>/oo: <root>/o/m}  -> ww1 wraps w1 wraps r1 (two levels)
  __LOCAL__         the engine's own local location

Table entries: {"name", "key": (deployment, name), "wraps": index|None, "mounts": {outer: inner}, "loc": ExecutionLocation}
"""
from __future__ import annotations

import os


def bases(root):
    """Symbolic path bases used by the C21 cases -> absolute directories under the shard scratch."""
    return {
        "T": f"{root}/t",  # not under any mount
        "O": f"{root}/o/m",  # mount point of w* (inner: I)
        "D": f"{root}/o/m/deep",  # nested, longer mount point of w* (inner: E)
        "I": f"{root}/i/m",
        "E": f"{root}/i/d",
        "OO": f"{root}/oo",  # mount point of ww1 (inner: O on w1, then I on r1)
    }


async def deploy_locations(ctx, root):
    from streamflow.core.deployment import DeploymentConfig, LocalTarget, WrapsConfig

    b = bases(root)
    dm = ctx.deployment_manager
    await dm.deploy(DeploymentConfig(name="c21-r", type="vf-shell", config={"locations": ["r1", "r2"]}, lazy=False))
    await dm.deploy(DeploymentConfig(name="c21-x", type="vf-shell", config={"locations": ["x1"]}, lazy=False))
    await dm.deploy(DeploymentConfig(name="c21-w", type="vf-wrap", lazy=False,
                                     config={"mounts": {b["O"]: b["I"], b["D"]: b["E"]}, "locations": ["w1", "w2"]},
                                     wraps=WrapsConfig(deployment="c21-r")))
    await dm.deploy(DeploymentConfig(name="c21-ww", type="vf-wrap", lazy=False,
                                     config={"mounts": {b["OO"]: b["O"]}, "locations": ["ww1"]},
                                     wraps=WrapsConfig(deployment="c21-w")))
    await dm.deploy(LocalTarget().deployment)
    got = {}
    for dep in ("c21-r", "c21-x", "c21-w", "c21-ww", "__LOCAL__"):
        conn = dm.get_connector(dep)
        for name, av in (await conn.get_available_locations()).items():
            got[(dep, name)] = av.location
    order = [("c21-r", "r1"), ("c21-r", "r2"), ("c21-x", "x1"), ("c21-w", "w1"), ("c21-w", "w2"), ("c21-ww", "ww1")]
    local_key = next(k for k in got if k[0] == "__LOCAL__")
    order.append(local_key)
    table = []
    for k in order:
        loc = got[k]
        wraps = None
        if loc.wraps is not None:
            wraps = order.index((loc.wraps.deployment, loc.wraps.name))
        table.append({"name": k[1], "key": k, "wraps": wraps, "mounts": dict(loc.mounts), "loc": loc})
    return table


async def validate_vf_wrap(ctx, table, root):
    """What C21 relies on: wrapped ExecutionLocations carry `wraps` + `mounts`, get_inner_path maps
    outer to inner paths by the longest mount, and the mapping is true on disk (data written through
    the wrapper at an outer path is found at the inner path of the wrapped location).
    -> list of problems (empty = validated)."""
    from streamflow.data.remotepath import StreamFlowPath, get_inner_path

    b = bases(root)
    by = {t["name"]: t for t in table}
    bad = []
    w1, r1, ww1 = by["w1"]["loc"], by["r1"]["loc"], by["ww1"]["loc"]
    if w1.wraps != r1 or w1.local or not w1.stacked:
        bad.append(f"w1.wraps={w1.wraps} local={w1.local} stacked={w1.stacked}")
    if dict(w1.mounts) != {b["O"]: b["I"], b["D"]: b["E"]}:
        bad.append(f"w1.mounts={w1.mounts}")
    if ww1.wraps != w1 or dict(ww1.mounts) != {b["OO"]: b["O"]}:
        bad.append(f"ww1.wraps={ww1.wraps} mounts={ww1.mounts}")
    expect = [(w1, b["O"] + "/a/b", b["I"] + "/a/b"), (w1, b["O"], b["I"]), (w1, b["D"] + "/a", b["E"] + "/a"),
              (w1, b["T"] + "/a", None), (w1, root + "/o", None), (ww1, b["OO"] + "/a", b["O"] + "/a"),
              (r1, b["O"] + "/a", None)]
    for loc, outer, inner in expect:
        g = get_inner_path(StreamFlowPath(outer, context=ctx, location=loc))
        if (None if g is None else str(g)) != inner:
            bad.append(f"get_inner_path({loc}, {outer}) = {g}, expected {inner}")
        elif g is not None and g.location != loc.wraps:
            bad.append(f"get_inner_path({loc}, {outer}).location = {g.location}")
    g = get_inner_path(StreamFlowPath(b["OO"] + "/a", context=ctx, location=ww1), recursive=True)
    if g is None or str(g) != b["I"] + "/a" or g.location != r1:
        bad.append(f"recursive get_inner_path(ww1, OO/a) = {g}")
    # on disk, through the connectors (persistent shell of the innermost vf-shell deployment)
    for loc, outer, inner in [(w1, b["O"] + "/probe.txt", b["I"] + "/probe.txt"),
                              (w1, b["D"] + "/probe2.txt", b["E"] + "/probe2.txt"),
                              (ww1, b["OO"] + "/probe3.txt", b["I"] + "/probe3.txt")]:
        await StreamFlowPath(outer, context=ctx, location=loc).write_text("vf " + os.path.basename(outer))
        if not os.path.isfile(inner):
            bad.append(f"file written at {outer} through {loc} is not at {inner}")
            continue
        txt = await StreamFlowPath(inner, context=ctx, location=r1).read_text()
        if txt.strip() != "vf " + os.path.basename(outer):
            bad.append(f"read back {txt!r} from {inner}")
    return bad
