"""C08 workload (b): CWL documents -> the real CWLTranslator, in process.

`gen(rng)` builds a random CWL v1.2 Workflow (JSON-able dict), a job object and a StreamFlow
configuration fragment (deployments / bindings / filters).  The documents are only *translated*
(never executed), so tools may name commands that do not exist; everything the translator creates
(steps, transformers, processors, commands, hardware requirements, targets) is then saved / loaded.
"""
from __future__ import annotations

import os

import yaml

JS = {"InlineJavascriptRequirement": {}}


def _et_add(rng):
    t = {"class": "ExpressionTool", "requirements": dict(JS),
         "inputs": {"a": "int", "b": {"type": "int", "default": rng.randint(0, 20)}},
         "outputs": {"o": "int"}, "expression": "${return {'o': inputs.a + inputs.b};}"}
    if rng.random() < 0.3:
        t["requirements"]["InlineJavascriptRequirement"] = {"expressionLib": ["function f(x){return x+%d;}" % rng.randint(0, 9)]}
        t["expression"] = "${return {'o': f(inputs.a) + inputs.b};}"
    return t


ET_ARR = {"class": "ExpressionTool", "requirements": dict(JS), "inputs": {"n": "int"}, "outputs": {"o": "int[]"},
          "expression": "${var r=[]; for (var i=0;i<inputs.n;i++) r.push(i*2); return {'o': r};}"}
ET_SUM = {"class": "ExpressionTool", "requirements": dict(JS),
          "inputs": {"xs": {"type": {"type": "array", "items": ["null", "int"]}}}, "outputs": {"o": "int"},
          "expression": "${var s=0; for (var i=0;i<inputs.xs.length;i++) s+= (inputs.xs[i]||0); return {'o': s};}"}


def _clt_echo(rng):
    """CommandLineTool with a random selection of binding / requirement features."""
    t = {"class": "CommandLineTool", "baseCommand": rng.choice([["echo"], "vfnoop_1", ["python3", "-c", "print(1)"]]),
         "inputs": {"a": {"type": "int", "inputBinding": {"position": rng.randint(0, 3)}},
                    "s": {"type": "string", "default": rng.choice(["x", "é", ""]),
                          "inputBinding": {"position": 2, "prefix": "--s", "separate": rng.random() < 0.5}}},
         "stdout": "out.txt",
         "outputs": {"o": {"type": "string", "outputBinding": {"glob": "out.txt", "loadContents": True,
                                                               "outputEval": "$(self[0].contents.trim())"}}},
         "requirements": dict(JS)}
    if rng.random() < 0.5:
        t["inputs"]["arr"] = {"type": {"type": "array", "items": "string", "inputBinding": {"prefix": "-i"}},
                              "default": ["p", "q"], "inputBinding": {"position": 4, "itemSeparator": rng.choice([",", None])}}
        if t["inputs"]["arr"]["inputBinding"]["itemSeparator"] is None:
            del t["inputs"]["arr"]["inputBinding"]["itemSeparator"]
    if rng.random() < 0.4:
        t["inputs"]["rec"] = {"type": {"type": "record", "name": "rec", "fields": {
            "x": {"type": "int", "inputBinding": {"prefix": "-x"}},
            "y": {"type": ["null", "string"], "inputBinding": {"prefix": "-y"}}}},
            "default": {"x": 1, "y": "why"}, "inputBinding": {"position": 5}}
    if rng.random() < 0.4:
        t["inputs"]["e"] = {"type": {"type": "enum", "symbols": ["red", "green"]}, "default": "red",
                            "inputBinding": {"position": 6, "shellQuote": False}}
        t["requirements"]["ShellCommandRequirement"] = {}
    if rng.random() < 0.4:
        t["inputs"]["u"] = {"type": ["null", "int", "string"], "inputBinding": {"position": 7, "valueFrom": "$(self)"}}
    if rng.random() < 0.4:
        t["arguments"] = [{"valueFrom": "$(inputs.a + 1)", "position": 9, "prefix": "-z"}, "literal"]
    if rng.random() < 0.4:
        t["requirements"]["EnvVarRequirement"] = {"envDef": {"VF_K": rng.choice(["v", "$(inputs.a)"])}}
    if rng.random() < 0.4:
        t["requirements"]["ResourceRequirement"] = rng.choice([
            {"coresMin": 2, "ramMin": 128}, {"coresMin": "$(inputs.a)", "tmpdirMin": 10, "outdirMin": 20}, {"ramMin": 1.5}])
    if rng.random() < 0.3:
        t["requirements"]["InitialWorkDirRequirement"] = {"listing": [{"entryname": "f.txt", "entry": "$(inputs.s)"}]}
    if rng.random() < 0.3:
        t["successCodes"] = [0, 3]
        t["temporaryFailCodes"] = [4]
        t["permanentFailCodes"] = [5]
    if rng.random() < 0.3:
        t["requirements"]["ToolTimeLimit"] = {"timelimit": rng.choice([10, "$(inputs.a)"])}
    if rng.random() < 0.3:
        t["stdin"] = "$(inputs.s)"
        t["stderr"] = "err.txt"
    if rng.random() < 0.3:
        t["requirements"]["WorkReuse"] = {"enableReuse": False}
    return t


def _clt_files(rng):
    """File / Directory in and out: secondaryFiles, loadListing, format, streamable, record and array outputs."""
    t = {"class": "CommandLineTool", "baseCommand": "vfnoop_2", "requirements": dict(JS),
         "inputs": {"f": {"type": "File", "inputBinding": {"position": 1},
                          "secondaryFiles": rng.choice([[".idx"], [{"pattern": "^.bai", "required": False}], []]),
                          "streamable": rng.random() < 0.5, "loadContents": rng.random() < 0.5},
                    "d": {"type": ["null", "Directory"], "loadListing": rng.choice(["no_listing", "shallow_listing", "deep_listing"])}},
         "outputs": {"of": {"type": "File", "outputBinding": {"glob": "*.txt"}, "secondaryFiles": [".idx?"],
                            "format": "http://edamontology.org/format_2330"},
                     "oa": {"type": {"type": "array", "items": "File"}, "outputBinding": {"glob": ["a*", "b*"]}},
                     "orec": {"type": {"type": "record", "name": "orec", "fields": {
                         "p": {"type": "File", "outputBinding": {"glob": "p"}},
                         "q": {"type": ["null", "string"], "outputBinding": {"outputEval": "$('q')"}}}}},
                     "od": {"type": ["null", "Directory"], "outputBinding": {"glob": "dir", "loadListing": "shallow_listing"}}}}
    if rng.random() < 0.5:
        t["inputs"]["f"]["format"] = "http://edamontology.org/format_2330"
    if rng.random() < 0.3:
        t["requirements"]["LoadListingRequirement"] = {"loadListing": "deep_listing"}
    if rng.random() < 0.3:
        t["requirements"]["InplaceUpdateRequirement"] = {"inplaceUpdate": True}
    if rng.random() < 0.3:
        t["outputs"]["js"] = {"type": "int"}  # only valid through cwl.output.json
    return t


def gen(rng):
    wf = {"cwlVersion": "v1.2", "class": "Workflow",
          "requirements": {"ScatterFeatureRequirement": {}, "MultipleInputFeatureRequirement": {},
                           "InlineJavascriptRequirement": {}, "StepInputExpressionRequirement": {},
                           "SubworkflowFeatureRequirement": {}},
          "inputs": {"i1": "int", "i2": "int", "arr": "int[]", "arr2": "int[]", "flag": "boolean",
                     "f": "File", "d": ["null", "Directory"]},
          "outputs": {}, "steps": {}}
    job = {"i1": rng.randint(0, 12), "i2": rng.randint(0, 5), "arr": [rng.randint(0, 9) for _ in range(rng.choice([0, 1, 3]))],
           "arr2": [rng.randint(0, 9) for _ in range(rng.choice([0, 2, 3]))], "flag": rng.random() < 0.5,
           "f": {"class": "File", "path": "in.txt"}}
    if rng.random() < 0.3:
        wf["inputs"]["opt"] = {"type": ["null", "string"], "default": "dflt"}
    ints = ["i1", "i2"]
    arrs = ["arr", "arr2"]
    kinds = ["add", "add", "add_scatter", "add_scatter2", "arrgen", "sum", "when", "echo", "echo", "merge_sum", "files",
             "same_source", "subwf", "loop"]
    features = []
    for k in range(rng.randint(1, 5)):
        name = f"s{k}"
        kind = rng.choice(kinds)
        features.append(kind)
        if kind == "add":
            st = {"run": _et_add(rng), "in": {"a": rng.choice(ints), "b": rng.choice(ints)}, "out": ["o"]}
            if rng.random() < 0.3:
                st["in"]["b"] = {"source": rng.choice(ints), "valueFrom": "$(self * 2 + inputs.a)"}
            if rng.random() < 0.2:
                st["in"]["b"] = {"default": 7}
            ints.append(f"{name}/o")
        elif kind == "same_source":
            # two input names wired to the SAME source
            src = rng.choice(ints)
            st = {"run": _et_add(rng), "in": {"a": src, "b": src}, "out": ["o"]}
            ints.append(f"{name}/o")
        elif kind == "add_scatter":
            st = {"run": _et_add(rng), "scatter": "a", "in": {"a": rng.choice(arrs), "b": rng.choice(ints)}, "out": ["o"]}
            arrs.append(f"{name}/o")
        elif kind == "add_scatter2":
            m = rng.choice(["dotproduct", "flat_crossproduct", "nested_crossproduct"])
            a1 = rng.choice(arrs)
            a2 = rng.choice(arrs)
            st = {"run": _et_add(rng), "scatter": ["a", "b"], "scatterMethod": m, "in": {"a": a1, "b": a2}, "out": ["o"]}
            if m != "nested_crossproduct":
                arrs.append(f"{name}/o")
            else:
                wf["outputs"][f"{name}_o"] = {"type": {"type": "array", "items": {"type": "array", "items": "int"}},
                                              "outputSource": f"{name}/o"}
        elif kind == "arrgen":
            st = {"run": ET_ARR, "in": {"n": rng.choice(ints)}, "out": ["o"]}
            arrs.append(f"{name}/o")
        elif kind == "sum":
            st = {"run": ET_SUM, "in": {"xs": rng.choice(arrs)}, "out": ["o"]}
            ints.append(f"{name}/o")
        elif kind == "merge_sum":
            srcs = rng.sample(ints, min(len(ints), rng.randint(2, 3)))
            st = {"run": ET_SUM, "in": {"xs": {"source": srcs, "linkMerge": rng.choice(["merge_nested", "merge_flattened"])}}, "out": ["o"]}
            if rng.random() < 0.3:
                st["in"]["xs"]["pickValue"] = "all_non_null"
            ints.append(f"{name}/o")
        elif kind == "when":
            st = {"run": _et_add(rng), "when": rng.choice(["$(inputs.a > 3)", "$(inputs.flag)"]),
                  "in": {"a": rng.choice(ints), "b": rng.choice(ints), "flag": "flag"}, "out": ["o"]}
            wf["outputs"][f"{name}_o"] = {"type": ["null", "int"], "outputSource": f"{name}/o"}
            wf["outputs"][f"{name}_pv"] = {"type": "int", "outputSource": [f"{name}/o", rng.choice(["i1", "i2"])],
                                           "pickValue": rng.choice(["first_non_null", "the_only_non_null"])}
            wf["outputs"][f"{name}_all"] = {"type": "int[]", "outputSource": [f"{name}/o", "i1"], "pickValue": "all_non_null"}
        elif kind == "echo":
            st = {"run": _clt_echo(rng), "in": {"a": rng.choice(ints)}, "out": ["o"]}
            if rng.random() < 0.3:
                st["scatter"] = "a"
                st["in"]["a"] = rng.choice(arrs)
                wf["outputs"][f"{name}_o"] = {"type": "string[]", "outputSource": f"{name}/o"}
            else:
                wf["outputs"][f"{name}_o"] = {"type": "string", "outputSource": f"{name}/o"}
        elif kind == "files":
            tool = _clt_files(rng)
            st = {"run": tool, "in": {"f": "f", "d": "d"}, "out": [o for o in tool["outputs"]]}
            wf["outputs"][f"{name}_of"] = {"type": "File", "outputSource": f"{name}/of"}
            wf["outputs"][f"{name}_oa"] = {"type": "File[]", "outputSource": f"{name}/oa"}
        elif kind == "subwf":
            inner = {"class": "Workflow", "requirements": dict(JS), "inputs": {"x": "int", "y": {"type": "int", "default": 3}},
                     "outputs": {"o": {"type": "int", "outputSource": "in0/o"}},
                     "steps": {"in0": {"run": _et_add(rng), "in": {"a": "x", "b": "y"}, "out": ["o"]}}}
            st = {"run": inner, "in": {"x": rng.choice(ints)}, "out": ["o"]}
            ints.append(f"{name}/o")
        elif kind == "loop":
            wf["$namespaces"] = {"cwltool": "http://commonwl.org/cwltool#"}
            wf["requirements"]["StepInputExpressionRequirement"] = {}
            st = {"run": _et_add(rng), "in": {"a": rng.choice(ints), "b": rng.choice(ints)}, "out": ["o"],
                  "requirements": {"cwltool:Loop": {"loopWhen": "$(inputs.a < 20)",
                                                    "loop": {"a": rng.choice(["o", {"loopSource": "o", "valueFrom": "$(self + 1)"}])},
                                                    "outputMethod": rng.choice(["last", "all"])}}}
            if st["requirements"]["cwltool:Loop"]["outputMethod"] == "all":
                arrs.append(f"{name}/o")
            else:
                ints.append(f"{name}/o")
        wf["steps"][name] = st
    for i, s in enumerate(ints[2:]):
        wf["outputs"][f"oi{i}"] = {"type": "int", "outputSource": s}
    for i, s in enumerate(arrs[2:]):
        wf["outputs"][f"oa{i}"] = {"type": "int[]", "outputSource": s}
    if not wf["outputs"]:
        wf["outputs"]["x"] = {"type": "int", "outputSource": "i1"}
    # StreamFlow side: deployments, bindings, filters
    sf = {}
    if rng.random() < 0.5 and wf["steps"]:
        sf["deployments"] = {
            "d-ssh": {"type": "ssh", "config": {"nodes": ["n1", {"hostname": "n2"}], "username": "é"}, "workdir": "/remote/wd",
                      "lazy": rng.random() < 0.5, "external": rng.random() < 0.5},
            "d-dock": {"type": "docker", "config": {"image": "img:1"}, "wraps": rng.choice(["d-ssh", {"deployment": "d-ssh", "service": "svc"}])},
        }
        sf["bindingFilters"] = {"flt": {"type": "shuffle", "config": {}}}
        sf["scheduling"] = {"policies": {"pol": {"type": "data_locality", "config": {}}}}
        if rng.random() < 0.5:
            sf["deployments"]["d-ssh"]["scheduling_policy"] = "pol"
        step = rng.choice(list(wf["steps"]))
        tgt = [{"deployment": "d-ssh", "locations": rng.randint(1, 3), "service": rng.choice([None, "s1"]), "workdir": rng.choice([None, "/w/x"])}]
        for t in tgt:
            for k in [k for k, v in t.items() if v is None]:
                del t[k]
        if rng.random() < 0.5:
            tgt.append({"deployment": "d-dock"})
        b = {"step": "/" + step, "target": tgt if len(tgt) > 1 or rng.random() < 0.5 else tgt[0]}
        if rng.random() < 0.5:
            b["filters"] = ["flt"]
        sf["bindings"] = [b]
        if rng.random() < 0.4:
            sf["bindings"].append({"port": "/f", "target": {"deployment": "d-ssh", "workdir": "/data"}})
    return wf, job, sf, features


def write_case(workdir, wf, job):
    os.makedirs(workdir, exist_ok=True)
    with open(os.path.join(workdir, "in.txt"), "w") as f:
        f.write("x")
    with open(os.path.join(workdir, "w.cwl"), "w") as f:
        yaml.safe_dump(wf, f)
    with open(os.path.join(workdir, "j.yml"), "w") as f:
        yaml.safe_dump(job, f)
    return os.path.join(workdir, "w.cwl"), os.path.join(workdir, "j.yml")


def translate(ctx, workdir, cwl_path, job_path, sf, name):
    """The same steps as streamflow.cwl.main.main up to `translator.translate()`."""
    import cwl_utils.parser
    import cwl_utils.parser.utils
    from streamflow.config.config import WorkflowConfig
    from streamflow.cwl.translator import CWLTranslator

    wcfg = {"type": "cwl", "config": {"file": cwl_path}}
    if job_path:
        wcfg["config"]["settings"] = job_path
    if sf.get("bindings"):
        wcfg["bindings"] = sf["bindings"]
    cfg = {"version": "v1.0", "workflows": {name: wcfg}, "path": workdir}
    for k in ("deployments", "bindingFilters", "scheduling"):
        if k in sf:
            cfg[k] = sf[k]
    wc = WorkflowConfig(name, cfg)
    cwl_def = cwl_utils.parser.load_document_by_uri(cwl_path)
    cwl_in = {}
    if job_path:
        cwl_in = cwl_utils.parser.utils.load_inputfile_by_uri(version=cwl_def.cwlVersion, path=job_path,
                                                             loadingOptions=cwl_def.loadingOptions)
    tr = CWLTranslator(context=ctx, name=name, output_directory=workdir, cwl_definition=cwl_def, cwl_inputs=cwl_in,
                       cwl_inputs_path=job_path, workflow_config=wc)
    return tr.translate()
