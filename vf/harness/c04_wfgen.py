"""c04_wfgen — random dataflow *programs* over the engine's real step classes, shared by the
checks C04 (termination), C05 (schedule independence) and C07 (provenance).

A program is a JSON dict {"ops": [...], "outs": [...], "fail": None|{...}, "cls": ...}.  Every op
creates one or two named *streams* (a stream = one Port).  `denote(prog)` evaluates the same graph
on plain Python values (dict tag -> value), without touching StreamFlow: it is the interpreter
independent denotation used as output oracle.  `build()` wires the program out of the real classes
(`Transformer`, `ScatterStep`, `GatherStep`, `CombinatorStep` + Dot/Cartesian combinators,
`ConditionalStep` with skip ports, `DeployStep -> ScheduleStep -> ExecuteStep`, and — the way
`CWLTranslator` wires them — loops: input forwarders, `LoopCombinatorStep`, loop conditional,
body, output forwarder, `LoopOutputStep`, `LoopTerminationCombinator`, back-propagation).

`run_program()` executes one program under one perturbation seed inside a fresh event loop with
`vf.perturb.run_quiescent`, drives the loop to quiescence afterwards and returns *observations
only* (statuses, termination tokens, pending tasks, outputs, trace, monitor records, raw SQL
tables); each check applies its own oracle to them.

Op kinds (x, xs = input streams; o, os = output streams):
  src      {"o", "v"}                        one token tag "0"
  map      {"x", "o", "f"}                    Transformer, 1 input
  shuf     {"x", "o"}                         harness barrier step: re-emits its tokens in a seeded permutation
                                              (what concurrent jobs of an ExecuteStep do with completion order)
  zip      {"xs", "o", "f"}                   Transformer, 2..3 inputs of the same shape
  exec     {"xs", "o", "f", "slow"[, "targets"]}  [dot CombinatorStep if 2 inputs ->] Schedule -> Execute
                                              "targets": indices (2..3 of 0,1,2) of distinct local deployments; the
                                              BindingConfig then lists that many alternative targets and every
                                              deployment's DeployStep connector port is wired into the ScheduleStep
  scatter  {"x", "o"}                         ScatterStep (new dimension named o)
  gather   {"x", "o"}                         GatherStep over the innermost dimension of x
  dot      {"xs", "os"}                       CombinatorStep(DotProductCombinator), broadcast of parents
  cart     {"xs", "os"}                       CombinatorStep(CartesianProductCombinator(depth=1))
  cartdot  {"xs", "os"}                       CombinatorStep(Dot(Cart(a, b), c))  (CWL "residual" form)
  cond     {"x", "o", "p", "f"}               ConditionalStep(p) -> Transformer f, skip port = o
  loop     {"x", "o", "p", "f", "body"}       while p(s): s = f(s)   (body = "fn" | "exec"), last value
"""
from __future__ import annotations

import asyncio
import hashlib
import json
import logging
import os
import posixpath
import shutil
import time

from vf.perturb import Deadlock, Sched, WallTimeout, pending_engine_tasks, run_quiescent, settle

# --------------------------------------------------------------------------------------------
# plain-value functions (total over int | None | nested lists)
# --------------------------------------------------------------------------------------------


def _inc(v):
    if v is None:
        return None
    if isinstance(v, list):
        return [_inc(e) for e in v]
    return v + 1


def _dbl(v):
    if v is None:
        return None
    if isinstance(v, list):
        return [_dbl(e) for e in v]
    return v * 2


def _dec(v):
    if v is None:
        return None
    if isinstance(v, list):
        return v[:-1]
    return v - 1


def _iota(v):
    if v is None:
        return []
    if isinstance(v, list):
        return list(range(len(v)))
    return list(range(abs(v) % 5))


def _iota11(v):
    n = 0 if v is None else (len(v) if isinstance(v, list) else abs(v))
    return list(range(11 + n % 3))


def _cnt(v):
    if v is None:
        return 0
    if isinstance(v, list):
        return len(v)
    return v


def _add(a, b):
    if isinstance(a, int) and isinstance(b, int):
        return a + b
    return [a, b]


def _mul(a, b):
    return a * b


FUNCS1 = {"id": lambda v: v, "inc": _inc, "dbl": _dbl, "dec": _dec, "iota": _iota, "iota11": _iota11,
          "wrap": lambda v: [v, v], "cnt": _cnt}
FUNCS2 = {"pair": lambda a, b: [a, b], "add": _add, "mul": _mul}
FUNCS3 = {"tri": lambda a, b, c: [a, b, c]}
FUNCS = {**FUNCS1, **FUNCS2, **FUNCS3}

PREDS = {
    "even": lambda v: (_cnt(v) % 2 == 0),
    "pos": lambda v: (_cnt(v) > 0),
    "small": lambda v: (_cnt(v) < 3),
    "always": lambda v: True,
    "never": lambda v: False,
}

# loop step functions must make the predicate eventually false; (pred, fn) pairs with bounded iteration
LOOPS = [("pos", "dec"), ("small", "inc"), ("never", "inc"), ("pos", "dec")]


class Injected(Exception):
    """Failure injected by the harness."""


_FIRED: list = []  # (where, tag) of every injected failure that actually fired in the current run


def _fire(where, tag):
    # third field: how many Port.get completions the monitor had recorded when the failure fired
    _FIRED.append((where, tag, len(_REC.gets) if _REC is not None else None))


# --------------------------------------------------------------------------------------------
# denotation
# --------------------------------------------------------------------------------------------


def _width(dim):
    return 1 if dim[0] == "s" else 2


def _depth(shape):
    return 1 + sum(_width(d) for d in shape)


def _pref(tag, n):
    """first n components of tag"""
    return ".".join(tag.split(".")[:n])


def _loop_den(p, f, v, cap=64):
    n = 0
    while PREDS[p](v):
        v = FUNCS[f](v)
        n += 1
        if n > cap:
            raise ValueError("loop does not terminate")
    return v, n


def denote(prog):
    """-> (streams: name -> {tag: value}, shapes: name -> list of dims, sizes: dim id -> {tag: n},
           iters: loop o -> {tag: iteration count})"""
    streams, shapes, sizes, iters = {}, {}, {}, {}
    for op in prog["ops"]:
        k = op["k"]
        if k == "src":
            streams[op["o"]] = {"0": op["v"]}
            shapes[op["o"]] = []
        elif k == "map":
            x = op["x"]
            streams[op["o"]] = {t: FUNCS[op["f"]](v) for t, v in streams[x].items()}
            shapes[op["o"]] = shapes[x]
        elif k == "shuf":
            streams[op["o"]] = dict(streams[op["x"]])
            shapes[op["o"]] = shapes[op["x"]]
        elif k in ("zip", "exec"):
            xs = op["xs"]
            deep = max(xs, key=lambda s: _depth(shapes[s]))
            out = {}
            for t in streams[deep]:
                vals = [streams[x][_pref(t, _depth(shapes[x]))] for x in xs]
                out[t] = FUNCS[op["f"]](*vals)
            streams[op["o"]] = out
            shapes[op["o"]] = shapes[deep]
        elif k == "scatter":
            x, o = op["x"], op["o"]
            sizes[o] = {t: len(v) for t, v in streams[x].items()}
            streams[o] = {f"{t}.{i}": e for t, v in streams[x].items() for i, e in enumerate(v)}
            shapes[o] = shapes[x] + [["s", o]]
        elif k == "gather":
            x, o = op["x"], op["o"]
            d = shapes[x][-1]
            out = {}
            if d[0] == "s":
                for t, n in sizes[d[1]].items():
                    out[t] = [streams[x][f"{t}.{i}"] for i in range(n)]
            else:
                for t, na in sizes[d[1]].items():
                    nb = sizes[d[2]][t]
                    out[t] = [streams[x][f"{t}.{i}.{j}"] for i in range(na) for j in range(nb)]
            streams[o] = out
            shapes[o] = shapes[x][:-1]
        elif k == "dot":
            xs = op["xs"]
            deep = max(xs, key=lambda s: _depth(shapes[s]))
            for x, o in zip(xs, op["os"]):
                streams[o] = {t: streams[x][_pref(t, _depth(shapes[x]))] for t in streams[deep]}
                shapes[o] = shapes[deep]
        elif k in ("cart", "cartdot"):
            a, b = op["xs"][0], op["xs"][1]
            da, db = shapes[a][-1][1], shapes[b][-1][1]
            S = shapes[a][:-1]
            oa, ob = {}, {}
            tags = []
            for p, na in sizes[da].items():
                for i in range(na):
                    for j in range(sizes[db][p]):
                        t = f"{p}.{i}.{j}"
                        tags.append((t, p))
                        oa[t] = streams[a][f"{p}.{i}"]
                        ob[t] = streams[b][f"{p}.{j}"]
            shp = S + [["c", da, db]]
            streams[op["os"][0]], streams[op["os"][1]] = oa, ob
            shapes[op["os"][0]] = shapes[op["os"][1]] = shp
            if k == "cartdot":
                c = op["xs"][2]
                streams[op["os"][2]] = {t: streams[c][_pref(t, _depth(shapes[c]))] for t, _ in tags}
                shapes[op["os"][2]] = shp
        elif k == "cond":
            x = op["x"]
            streams[op["o"]] = {t: (FUNCS[op["f"]](v) if PREDS[op["p"]](v) else None) for t, v in streams[x].items()}
            shapes[op["o"]] = shapes[x]
        elif k == "loop":
            x = op["x"]
            out, it = {}, {}
            for t, v in streams[x].items():
                # CWL loop semantics: the output is the body's last result, null when no iteration ran
                last, it[t] = _loop_den(op["p"], op["f"], v)
                out[t] = last if it[t] > 0 else None
            streams[op["o"]] = out
            iters[op["o"]] = it
            shapes[op["o"]] = shapes[x]
        else:
            raise ValueError(k)
    return streams, shapes, sizes, iters


def op_inputs(op):
    if "xs" in op:
        return list(op["xs"])
    if "x" in op:
        return [op["x"]]
    return []


def op_outputs(op):
    if "os" in op:
        return list(op["os"])
    return [op["o"]]


# --------------------------------------------------------------------------------------------
# generator
# --------------------------------------------------------------------------------------------

SRC_VALUES = [3, 7, 12, 0, 1, [1, 2, 3], list(range(11)), [], [[1, 2], [3]], [5], [[], [1], [2, 3]],
              [4, 0, 9, 2], [[1], [2, 2], [3, 3, 3]], list(range(12, 0, -1))]


def gen_program(rng, cls="plain", max_ops=10, max_depth=4, max_tags=48, loops=True):
    """cls: 'plain' (every step reaches a workflow output), 'side' (a branch that reaches no output,
    optionally slow), 'fail' (plain + one injected failure)."""
    ops = []
    cnt = [0]

    def fresh():
        cnt[0] += 1
        return f"p{cnt[0]}"

    for i in range(rng.randint(1, 3)):
        ops.append({"k": "src", "o": f"s{i}", "v": rng.choice(SRC_VALUES)})

    def state():
        return denote({"ops": ops})

    def with_targets(op):
        """a seeded share of the schedule/execute pipelines is bound to 2-3 alternative local deployments"""
        if rng.random() < 0.4:
            op["targets"] = sorted(rng.sample([0, 1, 2], rng.choice([2, 2, 3])))
        return op

    def try_add(new_ops):
        trial = ops + new_ops
        try:
            st, sh, _, _ = denote({"ops": trial})
        except (KeyError, ValueError, TypeError, IndexError):
            return False
        for op in new_ops:
            for o in op_outputs(op):
                if len(st[o]) > max_tags or _depth(sh[o]) > max_depth:
                    return False
        ops.extend(new_ops)
        return True

    kinds = ["map"] * 4 + ["zip"] * 2 + ["exec"] * 3 + ["scatter"] * 4 + ["gather"] * 5 + ["dot"] * 2 + \
            ["cart"] * 2 + ["cartdot"] + ["cond"] * 2 + ["diamond"] * 3 + ["shuf"] * 2 + (["loop"] * 2 if loops else [])
    target = rng.randint(2, max_ops)
    attempts = 0
    while sum(1 for o in ops if o["k"] != "src") < target and attempts < 200:
        attempts += 1
        streams, shapes, sizes, _ = state()
        names = list(streams)
        x = rng.choice(names)
        k = rng.choice(kinds)
        # prefer gathering open dimensions so that nests close
        if k == "gather" and not shapes[x]:
            deep = [s for s in names if shapes[s]]
            if not deep:
                continue
            x = rng.choice(deep)
        if k == "map":
            try_add([{"k": "map", "x": x, "o": fresh(), "f": rng.choice(list(FUNCS1))}])
        elif k == "zip":
            same = [s for s in names if shapes[s] == shapes[x]]
            n = rng.choice([2, 2, 3])
            xs = [x] + [rng.choice(same) for _ in range(n - 1)]
            try_add([{"k": "zip", "xs": xs, "o": fresh(), "f": "tri" if n == 3 else rng.choice(["pair", "add"])}])
        elif k == "exec":
            xs = [x]
            if rng.random() < 0.4:
                comp = [s for s in names if _is_prefix(shapes[s], shapes[x])]
                xs.append(rng.choice(comp))
            f = rng.choice(list(FUNCS1)) if len(xs) == 1 else rng.choice(["pair", "add"])
            try_add([with_targets({"k": "exec", "xs": xs, "o": fresh(), "f": f, "slow": 0})])
        elif k == "scatter":
            if not streams[x] or not all(isinstance(v, list) for v in streams[x].values()):
                # make it scatterable first
                y = fresh()
                if not try_add([{"k": "map", "x": x, "o": y, "f": rng.choice(["iota", "iota", "wrap", "iota11"])}]):
                    continue
                x = y
            try_add([{"k": "scatter", "x": x, "o": fresh()}])
        elif k == "gather":
            if shapes[x]:
                try_add([{"k": "gather", "x": x, "o": fresh()}])
        elif k == "dot":
            comp = [s for s in names if _is_prefix(shapes[s], shapes[x])]
            n = rng.choice([2, 2, 3])
            xs = [x] + [rng.choice(comp) for _ in range(n - 1)]
            rng.shuffle(xs)
            try_add([{"k": "dot", "xs": xs, "os": [fresh() for _ in xs]}])
        elif k in ("cart", "cartdot"):
            if not shapes[x] or shapes[x][-1][0] != "s":
                continue
            cands = [s for s in names if shapes[s] and shapes[s][-1][0] == "s" and shapes[s][:-1] == shapes[x][:-1]
                     and shapes[s][-1][1] != shapes[x][-1][1]]
            if not cands:
                # create a sibling scatter over a stream of the parent shape
                par = [s for s in names if shapes[s] == shapes[x][:-1]]
                if not par:
                    continue
                z = rng.choice(par)
                y1, y2 = fresh(), fresh()
                if not try_add([{"k": "map", "x": z, "o": y1, "f": rng.choice(["iota", "wrap"])},
                                {"k": "scatter", "x": y1, "o": y2}]):
                    continue
                cands = [y2]
            z = rng.choice(cands)
            if k == "cart":
                try_add([{"k": "cart", "xs": [x, z], "os": [fresh(), fresh()]}])
            else:
                streams, shapes, sizes, _ = state()
                par = [s for s in streams if _is_prefix(shapes[s], shapes[x][:-1])]
                if not par:
                    continue
                try_add([{"k": "cartdot", "xs": [x, z, rng.choice(par)], "os": [fresh(), fresh(), fresh()]}])
        elif k == "cond":
            try_add([{"k": "cond", "x": x, "o": fresh(), "p": rng.choice(list(PREDS)), "f": rng.choice(list(FUNCS1))}])
        elif k == "shuf":
            if len(streams[x]) >= 2:
                try_add([{"k": "shuf", "x": x, "o": fresh()}])
        elif k == "diamond":
            # a multi-token stream and the same stream through an ExecuteStep (jobs complete in a seeded order),
            # re-joined by tag: the two ports of the join see different arrival orders
            if not shapes[x] or len(streams[x]) < 2:
                continue
            y = fresh()
            first = ({"k": "shuf", "x": x, "o": y} if rng.random() < 0.6 else
                     with_targets({"k": "exec", "xs": [x], "o": y, "f": rng.choice(["inc", "id", "dbl", "cnt"]), "slow": 0}))
            if try_add([first]):
                if rng.random() < 0.7:
                    xs = [x, y]
                    rng.shuffle(xs)
                    try_add([{"k": "zip", "xs": xs, "o": fresh(), "f": "pair"}])
                else:
                    try_add([{"k": "dot", "xs": [x, y], "os": [fresh(), fresh()]}])
        elif k == "loop":
            p, f = rng.choice(LOOPS)
            lop = {"k": "loop", "x": x, "o": fresh(), "p": p, "f": f, "body": rng.choice(["fn", "fn", "exec"])}
            try_add([with_targets(lop) if lop["body"] == "exec" else lop])

    # close some open dimensions (so that gathers occur after the nests)
    for _ in range(3):
        streams, shapes, _, _ = state()
        consumed = {s for o in ops for s in op_inputs(o)}
        open_leaves = [s for s in streams if s not in consumed and shapes[s]]
        if not open_leaves or rng.random() < 0.3:
            break
        try_add([{"k": "gather", "x": rng.choice(open_leaves), "o": fresh()}])

    streams, shapes, _, _ = state()
    consumed = {s for o in ops for s in op_inputs(o)}
    outs = [s for s in streams if s not in consumed]
    extra = [s for s in streams if s in consumed and rng.random() < 0.15]
    outs += extra
    prog = {"ops": ops, "outs": outs, "fail": None, "cls": cls}

    if cls == "side":
        # a branch hanging off any stream, whose last stream is NOT a workflow output
        x = rng.choice(list(streams))
        slow = rng.choice([0, 0, 40, 120, 300])
        n = rng.randint(1, 3)
        side_ops = []
        for i in range(n):
            y = fresh()
            kk = rng.choice(["map", "map", "exec", "cond"])
            if kk == "map":
                side_ops.append({"k": "map", "x": x, "o": y, "f": rng.choice(["inc", "id", "wrap"]), "slow": slow if i == 0 else 0})
            elif kk == "exec":
                side_ops.append(with_targets({"k": "exec", "xs": [x], "o": y, "f": rng.choice(["inc", "id"]), "slow": slow if i == 0 else 0}))
            else:
                side_ops.append({"k": "cond", "x": x, "o": y, "p": rng.choice(list(PREDS)), "f": "inc", "slow": slow if i == 0 else 0})
            x = y
        ops.extend(side_ops)
        prog["side"] = {"slow": slow, "ops": [o["o"] for o in side_ops]}
    elif cls == "fail":
        EXEC_MODES = ["cmd_status", "cmd_raise", "sched_raise", "proc_raise"]
        _, _, _, iters = state()
        cands = []
        for i, op in enumerate(ops):
            k = op["k"]
            if k in ("map", "zip"):
                cands += [(i, t, "fn_raise") for t in streams[op["o"]]]
            elif k == "exec":
                cands += [(i, t, m) for t in streams[op["o"]] for m in EXEC_MODES]
            elif k == "cond":
                for t, v in streams[op["x"]].items():
                    cands.append((i, t, "pred_raise"))
                    if PREDS[op["p"]](v):
                        cands.append((i, t, "fn_raise"))
            elif k == "loop":
                for t, n in iters[op["o"]].items():
                    for j in range(n):  # the body runs at iteration tags t.0 .. t.(n-1)
                        cands += [(i, f"{t}.{j}", m) for m in (EXEC_MODES if op.get("body") == "exec" else ["fn_raise"])]
        if cands:
            i, t, mode = rng.choice(cands)
            prog["fail"] = {"op": i, "tag": t, "mode": mode}
        else:
            prog["cls"] = "plain"
    return prog


# Hand-written minimal programs of the listed findings (run first by shard 0 of C04 / C05 so that the
# mechanisms are always exercised, whatever the random generator produces).
CRAFTED = {
    "side_branch_slow": {
        "ops": [{"k": "src", "o": "s0", "v": 3}, {"k": "map", "x": "s0", "o": "p1", "f": "inc"},
                {"k": "map", "x": "s0", "o": "p2", "f": "inc", "slow": 40}],
        "outs": ["p1"], "fail": None, "cls": "side", "side": {"slow": 40, "ops": ["p2"]}},
    "side_branch_exec": {
        "ops": [{"k": "src", "o": "s0", "v": [1, 2, 3]}, {"k": "map", "x": "s0", "o": "p1", "f": "inc"},
                {"k": "map", "x": "p1", "o": "p2", "f": "id", "slow": 40},
                {"k": "exec", "xs": ["p2"], "o": "p3", "f": "inc", "slow": 0}],
        "outs": ["p1"], "fail": None, "cls": "side", "side": {"slow": 40, "ops": ["p2", "p3"]}},
    "loop_skipped_input_0_iterations": {
        "ops": [{"k": "src", "o": "s0", "v": 0}, {"k": "cond", "x": "s0", "o": "p1", "p": "never", "f": "inc"},
                {"k": "loop", "x": "p1", "o": "p2", "p": "never", "f": "inc", "body": "fn"}],
        "outs": ["p2"], "fail": None, "cls": "plain"},
    "loop_skipped_input_2_iterations": {
        "ops": [{"k": "src", "o": "s0", "v": 0}, {"k": "cond", "x": "s0", "o": "p1", "p": "never", "f": "inc"},
                {"k": "map", "x": "p1", "o": "p3", "f": "wrap"},
                {"k": "loop", "x": "p3", "o": "p2", "p": "pos", "f": "dec", "body": "fn"}],
        "outs": ["p2"], "fail": None, "cls": "plain"},
    "exec_three_alternative_targets": {
        "ops": [{"k": "src", "o": "s0", "v": [1, 2, 3]}, {"k": "scatter", "x": "s0", "o": "p1"},
                {"k": "exec", "xs": ["p1"], "o": "p2", "f": "inc", "slow": 0, "targets": [0, 1, 2]},
                {"k": "gather", "x": "p2", "o": "p3"}],
        "outs": ["p3"], "fail": None, "cls": "plain"},
    "fail_schedule_raises": {
        "ops": [{"k": "src", "o": "s0", "v": [1, 2, 3]}, {"k": "scatter", "x": "s0", "o": "p1"},
                {"k": "exec", "xs": ["p1"], "o": "p2", "f": "inc", "slow": 0}, {"k": "gather", "x": "p2", "o": "p3"}],
        "outs": ["p3"], "fail": {"op": 2, "tag": "0.1", "mode": "sched_raise"}, "cls": "fail"},
    "fail_command_status": {
        "ops": [{"k": "src", "o": "s0", "v": [1, 2, 3]}, {"k": "scatter", "x": "s0", "o": "p1"},
                {"k": "exec", "xs": ["p1"], "o": "p2", "f": "inc", "slow": 0, "targets": [0, 1]},
                {"k": "gather", "x": "p2", "o": "p3"}],
        "outs": ["p3"], "fail": {"op": 2, "tag": "0.2", "mode": "cmd_status"}, "cls": "fail"},
    "fail_schedule_raises_in_loop_body_later_iteration": {
        # instance 0.0 (1 iteration) completes and emits its output; scheduling of the third job of instance 0.1 fails
        "ops": [{"k": "src", "o": "s0", "v": [1, 4]}, {"k": "scatter", "x": "s0", "o": "p1"},
                {"k": "loop", "x": "p1", "o": "p2", "p": "pos", "f": "dec", "body": "exec"}],
        "outs": ["p2"], "fail": {"op": 2, "tag": "0.1.2", "mode": "sched_raise"}, "cls": "fail"},
    "fail_command_raises_in_scattered_loop_body": {
        # the failing job of instance 0.0 completes while inputs of the other instances keep arriving (race, ~5-15 %)
        "ops": [{"k": "src", "o": "s0", "v": [1, 2, 3, 4]}, {"k": "scatter", "x": "s0", "o": "p1"},
                {"k": "loop", "x": "p1", "o": "p2", "p": "pos", "f": "dec", "body": "exec"},
                {"k": "gather", "x": "p2", "o": "p3"}],
        "outs": ["p3"], "fail": {"op": 2, "tag": "0.0.0", "mode": "cmd_raise"}, "cls": "fail"},
    "loop_completed_input": {
        "ops": [{"k": "src", "o": "s0", "v": 2}, {"k": "loop", "x": "s0", "o": "p1", "p": "pos", "f": "dec", "body": "exec"}],
        "outs": ["p1"], "fail": None, "cls": "plain"},
}


def _is_prefix(a, b):
    """shape a is a (non-strict) prefix of shape b"""
    return len(a) <= len(b) and b[: len(a)] == a


def program_key(prog):
    return hashlib.sha256(json.dumps(prog, sort_keys=True).encode()).hexdigest()[:16]


def op_histogram(prog):
    h = {}
    for o in prog["ops"]:
        h[o["k"]] = h.get(o["k"], 0) + 1
    return h


# --------------------------------------------------------------------------------------------
# monitor (wrappers on Port.put / Port.get / BaseStep._persist_token / BaseStep.terminate)
# --------------------------------------------------------------------------------------------


class Recorder:
    def __init__(self):
        self.trace = []  # (label, event, tag)
        self.puts = []  # (port name, token obj)
        self.gets = []  # (consumer string, port name, token obj)
        self.persists = []  # (step name, token obj, port name, tuple(input ids passed by the step))
        self.terms = []  # (step name, status name)
        self.n_put = self.n_get = self.n_persist = self.n_term = 0


_REC: Recorder | None = None
_installed = False


def install_monitor():
    global _installed
    if _installed:
        return
    _installed = True
    from streamflow.core.workflow import Port
    from streamflow.workflow.step import BaseStep
    from streamflow.workflow.token import TerminationToken

    orig_put, orig_get = Port.put, Port.get
    orig_persist, orig_term = BaseStep._persist_token, BaseStep.terminate

    def put(self, token):
        rec = _REC
        if rec is not None:
            rec.n_put += 1
            Sched.events += 1
            rec.puts.append((self.name, token))
            if isinstance(token, TerminationToken):
                rec.trace.append((self.name, "put", "T:" + token.value.name))
            else:
                rec.trace.append((self.name, "put", type(token).__name__[0] + ":" + token.tag))
        return orig_put(self, token)

    async def get(self, consumer):
        token = await orig_get(self, consumer)
        rec = _REC
        if rec is not None:
            rec.n_get += 1
            rec.gets.append((consumer, self.name, token))
        return token

    async def _persist_token(self, token, port, input_token_ids):
        rec = _REC
        ids = tuple(input_token_ids)
        r = await orig_persist(self, token, port, input_token_ids)
        if rec is not None:
            rec.n_persist += 1
            rec.persists.append((self.name, r, port.name, ids))
        return r

    async def terminate(self, status):
        rec = _REC
        if rec is not None and not self.terminated:
            rec.n_term += 1
            rec.terms.append((self.name, status.name))
            rec.trace.append((self.name, "term", status.name))
        return await orig_term(self, status)

    Port.put = put
    Port.get = get
    BaseStep._persist_token = _persist_token
    BaseStep.terminate = terminate


# --------------------------------------------------------------------------------------------
# harness step classes (defined lazily: they subclass the streamflow under test)
# --------------------------------------------------------------------------------------------

_CLS = None


def classes():
    global _CLS
    if _CLS is not None:
        return _CLS
    from streamflow.core.exception import WorkflowExecutionException
    from streamflow.core.utils import get_entity_ids, get_tag
    from streamflow.core.workflow import Command, CommandOutput, Status, Token
    from streamflow.workflow.step import (
        BaseStep,
        ConditionalStep,
        DefaultCommandOutputProcessor,
        LoopOutputStep,
        ScheduleStep,
        Transformer,
    )
    from streamflow.workflow.token import IterationTerminationToken, ListToken, TerminationToken

    def to_token(v, tag):
        if isinstance(v, list):
            return ListToken(value=[to_token(e, tag) for e in v], tag=tag)
        return Token(value=v, tag=tag)

    def from_token(t):
        return [from_token(e) for e in t.value] if isinstance(t, ListToken) else t.value

    async def spend(slow, k):
        """harness 'duration': a fixed number of loop turns plus a seeded jitter"""
        Sched.inflight += 1
        try:
            for _ in range(slow):
                await asyncio.sleep(0)
            await Sched.jitter(k)
        finally:
            Sched.inflight -= 1

    class VfFn(Transformer):
        fname = "id"
        slow = 0
        fail_tags = ()
        out_name = "o"

        async def transform(self, inputs):
            tag = get_tag(inputs.values())
            await spend(self.slow, 5)
            if tag in self.fail_tags:
                _fire(self.name, tag)
                raise Injected(f"transformer {self.name} fails at {tag}")
            vals = [from_token(inputs[k]) for k in sorted(inputs)]
            return {self.out_name: to_token(FUNCS[self.fname](*vals), tag)}

    class VfForward(Transformer):
        """what cwl ForwardTransformer does: re-emit the single input token"""

        async def transform(self, inputs):
            token = next(iter(inputs.values()))
            return {next(iter(self.output_ports)): token.update(token.value)}

    class VfShuffle(BaseStep):
        """Barrier: collects its input until termination, then re-emits copies in a seeded permutation."""

        async def run(self):
            try:
                port = self.get_input_port()
                cname = posixpath.join(self.name, next(iter(self.input_ports)))
                toks = []
                while True:
                    t = await port.get(cname)
                    if isinstance(t, TerminationToken):
                        status = t.value
                        break
                    toks.append(t)
                if Sched.enabled:
                    Sched.rng.shuffle(toks)
                out = self.get_output_port()
                for t in toks:
                    out.put(await self._persist_token(token=t.update(t.value), port=out, input_token_ids=get_entity_ids([t])))
                await self.terminate(self._get_status(status))
            except asyncio.CancelledError:
                await self.terminate(Status.CANCELLED)
            except Exception:
                await self.terminate(Status.FAILED)

    class VfCond(ConditionalStep):
        """wired like CWLConditionalStep: true -> forward inputs; false -> None on the skip ports"""

        pname = "always"
        slow = 0
        fail_tags = ()

        def __init__(self, name, workflow):
            super().__init__(name, workflow)
            self.skip_ports = {}

        def add_skip_port(self, name, port):
            if port.name not in self.workflow.ports:
                self.workflow.ports[port.name] = port
            self.skip_ports[name] = port.name

        def get_skip_ports(self):
            return {k: self.workflow.ports[v] for k, v in self.skip_ports.items()}

        async def _eval(self, inputs):
            tag = get_tag(inputs.values())
            await spend(self.slow, 3)
            if tag in self.fail_tags:
                _fire(self.name, tag)
                raise Injected(f"condition {self.name} fails at {tag}")
            return bool(PREDS[self.pname](from_token(next(iter(inputs.values())))))

        async def _on_true(self, inputs):
            for port_name, port in self.get_output_ports().items():
                port.put(await self._persist_token(
                    token=inputs[port_name].update(inputs[port_name].value), port=port,
                    input_token_ids=get_entity_ids(inputs.values())))

        async def _on_false(self, inputs):
            for port in self.get_skip_ports().values():
                port.put(await self._persist_token(
                    token=Token(value=None, tag=get_tag(inputs.values())), port=port,
                    input_token_ids=get_entity_ids(inputs.values())))

    class VfLoopCond(VfCond):
        """wired like CWLLoopConditionalStep: false -> IterationTerminationToken on the skip ports"""

        async def _on_false(self, inputs):
            for port in self.get_skip_ports().values():
                port.put(IterationTerminationToken(tag=get_tag(inputs.values())))

    class VfLoopOutputLast(LoopOutputStep):
        async def _process_output(self, tag):
            return sorted(self.token_map.get(tag, [Token(value=None)]),
                          key=lambda t: int(t.tag.split(".")[-1]))[-1].retag(tag=tag)

    class VfCmd(Command):
        def __init__(self, step, fname, slow=0, fail=None):
            super().__init__(step)
            self.fname = fname
            self.slow = slow
            self.fail = fail or {}  # tag -> mode

        async def execute(self, job):
            tag = get_tag(job.inputs.values())
            await spend(self.slow, 12)
            mode = self.fail.get(tag)
            if mode:
                _fire(job.name, tag)
            if mode == "cmd_raise":
                raise WorkflowExecutionException(f"injected: command of {job.name} raises")
            if mode == "cmd_status":
                return CommandOutput("injected failure", Status.FAILED)
            vals = [from_token(job.inputs[k]) for k in sorted(job.inputs)]
            return CommandOutput(FUNCS[self.fname](*vals), Status.COMPLETED)

    class VfOutProc(DefaultCommandOutputProcessor):
        fail_tags = ()

        async def process(self, job, command_output, connector=None, recoverable=False):
            await command_output
            tag = get_tag(job.inputs.values())
            if tag in self.fail_tags:
                _fire(job.name, tag)
                raise WorkflowExecutionException(f"injected: output processor of {job.name} raises")
            # the engine's own processor builds the token (and chooses its tag); lists become ListTokens
            tok = await DefaultCommandOutputProcessor.process(self, job, command_output, connector, recoverable)
            return to_token(tok.value, tok.tag)

    class VfFailingSchedule(ScheduleStep):
        fail_tags = ()

        async def _schedule(self, job):
            if job.name.rsplit("/", 1)[-1] in self.fail_tags:
                _fire(job.name, "schedule")
                await Sched.jitter(3)
                raise WorkflowExecutionException(f"injected: scheduling of {job.name} fails")
            await ScheduleStep._schedule(self, job)

    class C:
        pass

    c = C()
    c.to_token, c.from_token = to_token, from_token
    c.VfShuffle = VfShuffle
    c.VfFn, c.VfForward, c.VfCond, c.VfLoopCond, c.VfLoopOutputLast = VfFn, VfForward, VfCond, VfLoopCond, VfLoopOutputLast
    c.VfCmd, c.VfOutProc, c.VfFailingSchedule = VfCmd, VfOutProc, VfFailingSchedule
    _CLS = c
    return c


# --------------------------------------------------------------------------------------------
# builder
# --------------------------------------------------------------------------------------------


def build(prog, ctx, workdir):
    """-> (workflow, info).  info: ports (stream -> Port), inject [(stream, value)],
    step_family (step name -> (family, op index, aux))."""
    from streamflow.core.config import BindingConfig
    from streamflow.core.deployment import DeploymentConfig, Target
    from streamflow.core.workflow import Workflow
    from streamflow.workflow.combinator import (
        CartesianProductCombinator,
        DotProductCombinator,
        LoopCombinator,
        LoopTerminationCombinator,
    )
    from streamflow.workflow.port import ConnectorPort, JobPort
    from streamflow.workflow.step import (
        CombinatorStep,
        DeployStep,
        ExecuteStep,
        GatherStep,
        LoopCombinatorStep,
        ScatterStep,
        ScheduleStep,
    )

    C = classes()
    _, shapes, _, _ = denote(prog)
    wf = Workflow(context=ctx, config={}, name="w")
    ports, sizeports, fam = {}, {}, {}
    inject = []
    fail = prog.get("fail") or {}
    DEPLOYMENTS = ("__LOCAL__", "__LOCAL_B__", "__LOCAL_C__")
    dcs = [DeploymentConfig(name=n, type="local", config={}, external=True, lazy=False, workdir=workdir) for n in DEPLOYMENTS]
    deploy_steps = {}

    def port(name, cls=None):
        return wf.create_port(name=name) if cls is None else wf.create_port(cls=cls, name=name)

    def failing(i, *modes):
        if fail and fail["op"] == i and fail["mode"] in modes:
            return (fail["tag"],)
        return ()

    def exec_pipeline(i, name, in_ports, out_port, f, slow, targets=None):
        """in_ports: {port name: Port} (already aligned when more than one).  targets: deployment indices."""
        use = []
        for k in (targets or [0]):
            if k not in deploy_steps:
                sname = "/__deploy__/local" if k == 0 else f"/__deploy__/local{k}"
                deploy_steps[k] = wf.create_step(cls=DeployStep, name=sname, deployment_config=dcs[k],
                                                 connector_port=port("conn" if k == 0 else f"conn{k}", ConnectorPort))
                fam[sname] = ("deploy", None, None)
            use.append(k)
        sched_fail = failing(i, "sched_raise")
        ss = wf.create_step(cls=C.VfFailingSchedule if sched_fail else ScheduleStep, name=f"{name}/__schedule__",
                            job_prefix=name,
                            connector_ports={dcs[k].name: deploy_steps[k].get_output_port() for k in use},
                            job_port=port(f"job:{name}", JobPort),
                            binding_config=BindingConfig(targets=[Target(deployment=dcs[k], workdir=workdir) for k in use]))
        if sched_fail:
            ss.fail_tags = sched_fail
        ex = wf.create_step(cls=ExecuteStep, name=name, job_port=ss.get_output_port())
        cf = {}
        for m in ("cmd_raise", "cmd_status"):
            for t in failing(i, m):
                cf[t] = m
        ex.command = C.VfCmd(ex, f, slow=slow, fail=cf)
        for pn, p in in_ports.items():
            ss.add_input_port(pn, p)
            ex.add_input_port(pn, p)
        proc = C.VfOutProc("o", wf)
        proc.fail_tags = failing(i, "proc_raise")
        ex.add_output_port("o", out_port, proc)
        fam[ss.name] = ("schedule", i, None)
        fam[ex.name] = ("execute", i, None)

    def fn_step(i, name, in_ports, out_port, f, slow=0, fail_tags=()):
        st = wf.create_step(cls=C.VfFn, name=name)
        st.fname, st.slow, st.fail_tags = f, slow, fail_tags
        for pn, p in in_ports.items():
            st.add_input_port(pn, p)
        st.add_output_port("o", out_port)
        fam[name] = ("fn", i, None)
        return st

    def forward(i, name, pn, in_port, out_port):
        st = wf.create_step(cls=C.VfForward, name=name)
        st.add_input_port(pn, in_port)
        st.add_output_port(pn, out_port)
        fam[name] = ("fn", i, None)
        return st

    for i, op in enumerate(prog["ops"]):
        k = op["k"]
        if k == "src":
            ports[op["o"]] = port(op["o"])
            inject.append((op["o"], op["v"]))
        elif k == "map":
            ports[op["o"]] = port(op["o"])
            fn_step(i, "/" + op["o"], {"a": ports[op["x"]]}, ports[op["o"]], op["f"], op.get("slow", 0), failing(i, "fn_raise"))
        elif k == "shuf":
            ports[op["o"]] = port(op["o"])
            st = wf.create_step(cls=C.VfShuffle, name="/" + op["o"])
            st.add_input_port("a", ports[op["x"]])
            st.add_output_port("a", ports[op["o"]])
            fam[st.name] = ("fn", i, None)
        elif k == "zip":
            ports[op["o"]] = port(op["o"])
            fn_step(i, "/" + op["o"], {"abc"[j]: ports[x] for j, x in enumerate(op["xs"])}, ports[op["o"]], op["f"],
                    op.get("slow", 0), failing(i, "fn_raise"))
        elif k == "exec":
            o = op["o"]
            ports[o] = port(o)
            ins = {"abc"[j]: ports[x] for j, x in enumerate(op["xs"])}
            if len(ins) > 1:
                # CWLTranslator aligns the inputs of a step through a dot-product CombinatorStep
                comb = DotProductCombinator(name=f"/{o}-dot-combinator", workflow=wf)
                cs = wf.create_step(cls=CombinatorStep, name=f"/{o}-dot", combinator=comb)
                new = {}
                for pn, p in ins.items():
                    comb.add_item(pn)
                    cs.add_input_port(pn, p)
                    new[pn] = port(f"{o}:in:{pn}")
                    cs.add_output_port(pn, new[pn])
                fam[cs.name] = ("dot", i, {"depths": {pn: _depth(shapes[x]) for pn, x in zip(ins, op["xs"])}})
                ins = new
            exec_pipeline(i, "/" + o, ins, ports[o], op["f"], op.get("slow", 0), op.get("targets"))
        elif k == "scatter":
            o = op["o"]
            ports[o] = port(o)
            sizeports[o] = port(f"size:{o}")
            st = wf.create_step(cls=ScatterStep, name=f"/{o}-scatter", size_port=sizeports[o])
            st.add_input_port("a", ports[op["x"]])
            st.add_output_port("a", ports[o])
            fam[st.name] = ("scatter", i, None)
        elif k == "gather":
            o, x = op["o"], op["x"]
            ports[o] = port(o)
            d = shapes[x][-1]
            if d[0] == "s":
                sp, depth = sizeports[d[1]], 1
            else:
                # flat cross product: size = product of the two sizes (CartesianProductSizeTransformer in cwl)
                sp, depth = port(f"size:{o}"), 2
                fn_step(i, f"/{o}-size", {"a": sizeports[d[1]], "b": sizeports[d[2]]}, sp, "mul")
            st = wf.create_step(cls=GatherStep, name=f"/{o}-gather", size_port=sp, depth=depth)
            st.add_input_port("a", ports[x])
            st.add_output_port("a", ports[o])
            fam[st.name] = ("gather", i, {"depth": depth})
        elif k in ("dot", "cart", "cartdot"):
            name = f"/{op['os'][0]}-comb"
            pns = ["abc"[j] for j in range(len(op["xs"]))]
            if k == "dot":
                comb = DotProductCombinator(name=name + "inator", workflow=wf)
                for pn in pns:
                    comb.add_item(pn)
            elif k == "cart":
                comb = CartesianProductCombinator(name=name + "inator", workflow=wf, depth=1)
                for pn in pns:
                    comb.add_item(pn)
            else:
                inner = CartesianProductCombinator(name=name + "inator-cart", workflow=wf, depth=1)
                inner.add_item("a")
                inner.add_item("b")
                comb = DotProductCombinator(name=name + "inator", workflow=wf)
                comb.add_combinator(inner, inner.get_items(recursive=True))
                comb.add_item("c")
            cs = wf.create_step(cls=CombinatorStep, name=name, combinator=comb)
            for pn, x, o in zip(pns, op["xs"], op["os"]):
                cs.add_input_port(pn, ports[x])
                ports[o] = port(o)
                cs.add_output_port(pn, ports[o])
            fam[name] = (k, i, {"depths": {pn: _depth(shapes[x]) for pn, x in zip(pns, op["xs"])}})
        elif k == "cond":
            o = op["o"]
            ports[o] = port(o)
            inner = port(f"{o}:when")
            cs = wf.create_step(cls=C.VfCond, name=f"/{o}-when")
            cs.pname, cs.slow, cs.fail_tags = op["p"], op.get("slow", 0), failing(i, "pred_raise")
            cs.add_input_port("a", ports[op["x"]])
            cs.add_output_port("a", inner)
            cs.add_skip_port("o", ports[o])
            fam[cs.name] = ("cond", i, None)
            fn_step(i, "/" + o, {"a": inner}, ports[o], op["f"], 0, failing(i, "fn_raise"))
        elif k == "loop":
            # the wiring of CWLTranslator for `loop` with one state variable "a", outputMethod last
            o = op["o"]
            base = "/" + o
            ports[o] = port(o)  # external output port
            p_in = port(f"{o}:lin")  # LoopCombinatorStep input (also fed by back-propagation and the terminator)
            forward(i, base + "/a-input-forward-transformer", "a", ports[op["x"]], p_in)
            lcomb = LoopCombinator(name=base + "-loop-combinator-c", workflow=wf)
            lcomb.add_item("a")
            lcs = wf.create_step(cls=LoopCombinatorStep, name=base + "-loop-combinator", combinator=lcomb)
            lcs.add_input_port("a", p_in)
            p_lc = port(f"{o}:lc")
            lcs.add_output_port("a", p_lc)
            fam[lcs.name] = ("loopcomb", i, None)
            lw = wf.create_step(cls=C.VfLoopCond, name=base + "-loop-when")
            lw.pname = op["p"]
            lw.add_input_port("a", p_lc)
            p_body_in = port(f"{o}:bin")
            lw.add_output_port("a", p_body_in)
            fam[lw.name] = ("loopcond", i, None)
            # body
            p_body_out = port(f"{o}:bout")
            if op.get("body") == "exec":
                exec_pipeline(i, base + "/body", {"a": p_body_in}, p_body_out, op["f"], 0, op.get("targets"))
            else:
                fn_step(i, base + "/body", {"a": p_body_in}, p_body_out, op["f"], 0, failing(i, "fn_raise"))
            # output side: forwarder -> loop output step -> external port; skip port = forwarder output
            p_fwd = port(f"{o}:ofwd")
            forward(i, base + "/a-output-forward-transformer", "a", p_body_out, p_fwd)
            los = wf.create_step(cls=C.VfLoopOutputLast, name=base + "/a-loop-output")
            los.add_input_port("a", p_fwd)
            lw.add_skip_port("a", p_fwd)
            los.add_output_port("a", ports[o])
            fam[los.name] = ("loopout", i, None)
            # loop terminator: consumes the external output, emits IterationTerminationToken on the loop input port
            tcomb = LoopTerminationCombinator(name=base + "-loop-termination-combinator", workflow=wf)
            lts = wf.create_step(cls=CombinatorStep, name=base + "-loop-terminator", combinator=tcomb)
            lts.add_output_port("a", p_in)
            tcomb.add_output_item("a")
            lts.add_input_port("a", ports[o])
            tcomb.add_item("a")
            fam[lts.name] = ("loopterm", i, None)
            # back-propagation (reads the output forwarder's port, as the translator wires `loop: {a: out}`)
            forward(i, base + "/a-back-propagation-transformer", "a", p_fwd, p_in)
            fam[base + "/a-back-propagation-transformer"] = ("loopback", i, None)
    for s in prog["outs"]:
        wf.output_ports[s] = ports[s].name
    return wf, {"ports": ports, "inject": inject, "fam": fam}


def reach_output(wf):
    """names of the steps from which some workflow output port is reachable (skip ports included)"""
    out_ports = set(wf.output_ports.values())
    consumers = {}
    for st in wf.steps.values():
        for pn in st.input_ports.values():
            consumers.setdefault(pn, []).append(st.name)
    succ_ports = {st.name: set(st.output_ports.values()) | set(getattr(st, "skip_ports", {}).values()) for st in wf.steps.values()}
    reach = set()
    changed = True
    while changed:
        changed = False
        for st in wf.steps.values():
            if st.name in reach:
                continue
            for pn in succ_ports[st.name]:
                if pn in out_ports or any(c in reach for c in consumers.get(pn, [])):
                    reach.add(st.name)
                    changed = True
                    break
    return reach


# --------------------------------------------------------------------------------------------
# runner
# --------------------------------------------------------------------------------------------


def trace_hash(trace):
    return hashlib.sha256(json.dumps(trace).encode()).hexdigest()[:16]


async def _read_tables(db):
    out = {}
    async with db.connection as c:
        for name, q in (("token", "select id, port, tag, type from token"),
                        ("provenance", "select dependee, depender from provenance"),
                        ("port", "select id, name, workflow from port"),
                        ("step", "select id, name, status from step"),
                        ("dependency", "select step, port, type, name from dependency")):
            async with c.execute(q) as cur:
                out[name] = [tuple(r) for r in await cur.fetchall()]
    return out


async def _run(prog, seed, workdir, wall, want_db, keep_objects):
    from streamflow.core.workflow import Status
    from streamflow.workflow.executor import StreamFlowExecutor
    from streamflow.workflow.token import TerminationToken

    from vf.harness.ctx import make_context

    global _REC
    C = classes()
    if seed is None:
        Sched.reset(0, K=0, enabled=False)
    else:
        Sched.reset(seed, K=(1, 3, 6)[seed % 3])
    ctx = make_context(workdir)
    logging.getLogger("streamflow").setLevel(logging.CRITICAL)
    install_monitor()
    del _FIRED[:]
    rec = Recorder()
    obs = {"seed": seed, "outcome": None}
    try:
        wf, info = build(prog, ctx, workdir)
        await wf.save(ctx.database)
        for name, v in info["inject"]:
            t = C.to_token(v, "0")
            await t.save(ctx.database, info["ports"][name].persistent_id)
            info["ports"][name].put(t)
            info["ports"][name].put(TerminationToken())
        reach = reach_output(wf)
        _REC = rec
        ex = StreamFlowExecutor(wf)
        try:
            obs["result"] = await run_quiescent(ex.run(), wall)
            obs["outcome"] = "returned"
        except Deadlock as d:
            obs["outcome"] = "deadlock"
            obs["stacks"] = d.stacks
        except WallTimeout as e:
            obs["outcome"] = "walltimeout"
            obs["stacks"] = str(e)[:2000]
        except Exception as e:
            obs["outcome"] = "raised"
            obs["exc_type"] = type(e).__name__
            obs["exc"] = str(e)[:300]
        # drive the loop to quiescence; `settle` is patient for ~200 beats only, a loaded machine needs more
        # (wall clock only as a watchdog: an unsettled run is reported as such and never judged)
        t_end = time.time() + wall
        obs["settled"] = await settle()
        while not obs["settled"] and time.time() < t_end:
            obs["settled"] = await settle()
        pend = pending_engine_tasks()
        obs["pending"] = [{"task": t.get_name(), "coro": getattr(t.get_coro(), "__qualname__", "?")} for t in pend][:20]
        _REC = None
        obs["steps"] = {
            s.name: {"status": s.status.name, "terminated": bool(s.terminated),
                     "reaches_output": s.name in reach,
                     "ports_without_termination": [pn for pn, p in s.get_output_ports().items()
                                                   if not any(isinstance(t, TerminationToken) for t in p.token_list)],
                     "term_values": {pn: [t.value.name for t in p.token_list if isinstance(t, TerminationToken)]
                                     for pn, p in s.get_output_ports().items()}}
            for s in wf.steps.values()}
        obs["all_steps_reach_output"] = len(reach) == len(wf.steps)
        obs["executions_pending"] = [t.get_name() for t in ex.executions if not t.done()]
        obs["outputs"] = {
            s: {t.tag: C.from_token(t) for t in info["ports"][s].token_list if not isinstance(t, TerminationToken)}
            for s in prog["outs"]}
        obs["output_dups"] = {
            s: sorted({t.tag for t in info["ports"][s].token_list if not isinstance(t, TerminationToken)
                       and sum(1 for u in info["ports"][s].token_list if not isinstance(u, TerminationToken) and u.tag == t.tag) > 1})
            for s in prog["outs"]}
        obs["fired"] = list(_FIRED)
        # positions (in the monitor's Port.get record) of the data tokens each consumer received
        gi = {}
        for idx, (cons, _pn, tok) in enumerate(rec.gets):
            if not isinstance(tok, TerminationToken):
                gi.setdefault(cons, []).append(idx)
        obs["get_index"] = gi
        obs["trace_hash"] = trace_hash(rec.trace)
        obs["trace_len"] = len(rec.trace)
        obs["counts"] = {"put": rec.n_put, "get": rec.n_get, "persist": rec.n_persist, "term": rec.n_term}
        obs["fam"] = info["fam"]
        if want_db and obs["outcome"] in ("returned", "raised"):
            obs["tables"] = await _read_tables(ctx.database)
        if keep_objects:
            obs["rec"] = rec
            obs["wiring"] = {
                s.name: {"in": dict(s.input_ports), "out": dict(s.output_ports), "skip": dict(getattr(s, "skip_ports", {})),
                         "cls": type(s).__name__}
                for s in wf.steps.values()}
            obs["port_ids"] = {p.name: p.persistent_id for p in wf.ports.values()}
            obs["wf_outputs"] = dict(wf.output_ports)
    finally:
        _REC = None
        try:
            await asyncio.wait_for(ctx.deployment_manager.undeploy_all(), 20)
        except Exception:
            pass
        try:
            await asyncio.wait_for(ctx.close(), 20)
        except Exception:
            pass
    return obs


def warm_up():
    """Import the engine (on a loaded machine this alone can take minutes; checks restart their soft
    budget clock afterwards so that the budget is spent on cases, not on imports)."""
    from vf import perturb

    perturb.install()
    import streamflow.main  # noqa: F401
    import streamflow.workflow.combinator  # noqa: F401
    import streamflow.workflow.executor  # noqa: F401
    import vf.harness.connectors  # noqa: F401

    classes()
    install_monitor()


def run_program(prog, seed, workdir, wall=60.0, want_db=False, keep_objects=False):
    """One execution in a fresh event loop.  seed=None runs with perturbation disabled (the default
    asyncio order)."""
    os.makedirs(workdir, exist_ok=True)
    try:
        return asyncio.run(_run(prog, seed, workdir, wall, want_db, keep_objects))
    finally:
        for n in os.listdir(workdir):
            p = os.path.join(workdir, n)
            shutil.rmtree(p, ignore_errors=True) if os.path.isdir(p) else os.unlink(p)
