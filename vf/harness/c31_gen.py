"""C31 generator: CWL parameter references / ES5 JavaScript expressions over `inputs`.

Every generated expression is assembled from *fragments*.  A fragment knows
  * the JavaScript it contributes (declarations, statements, a value expression),
  * which top-level keys of `inputs` it reads and **through which syntactic construct**.
The construct tag is either "safe" (a construct the analysis is expected to handle: no exemption)
or the label of a listed defect mechanism (see MECHANISMS).  The tags are used only to *classify*
a refutation found by the oracle (node's recorded reads vs the static dependency set).

The generator also returns its own segmentation of the expression string (text / $(...) / ${...});
the check cross-validates it against cwl_utils' scanner before trusting it.
"""
from __future__ import annotations

import json

# value of `inputs` during the instrumented evaluation (JSON)
BASE = {
    "a": {"x": 1, "y": [1, 2], "a": 7},
    "b": 2,
    "c d": 3,
    "k": "a",
    "z": 5,
    "length": 6,
    "arr": [3, 1, 2],
    "s": "str",
    "f": {"class": "File", "path": "/p/f.txt", "basename": "f.txt"},
    "n": None,
    "inputs": 9,
    "éa": 10,
    "c'd": 11,
    "x1": 12,
    "self": 13,
    "_u": 14,
    "$d": 15,
}
IDENT_KEYS = ["a", "b", "k", "z", "length", "arr", "s", "f", "n", "inputs", "éa", "self", "_u", "$d"]
REGEX_IDENT_KEYS = [k for k in IDENT_KEYS if k != "$d"]  # `\w+` in cwl_utils' parameter-reference regex
BRACKET_KEYS = IDENT_KEYS + ["c d"]
ALL_KEYS = list(BASE)

MECHANISMS = {
    "alias-var-declaration": "C31/alias-var-declaration",
    "inputs-passed-as-argument": "C31/inputs-passed-as-argument",
    "enumeration": "C31/enumeration",
    "computed-index-raises": "C31/computed-index-raises",
    "alias-in-function-scope": "C31/alias-in-function-scope",
    "inputs-inside-compound-expression": "C31/inputs-inside-compound-expression",
    "escaped-literal-index": "C31/escaped-literal-index",
    "alias-reassigned-in-function-raises": "C31/alias-reassigned-in-function-raises",
}

LIB = [
    "function add1(v){return v === null ? 1 : v + 1;}",
    "function getx1(){return inputs.x1;}",
    "function pick_key(o, k){return o[k];}",
    "var twice = function(v){return [v, v];};",
    "function lib_shadow(inputs){return inputs.libshadow;}",
]


class Ctx:
    """Accumulates one `${...}` body or one `$(...)` expression."""

    def __init__(self, rng, body: bool, use_lib: bool):
        self.rng = rng
        self.body = body  # statements allowed
        self.use_lib = use_lib
        self.pre: list[str] = []  # declarations / statements placed before the return
        self.reads: dict[str, set[str]] = {}  # key -> construct tags
        self.tags: set[str] = set()
        self.n = 0

    def uid(self, p):
        self.n += 1
        return f"{p}{self.n}"

    def read(self, key, tag="safe"):
        self.reads.setdefault(key, set()).add(tag)
        self.tags.add(tag)

    def read_all(self, tag):
        for k in ALL_KEYS:
            self.read(k, tag)


def lit(rng, key):
    if "'" in key:
        return '"%s"' % key
    q = rng.choice(["'", '"'])
    return q + key + q


def ws(rng):
    return rng.choice(["", "", "", " ", "  ", "\n  "])


# ---- value expressions that read one key through a SAFE construct ------------------------------------
def safe_access(c: Ctx, base="inputs", tag="safe", keys=None):
    rng = c.rng
    form = rng.choice(["dot", "dot", "br", "br", "deep", "spaced"])
    if form in ("dot", "spaced"):
        k = rng.choice(keys or IDENT_KEYS)
        c.read(k, tag)
        if form == "spaced":
            return f"{base}{ws(rng)}.{ws(rng)}{k}"
        return f"{base}.{k}"
    if form == "br":
        k = rng.choice(keys or BRACKET_KEYS + ["c'd"])
        c.read(k, tag)
        return f"{base}[{ws(rng)}{lit(rng, k)}{ws(rng)}]"
    k, rest = rng.choice([("a", ".x"), ("a", "['y'][0]"), ("a", ".a"), ("arr", "[1]"), ("arr", ".length"),
                          ("f", ".basename"), ("f", "['path']"), ("s", ".length"), ("a", '["x"]')])
    if keys and k not in keys:
        k, rest = rng.choice(keys), ""
    c.read(k, tag)
    acc = f"{base}.{k}" if rng.random() < 0.5 else f"{base}[{lit(rng, k)}]"
    return acc + rest


def safe_value(c: Ctx, depth=0):
    """A JS value expression built from safe constructs only."""
    rng = c.rng
    r = rng.random()
    if depth >= 2 or r < 0.35:
        return safe_access(c)
    if r < 0.45:
        return f"{safe_value(c, depth + 1)} + {safe_value(c, depth + 1)}"
    if r < 0.52:
        return f"({safe_value(c, depth + 1)} ? {safe_value(c, depth + 1)} : {safe_value(c, depth + 1)})"
    if r < 0.57:
        return f"typeof {safe_access(c)}"
    if r < 0.62:
        return f"[{safe_value(c, depth + 1)}, {safe_value(c, depth + 1)}]"
    if r < 0.66:
        return "({p: %s, 'q r': %s})" % (safe_value(c, depth + 1), safe_value(c, depth + 1))
    if r < 0.70:
        return f"String({safe_access(c)})"
    if r < 0.74:
        return f"({safe_access(c)} === null)"
    if r < 0.78:
        return f"!{safe_access(c)}"
    if r < 0.82:
        c.read("arr")
        return "inputs.arr.map(function(e){return e * 2 + %s;})" % safe_access(c)
    if r < 0.86:
        return "(function(){return %s;})()" % safe_value(c, depth + 1)
    if r < 0.89:
        c.read("s")
        return f"inputs.s.replace(/s/g, String({safe_access(c)}))"
    if r < 0.92 and c.use_lib:
        return f"add1({safe_access(c)})"
    if r < 0.94 and c.use_lib:
        c.read("x1")  # read inside the library function, which the analysis parses too
        return "getx1()"
    if r < 0.95 and c.use_lib:
        return f"twice({safe_access(c)})[0]"
    if r < 0.96 and c.use_lib:
        return "lib_shadow({libshadow: 1})"
    if r < 0.98:
        return rng.choice(["'inputs.z'", '"inputs[\'z\']"', "'$x'", "42", "null", "self", "runtime.cores"])
    return f"({safe_value(c, depth + 1)})"


# ---- body-level SAFE constructs (add statements to c.pre, return a value expression) ------------------
def safe_stmt_value(c: Ctx):
    rng = c.rng
    r = rng.random()
    if r < 0.12:
        v = c.uid("v")
        c.pre.append(f"var {v} = {safe_value(c)};")
        return v
    if r < 0.2:
        v = c.uid("v")
        c.pre.append(f"var {v} = null; if ({safe_access(c)}) {{ {v} = {safe_value(c)}; }} else {{ {v} = {safe_value(c)}; }}")
        return v
    if r < 0.27:
        v = c.uid("t")
        c.read("arr")
        c.pre.append(f"var {v} = 0; for (var i{v} = 0; i{v} < inputs.arr.length; i{v}++) {{ {v} += inputs.arr[i{v}] + ({safe_access(c)} ? 1 : 0); }}")
        return v
    if r < 0.35:
        g = c.uid("g")
        c.pre.append(f"function {g}(v){{return [v];}}")
        return f"{g}({safe_value(c)})"
    if r < 0.40:
        # a callback (function EXPRESSION) whose parameter is named `inputs` / like a tracked alias, inside a
        # function declaration, followed by genuine reads in that declaration
        g, q = c.uid("pk"), c.uid("q")
        form = rng.choice(["inputs", "alias", "top"])
        c.read("arr")
        if form == "inputs":
            c.pre.append(f"function {g}(l){{ var {q} = l.map(function(inputs){{return inputs.name;}}); return {q}.concat([{safe_value(c)}]); }}")
            return f"{g}(inputs.arr)"
        if form == "alias":
            y = c.uid("y")
            c.pre.append(f"var {y}; {y} = inputs; function {g}(l){{ var {q} = l.map(function({y}){{return {y}.nm;}}); "
                         f"return {q}.concat([{safe_access(c, base=y)}, {safe_access(c)}]); }}")
            return f"{g}(inputs.arr)"
        c.pre.append(f"var {q} = inputs.arr.map(function(inputs){{return inputs.name;}});")
        return f"[{q}.length, {safe_value(c)}]"
    if r < 0.46:  # shadowing parameter named inputs (function declaration)
        g = c.uid("sh")
        c.pre.append(f"function {g}(inputs){{return inputs.shadow + inputs['shadow2'];}}")
        return f"{g}({{shadow: 1, shadow2: 2}})"
    if r < 0.5:
        g = c.uid("c")
        c.pre.append(f"var {g} = function(){{return {safe_value(c)};}};")
        return f"{g}()"
    if r < 0.57:  # nested function declarations reading inputs directly
        g, h = c.uid("n"), c.uid("m")
        c.pre.append(f"function {g}(x){{ function {h}(){{ return {safe_value(c)}; }} return [{h}(), x]; }}")
        return f"{g}({safe_access(c)})"
    if r < 0.63:
        v = c.uid("s")
        c.pre.append(f"var {v} = " + rng.choice(["'inputs.z is text'", '"inputs[\'z\'] and inputs.k"', "'var x = inputs;'"]) + ";")
        return v
    if r < 0.68:
        c.pre.append(rng.choice(["/* inputs.z */", "// inputs['z'] inputs.k\n", "/* var q = inputs; */"]))
        return safe_value(c)
    if r < 0.78:  # alias by plain assignment (tracked by the analysis)
        y = c.uid("y")
        c.pre.append(f"var {y}; {y} = inputs;")
        return safe_access(c, base=y, tag="safe")
    if r < 0.83:
        y, y2 = c.uid("y"), c.uid("y")
        c.pre.append(f"var {y}, {y2}; {y} = inputs; {y2} = {y};")
        return safe_access(c, base=y2, tag="safe")
    if r < 0.88:
        v = c.uid("inputs")
        c.pre.append(f"var {v} = {{k: 1, z: 2}};")
        return f"{v}.k + {v}['z']"
    if r < 0.92:
        o = c.uid("o")
        c.pre.append(f"var {o} = {{inputs: {{zz: 1}}}};")
        return f"{o}.inputs.zz"
    if r < 0.96:
        v = c.uid("v")
        c.pre.append(f"var {v}; try {{ {v} = {safe_value(c)}; }} catch (e{v}) {{ {v} = {safe_access(c)}; }}")
        return v
    v = c.uid("v")
    c.read("k")
    c.pre.append(f"var {v}; switch (inputs.k) {{ case 'a': {v} = {safe_access(c)}; break; default: {v} = {safe_access(c)}; }}")
    return v


# ---- constructs behind the listed mechanisms (each tagged) ---------------------------------------------
def finding_value(c: Ctx, which: str):
    rng = c.rng
    keys = [k for k in IDENT_KEYS]
    k = rng.choice(keys)
    if which == "alias-var-declaration":
        x = c.uid("x")
        c.pre.append(f"var {x} = inputs;")
        c.read(k, which)
        return rng.choice([f"{x}.{k}", f"{x}[{lit(rng, k)}]"])
    if which == "inputs-passed-as-argument":
        c.read(k, which)
        form = rng.choice(["decl", "iife", "lib"] if c.use_lib else ["decl", "iife"])
        if form == "decl" and c.body:
            g = c.uid("g")
            c.pre.append(f"function {g}(o){{return o.{k};}}")
            return f"{g}(inputs)"
        if form == "lib":
            return f"pick_key(inputs, {lit(rng, k)})"
        return f"(function(o){{return o.{k};}})(inputs)"
    if which == "enumeration":
        c.read_all(which)
        form = rng.choice(["keys", "json", "forin"] if c.body else ["keys", "json"])
        if form == "keys":
            return "Object.keys(inputs).length"
        if form == "json":
            return "JSON.stringify(inputs).length"
        t = c.uid("t")
        c.pre.append(f"var {t} = 0; for (var p{t} in inputs) {{ {t}++; }}")
        return t
    if which == "computed-index-raises":
        form = rng.choice(["var", "nested", "concat", "num"] if c.body else ["nested", "concat", "num"])
        if form == "var":
            q = c.uid("q")
            c.pre.append(f"var {q} = {lit(rng, k)};")
            c.read(k, which)
            return f"inputs[{q}]"
        if form == "nested":
            c.read("k", "safe")
            c.read("a", which)
            return "inputs[inputs.k]"
        if form == "concat":
            c.read(k, which)
            return f"inputs[{lit(rng, k)} + '']"
        return "inputs[0]"
    if which == "alias-in-function-scope":
        g, y = c.uid("fa"), c.uid("y")
        c.read(k, which)
        c.pre.append(f"function {g}(){{ var {y}; {y} = inputs; return {y}.{k}; }}")
        return f"{g}()"
    if which == "inputs-inside-compound-expression":
        form = rng.choice(["paren", "or", "assign-or"] if c.body else ["paren", "or"])
        if form == "paren":
            c.read(k, which)
            return f"(inputs).{k}"
        if form == "or":
            c.read("n", "safe")
            c.read(k, which)
            return f"(inputs.n || inputs).{k}"
        y = c.uid("y")
        c.pre.append(f"var {y}; {y} = {y} || inputs;")
        c.read(k, which)
        return f"{y}.{k}"
    if which == "escaped-literal-index":
        form = rng.choice(["quote", "unicode", "hex"])
        if form == "quote":
            c.read("c'd", which)
            return "inputs['c\\'d']"
        if form == "unicode":
            c.read("a", which)
            return "inputs['\\u0061']"
        c.read("b", which)
        return 'inputs["\\x62"]'
    if which == "alias-reassigned-in-function-raises":
        y, o, g = c.uid("y"), c.uid("o"), c.uid("fr")
        c.pre.append(f"var {y}, {o} = {{}}; {y} = inputs; function {g}(){{ {y} = {o}; return 1; }}")
        c.tags.add(which)
        return f"{g}()"
    raise AssertionError(which)


BODY_ONLY = {"alias-var-declaration", "alias-in-function-scope", "alias-reassigned-in-function-raises"}
RAISING = {"computed-index-raises", "alias-reassigned-in-function-raises"}


def gen_js_segment(rng, use_lib, finding):
    """One `$(expr)` or `${body}` segment.  Returns (kind, js, ctx)."""
    body = rng.random() < 0.7 or (finding in BODY_ONLY)
    c = Ctx(rng, body, use_lib)
    vals = []
    n = rng.randint(1, 3)
    fpos = rng.randrange(n) if finding else -1
    for i in range(n):
        if i == fpos:
            vals.append(finding_value(c, finding))
            c.tags.add(finding)
        elif body and rng.random() < 0.6:
            vals.append(safe_stmt_value(c))
        else:
            vals.append(safe_value(c))
    if not body:
        js = vals[0] if len(vals) == 1 else "[" + ", ".join(vals) + "]"
        return "paren", js, c
    rng_nl = rng.choice([" ", "\n", "\n  "])
    ret = vals[0] if len(vals) == 1 else "[" + ", ".join(vals) + "]"
    js = rng_nl + rng_nl.join(c.pre) + rng_nl + f"return {ret};" + rng.choice(["", " ", "\n"])
    return "brace", js, c


def gen_paramref(rng, c: Ctx):
    """A CWL parameter reference (matches cwl_utils' param_re): evaluated by regex, no JavaScript needed."""
    k = rng.choice(REGEX_IDENT_KEYS + ["c d", "c'd"])
    form = rng.choice(["dot", "sq", "dq"])
    if k in ("c d",) and form == "dot":
        form = "sq"
    if k == "c'd":
        c.read(k)
        return rng.choice(["inputs['c\\'d']", 'inputs["c\'d"]'])
    c.read(k)
    first = {"dot": f"inputs.{k}", "sq": f"inputs['{k}']", "dq": f'inputs["{k}"]'}[form]
    rest = {"a": ["", ".x", "['y'][0]", ".y[1]", '["a"]'], "arr": ["", "[0]", ".length"], "f": ["", ".basename", "['path']"],
            "s": ["", ".length"]}.get(k, [""])
    return first + rng.choice(rest)


TEXTS = ["", "", "pre ", " mid ", "-", "inputs.z ", "x=", " $ ", "\\$(inputs.z) ", "ü ", "'q' ", "\\\\", " {inputs.z} ", "(inputs.k) "]

FINDING_WEIGHTS = [
    ("alias-var-declaration", 8), ("inputs-passed-as-argument", 8), ("enumeration", 7), ("computed-index-raises", 5),
    ("alias-in-function-scope", 5), ("inputs-inside-compound-expression", 5), ("escaped-literal-index", 3),
    ("alias-reassigned-in-function-raises", 2),
]


def gen_case(rng) -> dict:
    """JSON case: expr, full_js, lib (bool), segments (generator's own segmentation), reads map, tags."""
    r = rng.random()
    segs = []  # ("text", s) | ("paren", js) | ("brace", js)
    reads: dict[str, set[str]] = {}
    tags: set[str] = set()
    finding = None

    def merge(c):
        for k, t in c.reads.items():
            reads.setdefault(k, set()).update(t)
        tags.update(c.tags)

    if r < 0.22:  # parameter references only (valid without InlineJavascriptRequirement)
        full_js = rng.random() < 0.5
        use_lib = full_js and rng.random() < 0.3
        c = Ctx(rng, False, use_lib)
        n = rng.randint(1, 3)
        for i in range(n):
            if n > 1 or rng.random() < 0.3:
                t = rng.choice(TEXTS)
                if t:
                    segs.append(("text", t))
            segs.append(("paren", gen_paramref(rng, c)))
        if n > 1 or rng.random() < 0.2:
            t = rng.choice(TEXTS)
            if t and not t.endswith("\\\\"):
                segs.append(("text", t))
        merge(c)
        tags.add("paramref")
        if n == 1 and len(segs) == 1 and rng.random() < 0.08:
            # the whole inputs object as the value
            segs = [("paren", "inputs")]
            reads = {k: {"enumeration"} for k in ALL_KEYS}
            tags = {"enumeration", "paramref"}
    else:
        full_js = True
        use_lib = rng.random() < 0.4
        if rng.random() < 0.42:
            names = [n for n, _ in FINDING_WEIGHTS]
            finding = rng.choices(names, weights=[w for _, w in FINDING_WEIGHTS])[0]
        nseg = rng.choice([1, 1, 1, 2])
        fseg = rng.randrange(nseg)
        for i in range(nseg):
            if nseg > 1 or rng.random() < 0.15:
                t = rng.choice(TEXTS)
                if t:
                    segs.append(("text", t))
            kind, js, c = gen_js_segment(rng, use_lib, finding if i == fseg else None)
            segs.append((kind, js))
            merge(c)
        if nseg > 1 and rng.random() < 0.5:
            segs.append(("text", rng.choice([" post", "!", " inputs.z"])))
    # a lone text segment must not be mistaken for an expression; whitespace around is stripped by the runner
    expr = "".join(s if k == "text" else ("$(" + s + ")" if k == "paren" else "${" + s + "}") for k, s in segs)
    if rng.random() < 0.1:
        expr = rng.choice([" ", "\n"]) + expr + rng.choice([" ", "\n", ""])
    return {
        "kind": "expr",
        "expr": expr,
        "full_js": full_js,
        "lib": use_lib,
        "segments": [[k, s] for k, s in segs],
        "reads": {k: sorted(v) for k, v in sorted(reads.items())},
        "tags": sorted(tags),
    }


def to_js_fragments(segments) -> list[str]:
    """The JavaScript function bodies the reference evaluation runs, one per $()/${} segment
    (same wrapping as cwl_utils.sandboxjs.code_fragment_to_js)."""
    out = []
    for k, s in segments:
        if k == "paren":
            out.append("{return (" + s + ");}")
        elif k == "brace":
            out.append("{" + s + "}")
    return out


def dumps_base() -> str:
    return json.dumps(BASE)
