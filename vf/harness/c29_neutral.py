"""Neutralising rewrites for the classification of C29 divergences.

Each known mechanism M is tied to one syntactic construct X_M of a CWL document.  rewrite_M(case)
replaces every occurrence of X_M by a form that is equivalent for the reference runner (the check
verifies that: the reference's output object must not change) but does not contain the construct:

  unconnected-step     steps with no path to a workflow output are removed
  repeated-source      2nd.. occurrence of a source inside one source list goes through an identity step
  shared-step-output   a step output named by several workflow outputs: all uses but the last go through identity steps
  nested-passthrough   output of a NESTED workflow sourced from that workflow's own input goes through an identity step
  single-link-nested   `source: [x]` + explicit `linkMerge: merge_nested` becomes a step that returns [x]
  nested-crossproduct  scatterMethod nested_crossproduct becomes scatter-inside-scatter (nested workflows)

A divergence is attributed to M iff the document contains X_M, the rewrite keeps the reference's
outputs, and StreamFlow's divergence disappears (or changes) on the rewritten document.
"""
from __future__ import annotations

import copy
import json

from vf.harness.c29_cwlgen import JS, WF_REQS, dangling_steps, source_lists, unconnected, walk_workflows
from vf.harness.c29_shrink import _drop_unused_inputs

ANY = ["null", "Any"]
ID_TOOL = {"class": "ExpressionTool", "requirements": JS, "inputs": {"x": {"type": ANY}},
           "outputs": {"o": {"type": ANY}}, "expression": "${return {'o': inputs.x};}"}
WRAP_TOOL = {"class": "ExpressionTool", "requirements": JS, "inputs": {"x": {"type": ANY}},
             "outputs": {"o": {"type": {"type": "array", "items": ANY}}}, "expression": "${return {'o': [inputs.x]};}"}


def _fresh(w, prefix):
    n = 0
    while f"{prefix}{n}" in w["steps"]:
        n += 1
    return f"{prefix}{n}"


def _via(w, src, tool=ID_TOOL, prefix="vfid"):
    name = _fresh(w, prefix)
    w["steps"][name] = {"run": copy.deepcopy(tool), "in": {"x": src}, "out": ["o"]}
    return f"{name}/o"


def prune_unconnected(c):
    """remove, in place, every step / nested-workflow output / nested-workflow input / unread `out` entry that
    cannot influence the top-level outputs; an unread output of a LOOP step that the loop itself needs is instead
    carried to the top level through extra outputs typed Any (so that something reads it)."""
    items = unconnected(c["wf"])
    n_extra = [0]
    for path, what, name in items:
        parts = [x for x in path.split("/") if x]
        chain = [c["wf"]]
        steps = []
        for p in parts:
            st = chain[-1]["steps"][p]
            steps.append(st)
            chain.append(st["run"])
        w = chain[-1]
        parent_step = steps[-1] if steps else None
        if what == "step":
            w["steps"].pop(name, None)
        elif what == "output":
            w["outputs"].pop(name, None)
            if parent_step is not None and name in parent_step["out"]:
                parent_step["out"] = [o for o in parent_step["out"] if o != name]
        elif what == "input":
            w["inputs"].pop(name, None)
            if parent_step is not None:
                parent_step["in"].pop(name, None)
        elif what == "out":
            sn, o = name.split("/")
            if sn in w["steps"]:
                w["steps"][sn]["out"] = [x for x in w["steps"][sn]["out"] if x != o]
        elif what == "loopout":
            src = name
            while f"vfu{n_extra[0]}" in c["wf"]["outputs"]:
                n_extra[0] += 1
            key = f"vfu{n_extra[0]}"
            n_extra[0] += 1
            for depth in range(len(chain) - 1, -1, -1):
                chain[depth]["outputs"][key] = {"type": ANY, "outputSource": src}
                if depth > 0:
                    steps[depth - 1]["out"] = list(steps[depth - 1]["out"]) + [key]
                    src = f"{parts[depth - 1]}/{key}"
    return bool(items)


def rw_unconnected(case):
    c = copy.deepcopy(case)
    changed = False
    for _ in range(4):  # removing an output of a nested workflow can disconnect more
        if not prune_unconnected(c):
            break
        changed = True
    return (_drop_unused_inputs(c) if changed else c), changed


def rw_repeated_source(case):
    c = copy.deepcopy(case)
    changed = False
    for _, w in list(walk_workflows(c["wf"])):
        for lst in source_lists(w):
            seen = set()
            for i, s in enumerate(list(lst)):
                if s in seen:
                    lst[i] = _via(w, s)
                    changed = True
                seen.add(s)
    return c, changed


def _out_uses(w):
    """step-output source -> [(output key, index in list or None)] in declaration order"""
    uses = {}
    for k, d in w["outputs"].items():
        src = d.get("outputSource")
        if isinstance(src, str):
            if "/" in src:
                uses.setdefault(src, []).append((k, None))
        elif isinstance(src, list):
            for i, s in enumerate(src):
                if "/" in s:
                    uses.setdefault(s, []).append((k, i))
    return uses


def rw_shared_step_output(case):
    c = copy.deepcopy(case)
    changed = False
    for _, w in list(walk_workflows(c["wf"])):
        for s, us in _out_uses(w).items():
            for k, i in us[:-1]:
                new = _via(w, s)
                if i is None:
                    w["outputs"][k]["outputSource"] = new
                else:
                    w["outputs"][k]["outputSource"][i] = new
                changed = True
    return c, changed


def rw_nested_passthrough(case):
    c = copy.deepcopy(case)
    changed = False
    for path, w in list(walk_workflows(c["wf"])):
        if not path:
            continue
        for d in w["outputs"].values():
            src = d.get("outputSource")
            if isinstance(src, str) and "/" not in src:
                d["outputSource"] = _via(w, src)
                changed = True
            elif isinstance(src, list):
                for i, s in enumerate(src):
                    if "/" not in s:
                        src[i] = _via(w, s)
                        changed = True
    return c, changed


def rw_single_link_nested(case):
    c = copy.deepcopy(case)
    changed = False
    for _, w in list(walk_workflows(c["wf"])):
        for st in list(w["steps"].values()):
            for k, v in st["in"].items():
                if isinstance(v, dict) and isinstance(v.get("source"), list) and len(v["source"]) == 1 and v.get("linkMerge") == "merge_nested":
                    v["source"] = _via(w, v["source"][0], WRAP_TOOL, "vfwrap")
                    del v["linkMerge"]
                    changed = True
        for d in w["outputs"].values():
            if isinstance(d.get("outputSource"), list) and len(d["outputSource"]) == 1 and d.get("linkMerge") == "merge_nested":
                d["outputSource"] = _via(w, d["outputSource"][0], WRAP_TOOL, "vfwrap")
                del d["linkMerge"]
                changed = True
    return c, changed


def _nest(st, keys):
    """scatter over keys[0] a workflow that scatters over keys[1:] ... down to the original process.
    Inputs / outputs of the helper workflows are typed Any (legal for both runners); `valueFrom` and
    `when` belong to the innermost step (they are evaluated per scattered job)."""
    inner_in = {}
    outer_in = {}
    for k, v in st["in"].items():
        if isinstance(v, dict) and "valueFrom" in v:
            outer = {kk: vv for kk, vv in v.items() if kk != "valueFrom"}
            outer_in[k] = outer if outer else None
            inner_in[k] = {"source": k, "valueFrom": v["valueFrom"]}
        else:
            outer_in[k] = v
            inner_in[k] = k
    names = list(st["in"])

    def build(ks):
        if len(ks) == 1:
            s = {"run": st["run"], "in": dict(inner_in), "out": list(st["out"]), "scatter": ks[0]}
            if "when" in st:
                s["when"] = st["when"]
            return s
        sub = {"class": "Workflow", "requirements": copy.deepcopy(WF_REQS),
               "inputs": {k: {"type": ANY} for k in names},
               "outputs": {o: {"type": ANY, "outputSource": f"vfinner/{o}"} for o in st["out"]},
               "steps": {"vfinner": build(ks[1:])}}
        return {"run": sub, "in": {k: k for k in names}, "out": list(st["out"]), "scatter": ks[0]}

    top = build(keys)
    # the outermost level keeps the original wiring (minus valueFrom); a valueFrom without any source
    # keeps a null placeholder so that the name exists at every level
    top["in"] = {k: (v if v is not None else {}) for k, v in outer_in.items()}
    if len(keys) == 1:
        top["in"] = st["in"]
    for extra in ("requirements", "hints"):
        if extra in st:
            top[extra] = st[extra]
    return top


def rw_nested_crossproduct(case):
    c = copy.deepcopy(case)
    changed = False
    for _, w in list(walk_workflows(c["wf"])):
        for n, st in list(w["steps"].items()):
            if st.get("scatterMethod") == "nested_crossproduct" and isinstance(st.get("scatter"), list) and len(st["scatter"]) > 1:
                w["steps"][n] = _nest(st, list(st["scatter"]))
                changed = True
    return c, changed


UNWRAP_TOOL = {"class": "ExpressionTool", "requirements": JS, "inputs": {"x": {"type": {"type": "array", "items": ANY}}},
               "outputs": {"o": {"type": ANY}}, "expression": "${return {'o': inputs.x[0]};}"}


def _tool_inputs(case, run):
    if isinstance(run, str):
        try:
            run = json.loads(case["files"][run])
        except Exception:
            return {}
    if not isinstance(run, dict) or run.get("class") == "Workflow":
        return {}
    return run.get("inputs", {})


def _optional_or_default(p):
    if isinstance(p, dict):
        t = p.get("type")
        return "default" in p or (isinstance(t, list) and "null" in t) or (isinstance(t, str) and t.endswith("?"))
    return isinstance(p, list) and "null" in p or isinstance(p, str) and p.endswith("?")


def rw_fresh_token_for_optional_sink(case):
    """a connected step input whose tool parameter is optional or has a default gets its value through a helper
    step (value wrapped by valueFrom into a one-item list, unwrapped by the helper), i.e. as a fresh job output."""
    c = copy.deepcopy(case)
    changed = False
    for _, w in list(walk_workflows(c["wf"])):
        for n, st in list(w["steps"].items()):
            if n.startswith("vf"):
                continue
            params = _tool_inputs(c, st["run"])
            for k, v in list(st["in"].items()):
                # (a scattered input too: the whole array goes through the helper, the step scatters the copy)
                if k not in params or not _optional_or_default(params[k]):
                    continue
                srcs = v if isinstance(v, str) else (v.get("source") if isinstance(v, dict) else None)
                if not srcs:
                    continue
                helper_in = {"source": srcs, "valueFrom": "$([self])"}
                sink = {}
                if isinstance(v, dict):
                    for f in ("linkMerge", "pickValue"):
                        if f in v:
                            helper_in[f] = v[f]
                    for f in ("valueFrom", "default"):
                        if f in v:
                            sink[f] = v[f]
                name = _fresh(w, "vfun")
                w["steps"][name] = {"run": copy.deepcopy(UNWRAP_TOOL), "in": {"x": helper_in}, "out": ["o"]}
                sink["source"] = f"{name}/o"
                st["in"][k] = sink if len(sink) > 1 else f"{name}/o"
                changed = True
    return c, changed


def rw_inner_step_depends_on_inputs(case):
    """inside NESTED workflows, a step none of whose inputs has a source gets a dummy dependency on a workflow
    input (a step input that the process does not declare is legal and ignored)."""
    c = copy.deepcopy(case)
    changed = False
    for path, w in list(walk_workflows(c["wf"])):
        if not path or not w["inputs"]:
            continue
        first = next(iter(w["inputs"]))
        for st in w["steps"].values():
            has = False
            for v in st["in"].values():
                if isinstance(v, str) or (isinstance(v, dict) and v.get("source")):
                    has = True
            if not has and "vfdep" not in st["in"]:
                st["in"]["vfdep"] = first
                changed = True
    return c, changed


MECHANISMS = [
    ("C29/unconnected-step-cancelled", rw_unconnected),
    ("C29/repeated-source-collapsed", rw_repeated_source),
    ("C29/step-output-shared-by-workflow-outputs", rw_shared_step_output),
    ("C29/nested-workflow-passthrough-output-null", rw_nested_passthrough),
    ("C29/single-link-merge-nested-not-wrapped", rw_single_link_nested),
    ("C29/empty-nested-crossproduct-shape", rw_nested_crossproduct),
    ("C29/recoverable-flag-on-persisted-inner-token", rw_fresh_token_for_optional_sink),
    ("C29/skipped-subworkflow-sourceless-step-runs", rw_inner_step_depends_on_inputs),
]


def nested_crossproduct_steps(wf):
    """[(path of the step's workflow, step name, number of scatter inputs)] at every level"""
    out = []
    for path, w in walk_workflows(wf):
        for n, st in w["steps"].items():
            if st.get("scatterMethod") == "nested_crossproduct" and isinstance(st.get("scatter"), list) and len(st["scatter"]) > 1:
                out.append((path, n, len(st["scatter"])))
    return out


def expose_step_output(case, path, step, out):
    """document whose ONLY top-level output `vfx` (typed Any) carries <path>/<step>/<out>, through plain (not
    scattered / conditional / looped) sub-workflow steps only; everything that no longer reaches an output is
    pruned (no shared step output, no unconnected part is introduced).  -> (case', 'vfx') or (None, None)"""
    c = copy.deepcopy(case)
    parts = [p for p in path.split("/") if p]
    chain = [c["wf"]]
    for p in parts:
        st = chain[-1]["steps"].get(p)
        if st is None or not isinstance(st.get("run"), dict) or "scatter" in st or "when" in st or (st.get("requirements") or {}).get("cwltool:Loop"):
            return None, None
        chain.append(st["run"])
    src = f"{step}/{out}"
    key = "vfx"
    for depth in range(len(chain) - 1, -1, -1):
        w = chain[depth]
        w["outputs"] = {key: {"type": ANY, "outputSource": src}}
        if depth > 0:
            parent_step = chain[depth - 1]["steps"][parts[depth - 1]]
            parent_step["out"] = [key]
            src = f"{parts[depth - 1]}/{key}"
    for _ in range(4):
        if not prune_unconnected(c):
            break
    return _drop_unused_inputs(c), key


def same_doc(a, b):
    return json.dumps(a["wf"], sort_keys=True) == json.dumps(b["wf"], sort_keys=True)
