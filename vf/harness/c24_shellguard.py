"""Guards around operations that go through a BaseConnector persistent shell (used by C24 and C25).

`guarded(g, coro)` awaits `coro` and returns a JSON-able outcome list:
  ["ok", value] | ["exc", type, text] | ["runaway", why] | ["hang", why] | ["walltimeout"]

*hang* is a logical criterion, not a wall-clock one: a command is in flight on the persistent shell
(its lock is held), everything we wrote has been delivered, nothing is buffered for us, and the shell
process (or a child sharing its stdin) is blocked in read(0) — both sides wait for each other, nothing
can ever wake them.  The shell is then killed and forgotten so that the next command gets a fresh one.
*walltimeout* is the generous watchdog and only ever makes a case inconclusive.
"""
from __future__ import annotations

import asyncio
import os
import platform
import time

READ_NR = {"x86_64": "0", "aarch64": "63"}.get(platform.machine())


class Runaway(Exception):
    pass


class Guard:
    def __init__(self, conn, run_cap=150, same_cmd_cap=2):
        self.conn = conn
        self.runs = 0
        self.cmds: dict[str, int] = {}
        self.run_cap = run_cap
        self.same_cmd_cap = same_cmd_cap
        self.hangs = 0

    def count_runs(self):
        """Wrap conn.run: no single path operation legitimately issues the same command three times."""
        orig_run = self.conn.run
        g = self

        async def counted_run(*a, **k):
            g.runs += 1
            cmd = " ".join(k.get("command") or (a[1] if len(a) > 1 else []))
            g.cmds[cmd] = g.cmds.get(cmd, 0) + 1
            if g.same_cmd_cap and g.cmds[cmd] > g.same_cmd_cap:
                raise Runaway(f"the same command was issued {g.cmds[cmd]} times by one operation: ...{cmd[-120:]}")
            if g.runs > g.run_cap:
                raise Runaway(f"more than {g.run_cap} connector.run calls in one operation")
            return await orig_run(*a, **k)

        self.conn.run = counted_run


def shells(conn):
    out = []
    for d in getattr(conn, "_shells", {}).values():
        out.extend(d.values())
    return out


def shell_deadlocked(conn) -> bool:
    if READ_NR is None:
        return False
    for s in shells(conn):
        try:
            proc = s._proc
            if not s._lock.locked() or proc.returncode is not None:
                continue
            if proc.stdin.transport.get_write_buffer_size() > 0 or len(proc.stdout._buffer) > 0:
                continue
            pids = [proc.pid]
            try:  # a child that reads the shell's stdin (no file operand left) deadlocks the same way
                with open(f"/proc/{proc.pid}/task/{proc.pid}/children") as f:
                    pids += [int(x) for x in f.read().split()]
            except OSError:
                pass
            stdin0 = os.readlink(f"/proc/{proc.pid}/fd/0")
            for pid in pids:
                with open(f"/proc/{pid}/syscall") as f:
                    parts = f.read().split()
                with open(f"/proc/{pid}/stat") as f:
                    state = f.read().rsplit(")", 1)[1].split()[0]
                # 'S' = really asleep in read(0): a reader that has been woken because data arrived is 'R' even
                # if an overloaded machine has not scheduled it yet
                if parts[:2] == [READ_NR, "0x0"] and state == "S" and os.readlink(f"/proc/{pid}/fd/0") == stdin0:
                    return True
        except Exception:
            continue
    return False


async def recycle(conn):
    for s in shells(conn):
        try:
            s._proc.kill()
            await asyncio.wait_for(s._proc.wait(), 5)
        except Exception:
            pass
    try:
        conn._shells.clear()
    except Exception:
        pass


async def settle_children(conn, maxwait=2.0):
    """Background jobs started by an interpreted `&` must finish before trees are observed."""
    t0 = time.monotonic()
    while time.monotonic() - t0 < maxwait:
        busy = False
        for s in shells(conn):
            try:
                pid = s._proc.pid
                with open(f"/proc/{pid}/task/{pid}/children") as f:
                    if f.read().strip():
                        busy = True
            except Exception:
                pass
        if not busy:
            break
        await asyncio.sleep(0.01)
    await asyncio.sleep(0.03)


def procs_mentioning(needle: str) -> int:
    """Number of other processes whose command line contains `needle`."""
    n = 0
    me = os.getpid()
    nb = needle.encode("utf-8", errors="surrogateescape")
    for d in os.listdir("/proc"):
        if not d.isdigit() or int(d) == me:
            continue
        try:
            with open(f"/proc/{d}/cmdline", "rb") as f:
                if nb in f.read():
                    n += 1
        except OSError:
            pass
    return n


def _procs_with_cwd(cwd: str, exclude: set) -> int:
    n = 0
    for d in os.listdir("/proc"):
        if not d.isdigit() or int(d) in exclude:
            continue
        try:
            if os.readlink(f"/proc/{d}/cwd") == cwd:
                n += 1
        except OSError:
            pass
    return n


async def settle_background(cwd: str, conn, maxwait=10.0):
    """Orphaned background jobs (`... & id` interpreted by a one-shot `sh -c`) are re-parented to init, possibly
    still between fork and exec.  Everything the connector spawns inherits the worker's private cwd, so: wait
    until no process other than this one and the live persistent shells has that cwd."""
    t0 = time.monotonic()
    while time.monotonic() - t0 < maxwait:
        exclude = {os.getpid()} | {s._proc.pid for s in shells(conn) if getattr(s, "_proc", None) is not None}
        if _procs_with_cwd(cwd, exclude) == 0:
            return True
        await asyncio.sleep(0.02)
    return False


async def guarded(g: Guard, coro, wall=90.0, polls=6):
    g.runs = 0
    g.cmds = {}
    task = asyncio.ensure_future(coro)
    blocked = 0
    t0 = time.monotonic()
    while True:
        await asyncio.wait({task}, timeout=0.03)
        if task.done():
            break
        blocked = blocked + 1 if shell_deadlocked(g.conn) else 0
        timed_out = time.monotonic() - t0 > wall
        if blocked >= polls or timed_out:
            task.cancel()
            await asyncio.gather(task, return_exceptions=True)
            await recycle(g.conn)
            if blocked >= polls:
                g.hangs += 1
                return ["hang", "persistent shell blocked reading its stdin while the output of its command is awaited"]
            return ["walltimeout"]
    try:
        return ["ok", task.result()]
    except Runaway as e:
        return ["runaway", str(e)]
    except asyncio.CancelledError:
        return ["walltimeout"]
    except Exception as e:
        return ["exc", type(e).__name__, str(e)[:240]]
