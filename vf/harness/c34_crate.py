"""C34: run a generated CWL case with a FILE database, export its provenance with
`streamflow prov` (in-process) and read the archive with an independent reader (zipfile + json)."""
from __future__ import annotations

import contextlib
import hashlib
import io
import json
import os
import zipfile

from vf.common import CaseTimeout
from vf.harness import c29_run as R


def write_streamflow_file(d):
    p = os.path.join(d, "streamflow.yml")
    with open(p, "w") as f:  # JSON is YAML
        json.dump({"version": "v1.0", "workflows": {},
                   "database": {"type": "default", "config": {"connection": os.path.join(d, "sf.db")}}}, f, indent=1)
    return p


def run_prov(d, sf_file, name, extra=(), alarm=None, timeout=120):
    """`streamflow prov <name> --file ... --outdir d/prov --name crate.zip` in-process
    -> (rc | 'TIMEOUT', stdout, captured log)"""
    import streamflow.main
    from streamflow.log_handler import logger

    cap = R._Capture()
    old_handlers, old_level = list(logger.handlers), logger.level
    logger.handlers = [cap]
    out = io.StringIO()
    cwd = os.getcwd()
    try:
        os.chdir(d)
        with R.no_gc(), R.case_tmp(d), contextlib.redirect_stdout(out), (alarm(timeout) if alarm else contextlib.nullcontext()):
            rc = streamflow.main.main(["prov", name, "--file", sf_file, "--outdir", os.path.join(d, "prov"),
                                       "--name", "crate.zip", *extra])
        return rc, out.getvalue(), "\n".join(cap.lines)[:4000]
    except CaseTimeout as e:
        return "TIMEOUT", out.getvalue(), str(e)[-600:]
    finally:
        os.chdir(cwd)
        logger.handlers = old_handlers
        logger.setLevel(old_level)


def sha1_bytes(b):
    return hashlib.sha1(b).hexdigest()


def _types(e):
    t = e.get("@type", [])
    return [t] if isinstance(t, str) else list(t)


def _is_local(i):
    return isinstance(i, str) and "://" not in i and not i.startswith("mailto:")


def _is_relpath(i):
    return _is_local(i) and not i.startswith("#") and not i.startswith("_:") and i not in ("./",)


class Crate:
    """independent reader of the exported archive"""

    def __init__(self, path):
        self.problems = []  # (code, detail)
        self.zip = zipfile.ZipFile(path)
        self.names = set(self.zip.namelist())
        self.graph = {}
        self.meta = None
        try:
            self.meta = json.loads(self.zip.read("ro-crate-metadata.json").decode("utf-8"))
        except KeyError:
            self.problems.append(("no-metadata", "ro-crate-metadata.json missing from the archive"))
            return
        except Exception as e:
            self.problems.append(("bad-json", f"ro-crate-metadata.json is not valid JSON: {e}"))
            return
        if not isinstance(self.meta, dict) or "@context" not in self.meta or not isinstance(self.meta.get("@graph"), list):
            self.problems.append(("bad-jsonld", "metadata lacks @context or a list @graph"))
            self.meta = None
            return
        for e in self.meta["@graph"]:
            if not isinstance(e, dict) or not isinstance(e.get("@id"), str):
                self.problems.append(("entity-without-id", json.dumps(e)[:200]))
                continue
            if e["@id"] in self.graph:
                self.problems.append(("duplicate-id", e["@id"]))
            self.graph[e["@id"]] = e

    # -- structural checks -----------------------------------------------------
    def check_files(self, counters):
        for i, e in self.graph.items():
            if "File" in _types(e) and _is_relpath(i):
                counters["file_entities"] = counters.get("file_entities", 0) + 1
                if i not in self.names:
                    self.problems.append(("file-not-in-archive", f"File entity {i!r} (alternateName {e.get('alternateName')!r}) has no member in the zip"))
                    continue
                data = self.zip.read(i)
                if "sha1" in e and e["sha1"] != sha1_bytes(data):
                    self.problems.append(("sha1-mismatch", f"File entity {i!r}: recorded sha1 {e['sha1']} but the archived bytes hash to {sha1_bytes(data)}"))
                if "contentSize" in e and str(e["contentSize"]) != str(len(data)):
                    self.problems.append(("size-mismatch", f"File entity {i!r}: contentSize {e['contentSize']} but {len(data)} bytes archived"))

    def check_references(self, counters):
        def walk(v, owner, key):
            if isinstance(v, dict):
                if set(v) == {"@id"}:
                    counters["references"] = counters.get("references", 0) + 1
                    if _is_local(v["@id"]) and v["@id"] not in self.graph:
                        self.problems.append(("dangling-reference", f"{owner!r}.{key} -> {v['@id']!r} is not in @graph"))
                else:
                    for k, x in v.items():
                        if k != "@context":
                            walk(x, owner, k)
            elif isinstance(v, list):
                for x in v:
                    walk(x, owner, key)

        for i, e in self.graph.items():
            for k, v in e.items():
                if k not in ("@id", "@type"):
                    walk(v, i, k)

    # -- the run's values -------------------------------------------------------
    def main_action(self):
        root = self.graph.get("./", {})
        me = (root.get("mainEntity") or {}).get("@id")
        acts = [e for e in self.graph.values() if "CreateAction" in _types(e) and (e.get("instrument") or {}).get("@id") == me]
        return me, acts

    def leaves(self, v, depth=0):
        """flatten a PropertyValue value into leaves: strings, ('file', sha1), following references"""
        if depth > 12:
            return ["<deep>"]
        if isinstance(v, list):
            out = []
            for x in v:
                out.extend(self.leaves(x, depth + 1))
            return out
        if isinstance(v, dict):
            e = v if "value" in v or "sha1" in v else self.graph.get(v.get("@id"), v)
            if "File" in _types(e) and "sha1" in e:
                return [("file", e["sha1"], _names(e))]
            if "Collection" in _types(e) and "mainEntity" in e:
                return self.leaves(e["mainEntity"], depth + 1)
            if "value" in e:
                return self.leaves(e["value"], depth + 1)
            return [("ref", v.get("@id"))]
        return [v]

    def dataset_file_shas(self, e, depth=0):
        out = []
        if depth > 12:
            return out
        for part in e.get("hasPart", []) or []:
            p = self.graph.get(part.get("@id")) if isinstance(part, dict) else None
            if not p:
                out.append("<dangling>")
            elif "File" in _types(p):
                out.append(p.get("sha1"))
            elif "Dataset" in _types(p):
                out.extend(self.dataset_file_shas(p, depth + 1))
        return out

    def find_value(self, refs, name, value, file_sha):
        """is parameter `name` with the run's `value` represented among the referenced entities?
        -> (True, None) | (False, reason) where reason is text or ('name-lost', sha1, basename, recorded names)"""
        ents = [self.graph.get(r.get("@id")) for r in refs if isinstance(r, dict)]
        ents = [e for e in ents if e]
        if isinstance(value, dict) and value.get("class") == "Directory":
            # a Dataset among the action's values whose (recursive) parts are File entities with exactly the
            # checksums of the files of the directory
            want = sorted(directory_file_shas(value, file_sha))
            seen = []
            for e in ents:
                if "Dataset" in _types(e):
                    got = sorted(self.dataset_file_shas(e))
                    if got == want:
                        return True, None
                    seen.append(got)
            if not want and any("Dataset" in _types(e) for e in ents):
                return True, None
            return False, f"no Dataset with the directory's files {want}; datasets found carry {seen}"[:600]
        if isinstance(value, dict) and value.get("class") == "File":
            sha, bn = file_sha(value), value.get("basename") or os.path.basename(value.get("path", ""))
            hit = [self.graph.get(sha) for e in ents
                   if e.get("sha1") == sha or ("Collection" in _types(e) and (e.get("mainEntity") or {}).get("@id") == sha)]
            hit = [e for e in hit if e]
            if not hit:
                return False, f"no File entity with sha1 {sha} among the action's values"
            if all(bn not in _names(e) for e in hit):
                return False, ("name-lost", sha, bn, sorted(set().union(*[_names(e) for e in hit])))
            return True, None
        want = expected_leaves(value, file_sha)
        unordered = _has_record(value)
        cands = [e for e in ents if "PropertyValue" in _types(e) and e.get("name") == name]
        if not cands:
            return False, f"no PropertyValue named {name!r} among the action's values"
        lost = None
        for e in cands:
            got = self.leaves(e.get("value"))
            g2 = [x[:2] if isinstance(x, tuple) else x for x in got]
            w2 = [x[:2] if isinstance(x, tuple) else x for x in want]
            if (sorted(map(repr, g2)) == sorted(map(repr, w2))) if unordered else (g2 == w2):
                bad = [(x, g) for x, g in zip(want, got) if isinstance(x, tuple) and isinstance(g, tuple) and x[2] not in g[2]]
                if not bad or unordered:
                    return True, None
                lost = ("name-lost", bad[0][0][1], bad[0][0][2], sorted(bad[0][1][2]))
        if lost:
            return False, lost
        return False, (f"PropertyValue {name!r} carries {json.dumps([self.leaves(e.get('value')) for e in cands], default=list)[:300]}, "
                       f"the run's value is {json.dumps(want, default=list)[:300]}")


def directory_file_shas(v, file_sha):
    """sha1 of every file below a CWL Directory value (from its listing, else from the directory on disk)"""
    out = []
    if "listing" in v:
        for x in v["listing"]:
            if x.get("class") == "File":
                out.append(file_sha(x))
            elif x.get("class") == "Directory":
                out.extend(directory_file_shas(x, file_sha))
        return out
    p = v.get("path")
    if p and os.path.isdir(p):
        for root, _, files in os.walk(p):
            for f in files:
                with open(os.path.join(root, f), "rb") as fh:
                    out.append(sha1_bytes(fh.read()))
    return out


def _has_record(v):
    if isinstance(v, list):
        return any(_has_record(x) for x in v)
    return isinstance(v, dict) and v.get("class") != "File"


def _names(e):
    a = e.get("alternateName", []) if isinstance(e, dict) else []
    return {a} if isinstance(a, str) else set(a)


def expected_leaves(v, file_sha):
    """leaves of a CWL value the way a faithful representation must carry them: scalars as text,
    files by checksum (+ basename), nulls omitted."""
    if v is None:
        return []
    if isinstance(v, bool):
        return [str(v)]
    if isinstance(v, (int, float, str)):
        return [str(v)]
    if isinstance(v, list):
        out = []
        for x in v:
            out.extend(expected_leaves(x, file_sha))
        return out
    if isinstance(v, dict):
        if v.get("class") == "File":
            return [("file", file_sha(v), v.get("basename") or os.path.basename(v.get("path", "")))]
        out = []
        for k in v:
            out.extend(expected_leaves(v[k], file_sha))
        return out
    return [str(v)]
