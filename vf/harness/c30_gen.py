"""C30 generator: random CWL v1.2 CommandLineTools whose command is a probe, plus job objects.

Three classes of tools (see vf/checks/c30.py):
  R  "rich"    1..6 bound inputs of every type and binding option, arguments, streams, environment;
               hostile strings wherever StreamFlow quotes them (scalars, file names, stream names,
               arguments, valueFrom); the few feature combinations that trigger a *listed* defect are
               left out, so a rich tool is expected to agree with the reference exactly;
  T  "trigger" a minimal tool (one feature) that contains exactly one listed trigger, with hostile
               content; divergences are classified by predicates over this small tool;
  W  "wild"    no restriction at all (thorough tier; divergences are shrunk before classification).

Safety rules for hostile strings (DESIGN.md section 2.5): command words that a shell could end up
executing come from a fixed list of harmless / non-existent commands (`id`, `vfnoop_<n>`); no string
contains a word starting with `/`, `~` or `.` after whitespace or a shell operator, no `..`, and no
redirection to an absolute path.  The workers additionally run in the read-only mount-namespace jail.
"""
from __future__ import annotations

import copy

# strings used as *job values* (never interpolated by CWL)
JOB_STRS = [
    "a b", "it's", 'q"q', "$HOME", "`id`", "$(id)", "${HOME}", "a;vfnoop_1", "*", "", "-x", "ü✓", "a\\b",
    "two  spaces", "#c", "a~b", "a&vfnoop_2", "(p)", "new\nline", "tab\tx", "a|vfnoop_3", "a>vfout", "a<vfin", "$0",
    "!x", "{a,b}", "[ab]", "?", "a=b", "%s", "\\", "'", '"', " lead", "trail ", "--opt=val", "a,b", "x;", "$", "`",
    "a'b\"c", "é è", "\\n", "a\\ b", ")", "&&", "||", "1", "0", "-", "--",
]
BENIGN_STRS = ["plain", "abc", "x1", "value", "A", "z-9", "under_score", "10", "k=v", "Bq", "w.x", "n:m"]
# strings that appear inside the *tool document* (must not contain `$(` / `${`: CWL would interpolate them)
DOC_STRS = ["-A", "lit eral", "it's", 'q"q', "$HOME", "`id`", "a;vfnoop_1", "*", "#c", "a&vfnoop_2", "(p)", "a|vfnoop_3",
            "ü✓", "a\\b", "{a,b}", "--flag", "x y  z", "'", "$0", ""]
PREFIXES = ["-p", "--long", "--eq=", "-", "-I", "--k"]
HOSTILE_PREFIXES = ["--with space", "-q'", "--d=$HOME", "-s;"]
SEPARATORS = [",", ":", "=", "+"]
HOSTILE_SEPARATORS = [" ", ";", "|", ", ", "&"]
ENV_SAFE = ["plain", "sp ace", "q'q", "a;vfnoop_1", "ü", "#h", "a  b", "*", "x=y", "(p)", "a|b", "", "-n"]
ENV_HOSTILE = ["$HOME", "`id`", 'd"q', "back\\slash", "$0 x", "a\\\\b", '"', "$", "\\", "a`id`b", "$(id)"]
FILE_NAMES = ["in file.txt", "b.dat", "c'q.txt"]
PLAIN_FILE_NAMES = ["b.dat"]

SCALAR_TYPES = ["string", "string", "string", "int", "double", "boolean", "File", "string?", "int?", "enum", "long", "float"]
COMPOSITE_TYPES = ["string[]", "string[]", "int[]", "File[]", "record", "string[][]", "double[]"]
WILD_COMPOSITE_TYPES = COMPOSITE_TYPES + ["boolean[]"]


class Pools:
    def __init__(self, rng, mode):
        self.rng = rng
        self.mode = mode  # "R", "W" (T builds its tool by hand)
        self.hostile_p = rng.choice([0.2, 0.5, 0.9])
        self.used: set[str] = set()

    def scalar_str(self):
        rng = self.rng
        return rng.choice(JOB_STRS) if rng.random() < self.hostile_p else rng.choice(BENIGN_STRS)

    def item_str(self):
        """String placed inside an array / record-array."""
        if self.mode == "W":
            return self.scalar_str()
        return self.rng.choice(BENIGN_STRS)

    def prefix(self, composite=False):
        if self.mode == "W" and self.rng.random() < 0.25:
            return self.rng.choice(HOSTILE_PREFIXES)
        if not composite and self.rng.random() < 0.25:
            return self.rng.choice(HOSTILE_PREFIXES)  # scalar bindings are quoted
        return self.rng.choice(PREFIXES)

    def separator(self):
        if self.mode == "W" and self.rng.random() < 0.5:
            return self.rng.choice(HOSTILE_SEPARATORS)
        return self.rng.choice(SEPARATORS)

    def env_value(self):
        if self.mode == "W" and self.rng.random() < 0.5:
            return self.rng.choice(ENV_HOSTILE)
        return self.rng.choice(ENV_SAFE)

    def file_names(self, composite=False):
        if composite and self.mode != "W":
            return PLAIN_FILE_NAMES
        return FILE_NAMES


def _file(name):
    return {"class": "File", "path": name}


def gen_binding(rng, P: Pools, t, shell, composite=False, allow_valuefrom=True):
    b = {}
    if rng.random() < 0.75:
        b["position"] = rng.choice([0, 1, 2, 5, -1, 1, 2, -2, 9, 10, 11, 100])
    elif rng.random() < 0.3:
        b["position"] = rng.choice(["$(inputs.pos)", "${return 3;}", "$(1+1)"])
    if rng.random() < 0.5:
        b["prefix"] = P.prefix(composite)
        if rng.random() < 0.4:
            b["separate"] = rng.random() < 0.3
    if t.endswith("[]") and rng.random() < 0.5:
        b["itemSeparator"] = P.separator()
        if rng.random() < 0.5:  # itemSeparator x prefix x separate: false (arrays of length 0..3)
            b.setdefault("prefix", P.prefix(composite))
            b["separate"] = rng.random() < 0.3
    if allow_valuefrom and rng.random() < 0.15 and t in ("string", "int", "string?", "File", "string[]"):
        # a literal valueFrom on an array binding is hostile content in a composite binding: class W only
        b["valueFrom"] = {"string": "$(self)x", "int": "$(self + 1)", "string?": "$(self)", "File": "$(self.basename)",
                          "string[]": "$(self.length)"}[t] if (rng.random() < 0.7 or (composite and P.mode != "W")) else rng.choice(DOC_STRS)
    if shell and rng.random() < 0.3:
        b["shellQuote"] = rng.random() < 0.4
    return b


def gen_input(rng, P: Pools, name, shell):
    """-> (input schema dict, job value)"""
    t = rng.choice(SCALAR_TYPES if rng.random() < 0.55 else (WILD_COMPOSITE_TYPES if P.mode == "W" else COMPOSITE_TYPES))
    bound = rng.random() < 0.9
    W = P.mode == "W"
    if t == "record":
        fields, val = {}, {}
        for fn, ft in (("fa", "string"), ("fb", "int"), ("fc", "string[]"))[: rng.randint(1, 3)]:
            f = {"type": ft}
            if rng.random() < 0.8:
                f["inputBinding"] = gen_binding(rng, P, ft, shell, composite=(ft == "string[]"), allow_valuefrom=False)
            fields[fn] = f
            val[fn] = P.scalar_str() if ft == "string" else rng.randint(0, 9) if ft == "int" else \
                [P.item_str() for _ in range(rng.randint(0, 2))]
        schema = {"type": {"type": "record", "name": name + "_rec", "fields": fields}}
        if bound and rng.random() < 0.6:
            b = {}
            if rng.random() < 0.6:
                b["position"] = rng.choice([0, 1, 3])
            if rng.random() < 0.3:
                b["prefix"] = P.prefix(composite=True)
            schema["inputBinding"] = b
        return schema, val
    if t == "enum":
        syms = ["alpha", "be-ta", "g_3"]
        schema = {"type": {"type": "enum", "name": name + "_enum", "symbols": syms}}
        if bound:
            schema["inputBinding"] = gen_binding(rng, P, "enum", shell)
        return schema, rng.choice(syms)
    if t == "string[][]":
        inner = {"type": "array", "items": "string"}
        if rng.random() < 0.5:
            ib = gen_binding(rng, P, "string[]", shell, composite=True, allow_valuefrom=False)
            ib.pop("position", None)
            inner["inputBinding"] = ib
        schema = {"type": {"type": "array", "items": inner}}
        if bound or ("inputBinding" in inner and not W):
            # R: bound inner arrays only below a bound input, see mechanism C30/unbound-array-items-ordered-by-name
            schema["inputBinding"] = gen_binding(rng, P, "x", shell, composite=True, allow_valuefrom=False)
        v = [[P.item_str() for _ in range(rng.randint(0, 2))] for _ in range(rng.randint(0, 2))]
        if v and not any(v) and not W:
            v[0] = [P.item_str()]  # R: see mechanism C30/array-prefix-dropped-when-no-item-emits
        return schema, v
    schema = {"type": t}
    is_array = t.endswith("[]")
    item_binding = False
    if is_array and (rng.random() < 0.3 or (t == "boolean[]" and not W)):
        # binding on the items as well (R: boolean[] always has one, see mechanism C30/boolean-array-items-emitted)
        ib = {k: v for k, v in gen_binding(rng, P, t[:-2], shell, composite=True, allow_valuefrom=False).items()
              if k in ("prefix", "separate", "shellQuote")}
        if t == "boolean[]" and "prefix" not in ib and not W:
            ib["prefix"] = rng.choice(PREFIXES)
        schema["type"] = {"type": "array", "items": t[:-2], "inputBinding": ib}
        item_binding = True
    if bound or (t == "boolean[]" and not W) or (item_binding and not W):
        # R: an array with bound items is always bound itself, see mechanism C30/unbound-array-items-ordered-by-name
        schema["inputBinding"] = gen_binding(rng, P, t, shell, composite=is_array)
        if item_binding and not W:
            schema["inputBinding"].pop("itemSeparator", None)  # R: see mechanism C30/item-bindings-joined-with-itemseparator
            if schema["inputBinding"].get("shellQuote") is True:
                del schema["inputBinding"]["shellQuote"]  # R: see mechanism C30/bound-items-quoted-twice-with-explicit-shellquote
    if t == "string":
        v = P.scalar_str()
    elif t in ("int", "long"):
        v = rng.choice([0, 1, -3, 42, 99, 2147483647]) if t == "int" else rng.choice([0, 7, 2147483648, -9007199254740991])
    elif t in ("double", "float"):
        v = rng.choice([0.5, 1.0, -2.25, 1e-7, 3.0e10, 12345.678, 100.0, 1e21])
    elif t == "boolean":
        v = rng.random() < 0.6
    elif t == "string[]":
        # items that carry their own binding are quoted by StreamFlow: hostile strings allowed there
        v = [(P.scalar_str() if item_binding else P.item_str()) for _ in range(rng.randint(0, 3))]
    elif t == "int[]":
        v = [rng.randint(0, 9) for _ in range(rng.randint(0, 3))]
    elif t == "double[]":
        v = [rng.choice([0.5, 1.0, 2.25, 1e-7]) for _ in range(rng.randint(0, 3))]
    elif t == "boolean[]":
        v = [rng.random() < 0.5 for _ in range(rng.randint(0, 3))]
    elif t == "File":
        v = _file(rng.choice(P.file_names()))
    elif t == "File[]":
        names = P.file_names(composite=True)
        v = [_file(n) for n in rng.sample(names, rng.randint(0, min(2, len(names))))]
    elif t == "string?":
        v = None if rng.random() < 0.4 else P.scalar_str()
    elif t == "int?":
        v = None if rng.random() < 0.4 else rng.randint(0, 9)
    else:
        raise AssertionError(t)
    return schema, v


def base_tool(probe_path, inputs, shell=False):
    tool = {
        "cwlVersion": "v1.2",
        "class": "CommandLineTool",
        "baseCommand": ["python3", probe_path],
        "requirements": {"InlineJavascriptRequirement": {}},
        "inputs": inputs,
        "outputs": {"dump": {"type": "File", "outputBinding": {"glob": "vf_dump.json"}}},
    }
    if shell:
        tool["requirements"]["ShellCommandRequirement"] = {}
    return tool


def gen_rich(rng, probe_path: str, mode: str) -> dict:
    assert mode in ("R", "W")
    P = Pools(rng, mode)
    shell = rng.random() < 0.35
    inputs, job = {}, {}
    # document order deliberately differs from name order (bindings at equal position sort by name)
    for name in rng.sample(["i0", "z1", "m2", "b3", "k4", "c5"], rng.randint(1, 6)):
        inputs[name], job[name] = gen_input(rng, P, name, shell)
    inputs["pos"] = {"type": "int"}  # helper referenced by expressions, never bound
    job["pos"] = rng.choice([0, 2, 4])
    tool = base_tool(probe_path, inputs, shell)
    if rng.random() < 0.4:
        args = []
        for _ in range(rng.randint(1, 2)):
            r = rng.random()
            if r < 0.3:
                args.append(rng.choice(DOC_STRS))
            elif r < 0.5:
                args.append({"valueFrom": "$(inputs.pos)", "position": rng.choice([0, 3, -2, -1, 9, 10, 11, 100])})
            elif r < 0.7:
                a = {"prefix": P.prefix(), "valueFrom": rng.choice(DOC_STRS)}
                if rng.random() < 0.4:
                    a["separate"] = False
                args.append(a)
            elif r < 0.85:
                args.append({"valueFrom": "$(inputs.pos + 1)", "prefix": "-n", "position": rng.choice([1, 2])})
            else:
                a = {"valueFrom": rng.choice(DOC_STRS), "position": rng.choice([0, 1, 2, 9, 10, 100, -1])}
                if shell:
                    a["shellQuote"] = rng.random() < 0.5
                args.append(a)
        tool["arguments"] = args
    if rng.random() < 0.3:
        env = {}
        for k in ("VF_A", "VF_B")[: rng.randint(1, 2)]:
            env[k] = P.env_value() if rng.random() < 0.8 else "$(inputs.pos)"
        if rng.random() < 0.3:
            inputs["envs"] = {"type": "string"}
            job["envs"] = P.env_value()
            env["VF_C"] = "$(inputs.envs)"
        tool["requirements"]["EnvVarRequirement"] = {"envDef": env}
    if rng.random() < 0.25:
        inputs["fin"] = {"type": "File"}
        job["fin"] = _file("fin.txt")
        tool["stdin"] = "$(inputs.fin.path)"
    want_out = rng.random() < 0.4
    want_err = rng.random() < 0.3 or (want_out and mode == "R")  # R: see mechanism C30/stderr-merged-into-stdout-file
    if want_out:
        r = rng.random()
        if r < 0.5:
            tool["stdout"] = rng.choice(["out.txt", "o ut.txt", "out'q.txt"])
        elif r < 0.8:
            inputs["oname"] = {"type": "string"}
            job["oname"] = rng.choice(["res.txt", "r es.txt", "r;vfnoop_4.txt", "r$HOME.txt"])
            tool["stdout"] = "$(inputs.oname)"
        tool["outputs"]["so"] = {"type": "stdout"}
    if want_err:
        if rng.random() < 0.7:
            tool["stderr"] = rng.choice(["err.txt", "e rr.txt", "e'q.txt"])
        tool["outputs"]["se"] = {"type": "stderr"}
    return {"kind": "tool", "class": mode, "tool": tool, "job": job}


# ---- class T: one listed trigger in a minimal tool ----------------------------------------------------
TRIGGERS = ["composite-unescaped", "composite-unescaped", "composite-unescaped", "boolean-array", "item-binding-separator",
            "env-expansion", "env-expansion", "stdout-only", "unbound-array-order"]


def gen_trigger(rng, probe_path: str, which: str | None = None) -> dict:
    which = which or rng.choice(TRIGGERS)
    inputs, job = {}, {}
    tool = base_tool(probe_path, inputs, shell=False)
    hs = lambda: rng.choice(JOB_STRS)
    if which == "composite-unescaped":
        form = rng.choice(["items", "items", "separator", "prefix", "files", "nested", "record-array", "items-sep"])
        b = {}
        if rng.random() < 0.5:
            b["position"] = rng.choice([0, 1, 2])
        if form == "items":
            if rng.random() < 0.4:
                b["prefix"] = rng.choice(PREFIXES)
                if rng.random() < 0.5:
                    b["separate"] = False
            inputs["a"] = {"type": "string[]", "inputBinding": b}
            job["a"] = [hs() for _ in range(rng.randint(1, 3))]
        elif form == "items-sep":
            b["itemSeparator"] = rng.choice(SEPARATORS)
            if rng.random() < 0.5:
                b["prefix"] = rng.choice(PREFIXES)
                b["separate"] = rng.random() < 0.5
            inputs["a"] = {"type": "string[]", "inputBinding": b}
            job["a"] = [hs() for _ in range(rng.randint(1, 3))]
        elif form == "separator":
            b["itemSeparator"] = rng.choice(HOSTILE_SEPARATORS)
            inputs["a"] = {"type": "string[]", "inputBinding": b}
            job["a"] = [rng.choice(BENIGN_STRS) for _ in range(rng.randint(2, 3))]
        elif form == "prefix":
            b["prefix"] = rng.choice(HOSTILE_PREFIXES)
            inputs["a"] = {"type": rng.choice(["string[]", "int[]"]), "inputBinding": b}
            job["a"] = [rng.choice(BENIGN_STRS)] if inputs["a"]["type"] == "string[]" else [3, 4]
        elif form == "files":
            inputs["a"] = {"type": "File[]", "inputBinding": b}
            job["a"] = [_file(n) for n in rng.sample(FILE_NAMES, rng.randint(1, 3))]
        elif form == "nested":
            inputs["a"] = {"type": {"type": "array", "items": {"type": "array", "items": "string"}}, "inputBinding": b}
            job["a"] = [[hs() for _ in range(rng.randint(1, 2))] for _ in range(rng.randint(1, 2))]
        else:  # record-array
            inputs["a"] = {"type": {"type": "record", "name": "a_rec", "fields": {"fc": {"type": "string[]", "inputBinding": b}}}}
            job["a"] = {"fc": [hs() for _ in range(rng.randint(1, 2))]}
    elif which == "boolean-array":
        b = {}
        if rng.random() < 0.5:
            b["position"] = rng.choice([0, 1])
        if rng.random() < 0.3:
            b["prefix"] = rng.choice(PREFIXES)
        r = rng.random()
        if r < 0.15:
            # nested arrays, all empty: only the outer prefix is left
            b["prefix"] = rng.choice(PREFIXES)
            inputs["a"] = {"type": {"type": "array", "items": {"type": "array", "items": "string"}}, "inputBinding": b}
            job["a"] = [[]] * rng.randint(1, 2)
        elif r < 0.35:
            # items with a binding of their own, none of them true: only the outer prefix is left
            b["prefix"] = rng.choice(PREFIXES)
            inputs["a"] = {"type": {"type": "array", "items": "boolean", "inputBinding": {"prefix": rng.choice(PREFIXES)}}, "inputBinding": b}
            job["a"] = [False] * rng.randint(1, 2)
        else:
            inputs["a"] = {"type": "boolean[]", "inputBinding": b}
            job["a"] = [rng.random() < 0.5 for _ in range(rng.randint(1, 3))]
    elif which == "item-binding-separator":
        ib = {}
        if rng.random() < 0.5:
            ib["prefix"] = rng.choice(PREFIXES)
        t = rng.choice(["int", "string"])
        inputs["a"] = {"type": {"type": "array", "items": t, "inputBinding": ib}, "inputBinding": {"itemSeparator": rng.choice(SEPARATORS)}}
        job["a"] = [rng.randint(0, 9) for _ in range(rng.randint(1, 3))] if t == "int" else [rng.choice(BENIGN_STRS) for _ in range(rng.randint(1, 3))]
    elif which == "unbound-array-order":
        ib = {}
        if rng.random() < 0.4:
            ib["prefix"] = rng.choice(PREFIXES)
        inputs["k"] = {"type": {"type": "array", "items": rng.choice(["int", "string"]), "inputBinding": ib}}
        job["k"] = [rng.randint(0, 9) for _ in range(rng.randint(1, 2))] if inputs["k"]["type"]["items"] == "int" \
            else [rng.choice(BENIGN_STRS) for _ in range(rng.randint(1, 2))]
        inputs["b"] = {"type": "string", "inputBinding": {}}
        job["b"] = hs()
        if rng.random() < 0.5:
            inputs["z"] = {"type": "int", "inputBinding": {"prefix": "--long"}}
            job["z"] = rng.randint(0, 9)
    elif which == "env-expansion":
        inputs["a"] = {"type": "string", "inputBinding": {}}
        job["a"] = rng.choice(BENIGN_STRS)
        env = {}
        if rng.random() < 0.5:
            env["VF_A"] = rng.choice([v for v in ENV_HOSTILE if "$(" not in v])
        else:
            inputs["envs"] = {"type": "string"}
            job["envs"] = rng.choice(ENV_HOSTILE)
            env["VF_C"] = "$(inputs.envs)"
        if rng.random() < 0.4:
            env["VF_B"] = rng.choice(ENV_SAFE)
        tool["requirements"]["EnvVarRequirement"] = {"envDef": env}
    elif which == "stdout-only":
        inputs["a"] = {"type": "string", "inputBinding": {}}
        job["a"] = hs()
        if rng.random() < 0.6:
            tool["stdout"] = rng.choice(["out.txt", "o ut.txt", "out'q.txt"])
        tool["outputs"]["so"] = {"type": "stdout"}
    else:
        raise AssertionError(which)
    return {"kind": "tool", "class": "T", "trigger": which, "tool": tool, "job": job}


def gen_case(rng, probe_path: str, klass: str) -> dict:
    if klass == "T":
        return gen_trigger(rng, probe_path)
    return gen_rich(rng, probe_path, klass)


# ---- shrinking ---------------------------------------------------------------------------------------
def references(tool: dict, name: str) -> bool:
    """Is input `name` mentioned by an expression elsewhere in the tool?"""
    t = copy.deepcopy(tool)
    t["inputs"].pop(name, None)
    return f"inputs.{name}" in repr(t)


def shrink_candidates(case: dict):
    """Yield (description, smaller case) — one removal each, most drastic first."""
    tool, job = case["tool"], case["job"]
    for name in list(tool["inputs"]):
        if references(tool, name):
            continue
        c = copy.deepcopy(case)
        del c["tool"]["inputs"][name]
        c["job"].pop(name, None)
        yield f"drop input {name}", c
    for i in range(len(tool.get("arguments", []))):
        c = copy.deepcopy(case)
        del c["tool"]["arguments"][i]
        if not c["tool"]["arguments"]:
            del c["tool"]["arguments"]
        yield f"drop argument {i}", c
    if "EnvVarRequirement" in tool["requirements"]:
        envdef = tool["requirements"]["EnvVarRequirement"]["envDef"]
        for k in list(envdef):
            c = copy.deepcopy(case)
            del c["tool"]["requirements"]["EnvVarRequirement"]["envDef"][k]
            if not c["tool"]["requirements"]["EnvVarRequirement"]["envDef"]:
                del c["tool"]["requirements"]["EnvVarRequirement"]
            yield f"drop env {k}", c
    for k, out in (("stdin", None), ("stdout", "so"), ("stderr", "se")):
        if k in tool or (out and out in tool["outputs"]):
            c = copy.deepcopy(case)
            c["tool"].pop(k, None)
            if out:
                c["tool"]["outputs"].pop(out, None)
            yield f"drop {k}", c
    if "ShellCommandRequirement" in tool["requirements"] and "shellQuote" not in repr(tool):
        c = copy.deepcopy(case)
        del c["tool"]["requirements"]["ShellCommandRequirement"]
        yield "drop ShellCommandRequirement", c
    for name, schema in tool["inputs"].items():
        t = schema.get("type")
        if isinstance(t, dict) and t.get("type") == "record" and len(t["fields"]) > 1:
            for fn in list(t["fields"]):
                c = copy.deepcopy(case)
                del c["tool"]["inputs"][name]["type"]["fields"][fn]
                c["job"][name].pop(fn, None)
                yield f"{name}: drop field {fn}", c
    for name, schema in tool["inputs"].items():
        v = job.get(name)
        if isinstance(v, list) and len(v) > 1:
            for i in range(len(v)):
                c = copy.deepcopy(case)
                c["job"][name] = [v[i]]
                yield f"{name}: keep only item {i}", c
        b = schema.get("inputBinding")
        if isinstance(b, dict):
            for opt in ("valueFrom", "itemSeparator", "separate", "prefix", "shellQuote", "position"):
                if opt in b:
                    c = copy.deepcopy(case)
                    del c["tool"]["inputs"][name]["inputBinding"][opt]
                    yield f"{name}: drop {opt}", c
        t = schema.get("type")
        if isinstance(t, dict) and isinstance(t.get("inputBinding"), dict):
            for opt in ("shellQuote", "separate", "prefix", "itemSeparator"):
                if opt in t["inputBinding"]:
                    c = copy.deepcopy(case)
                    del c["tool"]["inputs"][name]["type"]["inputBinding"][opt]
                    yield f"{name}: drop item {opt}", c
