"""C22 harness: one offline StreamFlow context with the four location kinds of the property.

 L  the real LocalConnector (`__LOCAL__`)
 A  shell-based remote location  (deployment remA, `c22-shell` = vf-shell + a command log)
 B  a second shell-based remote   (deployment remB)
 W  wrapped remote: `vf-wrap` (ConnectorWrapper pass-through) stacked on remA with one bind mount
    outer -> inner, emulated by a symlink so that `get_inner_path`'s mapping is true on disk.

`C22Shell` only adds observation to `VfShellRemoteConnector`: every command string handed to a shell
(`run`, stream reader, stream writer) is logged, which is what the mechanism predicates of the check
look at.
"""
from __future__ import annotations

import asyncio
import contextvars
import os
import re

from streamflow.deployment.connector import connector_classes

from vf.harness.connectors import VfShellRemoteConnector


# which transfer of a concurrent group the current task works for (tasks created inside transfer_data
# inherit a copy of the context, so the connector can tell whose stream it is asked to open)
XFER: contextvars.ContextVar = contextvars.ContextVar("c22_xfer", default=None)


async def _held(coro, xid, kind):
    """Emulates a slow link: the stream's process is only started once the gate lets this transfer go."""
    gate = C22Shell.GATE
    if gate is not None:
        await gate(xid, kind)
    return await coro


class C22Shell(VfShellRemoteConnector):
    LOG: list[tuple[str, str]] = []  # chronological, shared by all instances (one event loop thread)
    GATE = None  # async callable(transfer id, "reader"|"writer") installed by the concurrent class of C22

    def __init__(self, deployment_name, config_dir, locations=None, slots=8, transferBufferSize=65536):
        super().__init__(deployment_name, config_dir, locations, slots, transferBufferSize)
        self.cmd_log = C22Shell.LOG

    async def run(self, location, command, environment=None, workdir=None, stdin=None,
                  stdout=asyncio.subprocess.STDOUT, stderr=asyncio.subprocess.STDOUT,
                  capture_output=False, timeout=None, job_name=None):
        self.cmd_log.append(("run", " ".join(command)))
        return await super().run(location, command, environment, workdir, stdin, stdout, stderr,
                                 capture_output, timeout, job_name)

    async def get_stream_reader(self, command, location):
        self.cmd_log.append(("reader", " ".join(command)))
        mgr = await super().get_stream_reader(command, location)
        if C22Shell.GATE is not None:
            mgr.coro = _held(mgr.coro, XFER.get(), "reader")
        return mgr

    async def get_stream_writer(self, command, location):
        self.cmd_log.append(("writer", " ".join(command)))
        mgr = await super().get_stream_writer(command, location)
        if C22Shell.GATE is not None:
            mgr.coro = _held(mgr.coro, XFER.get(), "writer")
        return mgr


connector_classes["c22-shell"] = C22Shell

# Command templates of the transfer code paths that interpolate a path into a shell command line
# (label, log kind, prefix regex, quoting style of the interpolated path) — from reading
# data/remotepath.py (mkdir), core/utils.py (test -d, mkdir -p, tee), deployment/connector/base.py.
TEMPLATES = [
    ("mkdir-parent", "run", re.compile(r"^mkdir -m \d+ (-p )?"), "unquoted"),
    ("test-d", "run", re.compile(r'^test -d "'), "dquoted"),
    ("mkdir-p-dst", "run", re.compile(r"^mkdir -p "), "unquoted"),
    ("same-loc-ln", "run", re.compile(r"^ln -snf "), "unquoted"),
    ("same-loc-cp", "run", re.compile(r"^/bin/cp -rf "), "unquoted"),
    ("tar-reader", "reader", re.compile(r"^tar chf - -C "), "unquoted"),
    ("tee-writer", "writer", re.compile(r"^tar xpf - -O \| tee "), "unquoted"),
    ("tar-writer", "writer", re.compile(r"^tar xpf - -C "), "unquoted"),
]
ACTIVE = {
    "unquoted": {"space", "squote", "dquote", "dollar", "btick"},
    "dquoted": {"dquote", "dollar", "btick"},
}


def template_of(kind: str, line: str):
    for label, k, rx, style in TEMPLATES:
        if k == kind and rx.match(line):
            return label, style
    return None, None


class Env:
    def __init__(self, scratch: str, tag: str):
        self.root = os.path.join(scratch, f"c22-{tag}")
        self.ctx = None
        self.locs: dict = {}
        self.conns: dict = {}
        self.outer = os.path.join(self.root, "wmnt")  # mount point as seen from W
        self.inner = os.path.join(self.root, "winner")  # the same directory as seen from A

    async def start(self):
        from streamflow.core.deployment import DeploymentConfig, WrapsConfig
        from vf.harness.ctx import make_context

        os.makedirs(self.root, exist_ok=True)
        self.ctx = make_context(os.path.join(self.root, "wd"), db="default")
        dm = self.ctx.deployment_manager
        await dm.deploy(DeploymentConfig(name="__LOCAL__", type="local", config={}, external=True, lazy=False))
        for n in ("remA", "remB"):
            await dm.deploy(DeploymentConfig(name=n, type="c22-shell", config={}, external=False, lazy=False))
        await dm.deploy(DeploymentConfig(name="wrapW", type="vf-wrap", config={"mounts": {self.outer: self.inner}},
                                         external=False, lazy=False, wraps=WrapsConfig(deployment="remA")))
        for key, dep in (("L", "__LOCAL__"), ("A", "remA"), ("B", "remB"), ("W", "wrapW")):
            conn = dm.get_connector(dep)
            self.conns[key] = conn
            self.locs[key] = next(iter((await conn.get_available_locations()).values())).location
        return self

    def logs(self):
        return list(C22Shell.LOG)

    def clear_logs(self):
        C22Shell.LOG.clear()

    def kill_shells(self):
        """A persistent shell stuck in an unterminated quote never answers again: kill and forget."""
        for k in ("A", "B"):
            conn = self.conns[k]
            for per_loc in conn._shells.values():
                for shell in per_loc.values():
                    try:
                        shell._proc.kill()
                    except Exception:
                        pass
            conn._shells.clear()

    async def stop(self):
        from vf.harness.ctx import close_context

        self.kill_shells()
        await asyncio.wait_for(close_context(self.ctx), 30)
