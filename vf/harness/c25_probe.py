"""Probe command for C25 and the harness-side reference execution.

The probe is a tiny Python script written into the shard's scratch directory.  One invocation

    <python> -S -E <probe.py> <tagdir> <spec-json> [args...]

1. appends one line to <tagdir>/starts (O_APPEND; one line per *execution* — the exactly-once witness),
2. appends to <tagdir>/dump.jsonl what it observed: the whole os.environb, cwd, argv (hex-encoded
   bytes so that nothing is lost in transport),
3. optionally sleeps, writes a deterministic payload to stdout (and a text to stderr), sleeps again,
4. appends one line to <tagdir>/ends and exits with the requested status.

The payload is a function of (kind, size, seed) only, so the late output of a timed-out command can be
recognised in a later command's result.
"""
from __future__ import annotations

import json
import os
import shlex
import subprocess
import sys

PAYLOAD_SOURCE = r'''
def payload(kind, size, seed, nl):
    if size <= 0:
        return b""
    if kind == "text":
        unit = ("line %d of the probe output, seed %d\n" % (seed, seed)).encode()
    elif kind == "utf8":
        unit = ("züñí✓ 日本 %d\n" % seed).encode("utf-8")
    elif kind == "blank":
        unit = b" \n\t \n"
    else:
        unit = bytes((seed * 7 + i * 13) % 256 for i in range(251)) + b"\xff\xfe\xe2\x82"
    data = (unit * (size // len(unit) + 1))[:size]
    if kind == "bytes":
        return data
    text = data.decode("utf-8", errors="ignore")
    if text and nl and not text.endswith("\n"):
        text = text[:-1] + "\n"
    if text and not nl and text.endswith("\n"):
        text = text[:-1] + "x"
    return text.encode("utf-8")
'''

PROBE_SOURCE = r'''
import json, os, sys, time
tagdir, spec = sys.argv[1], json.loads(sys.argv[2])
def app(name, text):
    fd = os.open(os.path.join(tagdir, name), os.O_WRONLY | os.O_APPEND | os.O_CREAT, 0o644)
    os.write(fd, text.encode()); os.close(fd)
app("starts", "%d\n" % os.getpid())
''' + PAYLOAD_SOURCE + r'''
try:
    cwd = os.getcwdb().hex()
except OSError:
    cwd = None
app("dump.jsonl", json.dumps({
    "env": {k: os.environb[k.encode()].hex() if k.encode() in os.environb else None for k in spec.get("keys", [])},
    "allenv": {k.hex(): v.hex() for k, v in os.environb.items()},
    "cwd": cwd, "argv": [os.fsencode(a).hex() for a in sys.argv[3:]]}) + "\n")
if spec.get("sleep_before"):
    time.sleep(spec["sleep_before"])
out = payload(spec.get("kind", "text"), spec.get("size", 0), spec.get("seed", 0), spec.get("nl", True))
try:
    sys.stdout.buffer.write(out); sys.stdout.buffer.flush()
    if spec.get("err"):
        sys.stderr.write(spec["err"]); sys.stderr.flush()
except BrokenPipeError:
    pass
if spec.get("sleep_after"):
    time.sleep(spec["sleep_after"])
app("ends", "%d\n" % os.getpid())
os._exit(spec.get("status", 0))
'''

exec(PAYLOAD_SOURCE)  # harness-side copy of the very same function (to recognise stale output)


def install(scratch: str) -> str:
    p = os.path.join(scratch, "vf_probe.py")
    with open(p, "w", encoding="utf-8") as f:
        f.write(PROBE_SOURCE)
    return p


def words(probe: str, tagdir: str, spec: dict, args: list[str]) -> list[str]:
    """Command as a list of *shell words* (what StreamFlow callers pass): every word is quoted by the
    caller, exactly as the CWL command builder does for its arguments."""
    return [shlex.quote(sys.executable), "-S", "-E", shlex.quote(probe), shlex.quote(tagdir),
            shlex.quote(json.dumps(spec, sort_keys=True))] + [shlex.quote(a) for a in args]


def read_tag(tagdir: str) -> dict:
    def lines(n):
        try:
            with open(os.path.join(tagdir, n)) as f:
                return [x for x in f.read().split("\n") if x]
        except OSError:
            return []

    dumps = []
    for ln in lines("dump.jsonl"):
        d = json.loads(ln)
        dumps.append({
            "env": {k: (None if v is None else bytes.fromhex(v).decode("utf-8", errors="surrogateescape")) for k, v in d["env"].items()},
            "cwd": None if d["cwd"] is None else bytes.fromhex(d["cwd"]).decode("utf-8", errors="surrogateescape"),
            "argv": [bytes.fromhex(a).decode("utf-8", errors="surrogateescape") for a in d["argv"]],
            "allenv": {bytes.fromhex(k).decode("utf-8", errors="surrogateescape"): bytes.fromhex(v).decode("utf-8", errors="surrogateescape")
                       for k, v in d.get("allenv", {}).items()},
        })
    return {"starts": len(lines("starts")), "ends": len(lines("ends")), "dumps": dumps}


def reference(cmd_words: list[str], environment: dict | None, workdir: str | None, timeout: float | None):
    """Fresh `sh -c` run by the harness: environment and cwd are handed to the kernel natively, so no
    shell ever sees them.  Returns an outcome list like the SUT side."""
    env = dict(os.environ)
    env.update(environment or {})
    try:
        r = subprocess.run(["sh", "-c", " ".join(cmd_words) + " 2>&1"], env=env, cwd=workdir, stdin=subprocess.DEVNULL,
                           stdout=subprocess.PIPE, stderr=subprocess.DEVNULL, timeout=timeout)
    except subprocess.TimeoutExpired:
        return ["timeout"]
    except (FileNotFoundError, NotADirectoryError) as e:
        return ["not-run", type(e).__name__]
    return ["ok", r.stdout, r.returncode]
