"""Plain-`os` tree preparation, snapshots and cloning for the C24 differential oracle.

Nothing here goes through StreamFlow: trees are prepared and observed with `os` calls only.
Path templates are '/'-separated components; a component `<i>` stands for names[i].
"""
from __future__ import annotations

import hashlib
import os
import re
import shutil
import stat

from vf.harness.c24_names import expand

PH = re.compile(r"^<(\d+)>$")


def subst(tpl: str, names: list[str]) -> str:
    """Template -> relative path ('' is the root itself)."""
    if tpl == "":
        return ""
    out = []
    for comp in tpl.split("/"):
        m = PH.match(comp)
        out.append(names[int(m.group(1))] if m else comp)
    return "/".join(out)


def build(root: str, setup: list, names: list[str]) -> None:
    """setup actions: ["dir", tpl, mode] ["file", tpl, content, mode] ["symlink", tpl, target_tpl, absolute]
    ["rawlink", tpl, target_string] ["hardlink", tpl, target_tpl]"""
    os.makedirs(root, exist_ok=True)
    for act in setup:
        kind, p = act[0], os.path.join(root, subst(act[1], names))
        if kind == "dir":
            os.mkdir(p)
            os.chmod(p, act[2])
        elif kind == "file":
            with open(p, "wb") as f:
                f.write(expand(act[2]).encode("utf-8"))
            os.chmod(p, act[3])
        elif kind == "symlink":
            tgt = subst(act[2], names)
            if act[3]:
                tgt = os.path.join(root, tgt) if tgt else root
            else:
                tgt = os.path.relpath(os.path.join(root, tgt), os.path.dirname(p))
            os.symlink(tgt, p)
        elif kind == "rawlink":
            os.symlink(subst(act[2], names), p)
        elif kind == "hardlink":
            os.link(os.path.join(root, subst(act[2], names)), p, follow_symlinks=False)
        else:
            raise ValueError(kind)


def snapshot(root: str) -> dict:
    """rel path -> entry (lstat view, nothing followed).  Link targets have the root replaced by <R>."""
    out = {}
    inodes: dict = {}
    for dirpath, dirnames, filenames in os.walk(root, followlinks=False):
        for n in dirnames + filenames:
            p = os.path.join(dirpath, n)
            rel = os.path.relpath(p, root)
            st = os.lstat(p)
            if stat.S_ISLNK(st.st_mode):
                out[rel] = ["link", os.readlink(p).replace(root, "<R>")]
            elif stat.S_ISDIR(st.st_mode):
                out[rel] = ["dir", stat.S_IMODE(st.st_mode)]
            elif stat.S_ISREG(st.st_mode):
                with open(p, "rb") as f:
                    data = f.read()
                out[rel] = ["file", hashlib.sha1(data).hexdigest(), len(data), stat.S_IMODE(st.st_mode), None]
                if st.st_nlink > 1:
                    inodes.setdefault((st.st_dev, st.st_ino), []).append(rel)
            else:
                out[rel] = ["other", stat.S_IFMT(st.st_mode)]
    for group in inodes.values():
        if len(group) > 1:
            for rel in group:
                out[rel][4] = sorted(group)
    return out


def clone(src: str, dst: str) -> None:
    """dst := copy of src (modes, symlink targets re-rooted, hard-link groups) with plain os calls."""
    wipe(dst)
    os.makedirs(dst, exist_ok=True)
    seen: dict = {}
    dirmodes = []
    for dirpath, dirnames, filenames in os.walk(src, followlinks=False):
        for n in dirnames + filenames:
            p = os.path.join(dirpath, n)
            q = os.path.join(dst, os.path.relpath(p, src))
            st = os.lstat(p)
            if stat.S_ISLNK(st.st_mode):
                os.symlink(os.readlink(p).replace(src, dst), q)
            elif stat.S_ISDIR(st.st_mode):
                os.mkdir(q)
                dirmodes.append((q, stat.S_IMODE(st.st_mode)))
            elif stat.S_ISREG(st.st_mode):
                key = (st.st_dev, st.st_ino)
                if st.st_nlink > 1 and key in seen:
                    os.link(seen[key], q, follow_symlinks=False)
                else:
                    shutil.copyfile(p, q, follow_symlinks=False)
                    os.chmod(q, stat.S_IMODE(st.st_mode))
                    seen[key] = q
    for q, m in reversed(dirmodes):
        os.chmod(q, m)


def wipe(path: str) -> None:
    if os.path.islink(path) or os.path.isfile(path):
        os.unlink(path)
        return
    if not os.path.isdir(path):
        return
    for dirpath, dirnames, filenames in os.walk(path, followlinks=False):
        for d in dirnames:
            p = os.path.join(dirpath, d)
            if not os.path.islink(p):
                os.chmod(p, 0o700)
    shutil.rmtree(path, ignore_errors=True)


def canon_rel(rel: str, names: list[str]) -> str:
    """Replace components equal to a case name by its placeholder (longest names first)."""
    idx = {n: i for i, n in reversed(list(enumerate(names)))}
    return "/".join(f"<{idx[c]}>" if c in idx else c for c in rel.split("/"))


def canon_snapshot(snap: dict, names: list[str]) -> dict:
    out = {}
    for rel, e in snap.items():
        e = list(e)
        if e[0] == "link":
            e[1] = canon_rel(e[1], names)
        if e[0] == "file" and e[4]:
            e[4] = sorted(canon_rel(r, names) for r in e[4])
        out[canon_rel(rel, names)] = e
    return out


def diff_snapshots(a: dict, b: dict, limit: int = 12) -> list:
    out = []
    for k in sorted(set(a) | set(b)):
        if a.get(k) != b.get(k):
            out.append([k, a.get(k), b.get(k)])
            if len(out) >= limit:
                break
    return out


def listdir_safe(path: str) -> list[str]:
    try:
        return sorted(os.listdir(path))
    except OSError:
        return []
