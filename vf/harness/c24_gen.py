"""Case generator for C24: a small tree (plain os actions) + a sequence of path operations.

A case is JSON: {"names": [...], "classes": [...], "setup": [...], "ops": [...]}.  Path templates use
`<i>` for names[i]; every other component is a fixed benign literal.  An abstract model of the
tree (template -> kind) is kept only to make later operations meaningful; it never judges.
"""
from __future__ import annotations

from vf.harness import c24_names as N

OPS = ["exists", "is_file", "is_dir", "is_symlink", "mkdir", "write_text", "read_text", "size",
       "checksum", "glob", "walk", "resolve", "rmtree", "symlink_to", "hardlink_to", "chmod"]
MUTATING = {"mkdir", "write_text", "rmtree", "symlink_to", "hardlink_to", "chmod"}
LITERALS = ["d", "s", "f.txt", "g", "k1"]
MODES_DIR = [0o755, 0o700, 0o750, 0o777, 0o711]
MODES_FILE = [0o644, 0o600, 0o755, 0o444, 0o640, 0o700]


_CTX = {"buf": 0, "p": 0.0}  # set by gen_case: transferBufferSize of the case's connector, share of sized contents
BUFFERS = [65536, 4096, 512]


def _join(parent: str, comp: str) -> str:
    return f"{parent}/{comp}" if parent else comp


def _depth(tpl: str) -> int:
    return 0 if tpl == "" else tpl.count("/") + 1


def gen_names(rng, primary_cls: str, hostile_others: float = 0.3):
    classes = N.all_classes()
    names, cls = [], []
    hostile = list(N.HOSTILE_CLASSES)
    benign = list(N.BENIGN_CLASSES)
    for i in range(4):
        for _ in range(50):
            c = primary_cls if i == 0 else (rng.choice(hostile) if rng.random() < hostile_others else rng.choice(benign))
            n = N.assert_safe(rng.choice(classes[c]))
            if n not in names and n not in LITERALS and n not in ("nx", "new"):
                names.append(n)
                cls.append(c)
                break
        else:
            raise RuntimeError("cannot pick distinct names")
    return names, cls


def twin_names(names: list[str]) -> list[str]:
    taken = set(LITERALS) | {"nx", "new"}
    out = []
    for n in names:
        t = n if N.is_benign(n) and n not in taken else N.twin(n, taken)
        taken.add(t)
        out.append(t)
    return out


def gen_tree(rng, k0: str, big: int):
    """Returns (setup actions, model: tpl -> kind)."""
    model: dict[str, str] = {}
    setup = []
    comps = ["<0>", "<1>", "<2>", "<3>"] + LITERALS
    have_ld = False

    def dirs():
        return [""] + [t for t, k in model.items() if k == "dir"]

    def add(parent, comp, kind):
        nonlocal have_ld
        tpl = _join(parent, comp)
        if tpl in model or _depth(tpl) > 3:
            return False
        if kind in ("lf", "ld", "hard"):
            want = "dir" if kind == "ld" else "file"
            cands = [t for t, k in model.items() if k == want and not (tpl + "/").startswith(t + "/")]
            if not cands or (kind == "ld" and have_ld):
                kind = "file"
            else:
                tgt = rng.choice(cands)
                if kind == "hard":
                    setup.append(["hardlink", tpl, tgt])
                    model[tpl] = "file"
                else:
                    setup.append(["symlink", tpl, tgt, rng.random() < 0.6])
                    model[tpl] = kind
                    have_ld = have_ld or kind == "ld"
                return True
        if kind == "dangling":
            setup.append(["rawlink", tpl, rng.choice(["nope", "d/nope", "gone.txt"])])
            model[tpl] = "dangling"
        elif kind == "dir":
            setup.append(["dir", tpl, rng.choice(MODES_DIR)])
            model[tpl] = "dir"
        elif kind == "file":
            setup.append(["file", tpl, N.content(rng, big, _CTX["buf"], _CTX["p"]), rng.choice(MODES_FILE)])
            model[tpl] = "file"
        return True

    # some context first so that links have targets
    if rng.random() < 0.8:
        add("", "d", "dir")
        add("d", rng.choice(["<1>", "f.txt"]), "file")
        if rng.random() < 0.5:
            add("d", "s", "dir")
            add("d/s", rng.choice(["g", "<2>"]), "file")
    if rng.random() < 0.5:
        add("", rng.choice(["<2>", "k1"]), "file")
    if k0 != "missing":
        add("", "<0>", k0)
        if model.get("<0>") == "dir":
            for _ in range(rng.randint(0, 3)):
                add("<0>", rng.choice(comps[1:]), rng.choices(["file", "dir", "lf", "dangling", "hard"], [5, 2, 2, 1, 1])[0])
    for _ in range(rng.randint(0, 3)):
        add(rng.choice(dirs()), rng.choice(comps), rng.choices(["file", "dir", "lf", "ld", "dangling", "hard"], [4, 3, 2, 1, 1, 1])[0])
    return setup, model


def _pick_target(rng, model, kinds=None, focus=0.6):
    cands = [t for t, k in model.items() if kinds is None or k in kinds]
    foc = [t for t in cands if "<0>" in t.split("/")]
    if foc and rng.random() < focus:
        return rng.choice(foc)
    return rng.choice(cands) if cands else None


def _new_path(rng, model, focus=0.6):
    dirs = [""] + [t for t, k in model.items() if k == "dir"]
    for _ in range(20):
        parent = rng.choice(dirs)
        comp = "<0>" if rng.random() < focus else rng.choice(["<1>", "<2>", "<3>", "new"])
        tpl = _join(parent, comp)
        if tpl not in model and _depth(tpl) <= 4:
            return tpl
    return "new"


def gen_op(rng, model, op: str, big: int, force_focus: bool = False):
    focus = 1.0 if force_focus else 0.6
    anyp = lambda: (_pick_target(rng, model, None, focus) if rng.random() < 0.8 or not model else None) or _new_path(rng, model, focus)
    o = {"op": op}
    if op in ("exists", "is_file", "is_dir", "is_symlink", "resolve", "checksum", "rmtree"):
        o["path"] = anyp()
    elif op == "size":
        o["path"] = rng.choice([anyp(), _pick_target(rng, model, {"dir"}, focus) or "", ""])
    elif op == "read_text":
        o["path"] = _pick_target(rng, model, {"file", "lf"}, focus) if rng.random() < 0.85 else anyp()
        if o["path"] is None:
            o["path"] = anyp()
        o["n"] = None if rng.random() < 0.8 else rng.choice([0, 1, 3, 5, 100])
    elif op == "chmod":
        o["path"] = anyp()
        o["mode"] = rng.choice(MODES_FILE + [0o500, 0o775])
    elif op == "mkdir":
        r = rng.random()
        if r < 0.55:
            o["path"] = _new_path(rng, model, focus)
        elif r < 0.8:
            o["path"] = anyp()
        else:
            o["path"] = _join(_join(rng.choice([""] + [t for t, k in model.items() if k == "dir"]), "nx"),
                              "<0>" if rng.random() < focus else "new")
        o["mode"] = rng.choice(MODES_DIR)
        o["parents"], o["exist_ok"] = rng.choice([(False, False), (False, False), (True, False), (False, True), (True, True)])
    elif op == "write_text":
        r = rng.random()
        if r < 0.5:
            o["path"] = _new_path(rng, model, focus)
        elif r < 0.85:
            o["path"] = _pick_target(rng, model, {"file", "lf"}, focus) or _new_path(rng, model, focus)
        elif r < 0.93:
            o["path"] = _pick_target(rng, model, {"dir"}, focus) or _new_path(rng, model, focus)
        else:
            o["path"] = _join("nx", "<0>")
        o["data"] = N.content(rng, big, _CTX["buf"], _CTX["p"])
    elif op == "glob":
        o["path"] = rng.choice([_pick_target(rng, model, {"dir", "ld"}, focus) or "", ""])
        o["pattern"] = rng.choice(["*", "*", "*/*", "?*", "*.txt", "d/*", "*/s", "nomatch*", "__PFX__*"])
    elif op == "walk":
        o["path"] = rng.choice([_pick_target(rng, model, {"dir"}, focus) or "", ""])
        o["top_down"] = rng.random() < 0.7
        o["follow_symlinks"] = rng.random() < 0.3
    elif op in ("symlink_to", "hardlink_to"):
        o["path"] = _new_path(rng, model, focus) if rng.random() < 0.75 else anyp()
        r = rng.random()
        if op == "symlink_to" and r < 0.2:
            o["raw_target"] = rng.choice(["<0>", "<1>", "d", "nope", "-rf", "-n", "d/<1>"])
        else:
            kinds = {"file", "dir", "lf", "dangling", "ld"} if op == "symlink_to" else None
            if op == "hardlink_to" and rng.random() < 0.75:
                kinds = {"file"}
            o["target"] = (_pick_target(rng, model, kinds, 0.4) if rng.random() < 0.9 else None) or "nx/none"
    else:
        raise ValueError(op)
    return o


def update_model(model, o):
    """Intended effect only (keeps later operations meaningful; not an oracle)."""
    op, p = o["op"], o.get("path")
    parent = p.rsplit("/", 1)[0] if p and "/" in p else ""
    parent_ok = parent == "" or model.get(parent) in ("dir", "ld")
    if op == "mkdir" and p not in model and (parent_ok or o["parents"]):
        model[p] = "dir"
    elif op == "write_text" and parent_ok and model.get(p) in (None, "file"):
        model[p] = "file"
    elif op == "rmtree":
        for t in [t for t in model if t == p or t.startswith(p + "/")]:
            del model[t]
    elif op == "symlink_to" and p not in model and parent_ok:
        model[p] = {"file": "lf", "dir": "ld", "lf": "lf", "ld": "ld"}.get(model.get(o.get("target", "?")), "dangling")
    elif op == "hardlink_to" and p not in model and parent_ok and model.get(o["target"]) == "file":
        model[p] = "file"


def gen_case(rng, primary_cls: str, focus_op: str, nops: int, big: int = 0, buf: int | None = None) -> dict:
    if buf is None:
        buf = rng.choices(BUFFERS, [5, 3, 3])[0]
    # sized multi-byte contents are cheap with the small buffers, rarer with the default 64 KiB one
    _CTX.update(buf=buf, p=(0.35 if buf < 65536 else (0.04 if not big else 0.10)))
    if focus_op in ("write_text", "read_text", "size", "checksum") and buf < 65536:
        _CTX["p"] = 0.7
    names, cls = gen_names(rng, primary_cls)
    need = {"read_text": ["file", "lf"], "walk": ["dir"], "glob": ["dir"], "checksum": ["file", "lf", "dir"],
            "chmod": ["file", "dir", "lf"], "size": ["file", "dir", "lf"]}.get(focus_op)
    k0 = rng.choice(need) if need and rng.random() < 0.8 else rng.choices(
        ["file", "dir", "missing", "lf", "ld", "dangling"], [3, 3, 1.5, 1, 1, 1])[0]
    if focus_op in ("mkdir", "write_text", "symlink_to", "hardlink_to") and rng.random() < 0.5:
        k0 = "missing"
    setup, model = gen_tree(rng, k0, big)
    ops = []
    seq = [focus_op] + [rng.choice(OPS) for _ in range(nops - 1)]
    for i, op in enumerate(seq):
        o = gen_op(rng, model, op, big, force_focus=(i == 0))
        if o.get("pattern") == "__PFX__*":
            lead = ""
            for ch in names[0]:
                if ch.isascii() and ch.isalnum():
                    lead += ch
                else:
                    break
            o["pattern"] = (lead or "a") + "*"
        ops.append(o)
        update_model(model, o)
    _CTX.update(buf=0, p=0.0)
    return {"names": names, "classes": cls, "setup": setup, "ops": ops, "k0": k0, "buf": buf}


# ------------------------------------------------------------------------------- stateful sequences
QUERY_OPS = ["resolve", "exists", "is_file", "is_dir", "is_symlink", "size", "checksum", "glob", "walk", "read_text"]


def gen_stateful(rng, buf: int | None = None) -> dict:
    """Plain names, ONE pair of trees, 6..15 operations: the same read-type queries on the same *watched* paths are
    repeated before and after every mutation, and every mutation goes through a path other than the watched ones
    (an ancestor is removed, a symlink's target is removed / rewritten / chmod-ed, a directory symlink the watched
    path goes through is re-targeted, a removed directory is re-created)."""
    if buf is None:
        buf = rng.choices(BUFFERS, [5, 3, 3])[0]
    benign = [n for c in ("plain", "dotdash", "uni") for n in N.BENIGN_CLASSES[c]]
    names = rng.sample([n for n in benign if n not in LITERALS], 4)   # A, B, f1, C
    A, B, F, C = "<0>", "<1>", "<2>", "<3>"
    c1, c2, c3 = (rng.choice(["one", "hello\nworld", "abc", "x"]), rng.choice(["second content", "zz"]), rng.choice(["third", "q"]))
    absolute = rng.random() < 0.5
    setup = [["dir", A, 0o755], ["dir", f"{A}/{B}", 0o755], ["file", f"{A}/{B}/{F}", c1, 0o644], ["file", f"{A}/{B}/f2", "f2", 0o644],
             ["dir", C, 0o755], ["dir", f"{C}/{B}", 0o755], ["file", f"{C}/{B}/{F}", c2, 0o600], ["file", f"{C}/g", "g", 0o644],
             ["symlink", "lnkdir", A, absolute], ["symlink", "lnkfile", f"{A}/{B}/{F}", rng.random() < 0.5],
             ["symlink", "lnk2", "lnkdir", False], ["file", "top", "top", 0o644]]
    watched = [f"lnkdir/{B}/{F}", "lnkfile", f"{A}/{B}/{F}", f"{A}/{B}", f"lnk2/{B}", "lnkdir", f"lnk2/{B}/{F}", f"{C}/g", ""]
    dirs_w = {f"{A}/{B}", f"lnk2/{B}", "lnkdir", ""}

    def query(path):
        ops = ["resolve", "resolve", "exists", "is_file", "is_dir", "is_symlink", "size", "checksum"]
        ops += ["glob", "walk"] if path in dirs_w else ["read_text", "read_text"]
        op = rng.choice(ops)
        o = {"op": op, "path": path}
        if op == "glob":
            o["pattern"] = rng.choice(["*", "*/*"])
        elif op == "walk":
            o["top_down"], o["follow_symlinks"] = True, rng.random() < 0.5
        elif op == "read_text":
            o["n"] = None
        return o

    through_links = [f"lnkdir/{B}/{F}", "lnkfile", f"lnk2/{B}", f"lnk2/{B}/{F}", "lnkdir", f"{A}/{B}/{F}"]
    probes = [{"op": "resolve", "path": rng.choice(through_links)}, query(rng.choice(through_links))]
    probes += [query(p) for p in rng.sample(watched, rng.randint(0, 2))]
    mutations = {
        "rm-target-of-filelink": [{"op": "rmtree", "path": f"{A}/{B}/{F}"}],
        "rewrite-target": [{"op": "write_text", "path": f"{A}/{B}/{F}", "data": N.content(rng, 0, buf, 0.5) if rng.random() < 0.5 else c3}],
        "chmod-target": [{"op": "chmod", "path": f"{A}/{B}/{F}", "mode": rng.choice([0o600, 0o640, 0o755])}],
        "retarget-dirlink": [{"op": "rmtree", "path": "lnkdir"}, {"op": "symlink_to", "path": "lnkdir", "target": C}],
        "rm-ancestor": [{"op": "rmtree", "path": f"{A}/{B}"}],
        "recreate": [{"op": "mkdir", "path": f"{A}/{B}", "mode": 0o755, "parents": False, "exist_ok": False},
                     {"op": "write_text", "path": f"{A}/{B}/{F}", "data": c3}],
        "rm-top-ancestor": [{"op": "rmtree", "path": A}],
    }
    plans = [["rewrite-target", "rm-target-of-filelink"], ["retarget-dirlink"], ["rm-ancestor", "recreate"], ["chmod-target", "rm-ancestor"],
             ["retarget-dirlink", "rm-top-ancestor"], ["rm-target-of-filelink", "retarget-dirlink"], ["rm-ancestor", "recreate", "retarget-dirlink"],
             ["rewrite-target", "retarget-dirlink"], ["rm-top-ancestor"]]
    plan = rng.choice(plans)
    ops = list(probes)
    for m in plan:
        if len(ops) + len(mutations[m]) + len(probes) > 15:
            break
        ops += [dict(o) for o in mutations[m]] + [dict(q) for q in probes]
    return {"names": names, "classes": ["stateful"] * 4, "setup": setup, "ops": ops, "k0": "stateful", "buf": buf,
            "stateful": True, "plan": plan}
