"""Shrinking of a diverging CWL case: propose smaller / simpler variants one at a time; the
caller keeps a variant iff the reference still accepts it and the divergence (same kind) persists.

Only the top-level workflow is edited (nested workflows are kept or dropped as a whole)."""
from __future__ import annotations

import copy

from vf.harness.c29_cwlgen import dangling_steps, sources_of, unconnected, walk_workflows


def _refs(wf):
    """every source id referenced by step inputs, loop sources (own outputs) and workflow outputs"""
    out = []
    for st in wf["steps"].values():
        for v in st["in"].values():
            out.extend(sources_of(v))
    for d in wf["outputs"].values():
        out.extend(sources_of(d))
    return out


def _drop_unused_inputs(case):
    wf = case["wf"]
    used = {s for s in _refs(wf) if "/" not in s}
    for k in list(wf["inputs"]):
        if k not in used:
            del wf["inputs"][k]
            case["job"].pop(k, None)
    used_files = set()

    def walk(o):
        if isinstance(o, dict):
            if o.get("class") == "File" and "path" in o:
                used_files.add(o["path"])
            for v in o.values():
                walk(v)
        elif isinstance(o, list):
            for v in o:
                walk(v)

    walk(case["job"])
    for st in wf["steps"].values():
        if isinstance(st["run"], str):
            used_files.add(st["run"])
    # external tools referenced from nested workflows
    def walk_run(w):
        for st in w.get("steps", {}).values():
            if isinstance(st["run"], str):
                used_files.add(st["run"])
            elif isinstance(st["run"], dict):
                walk_run(st["run"])
    walk_run(wf)
    for f in list(case["files"]):
        if f not in used_files:
            del case["files"][f]
    return case


def without_steps(case, names):
    c = copy.deepcopy(case)
    for n in names:
        c["wf"]["steps"].pop(n, None)
    return _drop_unused_inputs(c)


def candidates(case, diverging_outputs=()):
    """yield (description, candidate case), most reducing first."""
    wf = case["wf"]

    # 1. expose every top-level step output that no workflow output names yet (typed Any): localises a
    #    value difference without creating a step output shared by two workflow outputs
    named = set()
    for d in wf["outputs"].values():
        named.update(sources_of(d))
    hidden = [(n, o) for n, st in wf["steps"].items() for o in st["out"] if f"{n}/{o}" not in named]
    if hidden and not case["meta"].get("exposed"):
        c = copy.deepcopy(case)
        for n, o in hidden:
            c["wf"]["outputs"][f"x_{n}_{o}"] = {"type": ["null", "Any"], "outputSource": f"{n}/{o}"}
        c["meta"]["exposed"] = True
        yield "expose", c

    # 2. keep a single output: diverging ones first, earliest step first
    keys = list(wf["outputs"])
    if len(keys) > 1:
        order = {n: i for i, n in enumerate(wf["steps"])}

        def rank(k):
            srcs = sources_of(wf["outputs"][k])
            return (0 if k in diverging_outputs else 1, len(srcs), max([order.get(s.split("/")[0], -1) for s in srcs] or [-1]))

        for k in sorted(keys, key=rank)[:6]:
            c = copy.deepcopy(case)
            c["wf"]["outputs"] = {k: c["wf"]["outputs"][k]}
            yield f"only-output {k}", c

    # 3. drop every step that no remaining output needs (all at once, then one by one)
    dang = dangling_steps(wf)
    if dang:
        yield "drop-dangling-all", without_steps(case, dang)
    refs = set(_refs(wf))
    for n in reversed(list(wf["steps"])):
        if not any(r.startswith(n + "/") for r in refs):
            yield f"drop-step {n}", without_steps(case, [n])

    # 4. drop outputs one at a time
    if len(keys) > 1:
        for k in keys:
            c = copy.deepcopy(case)
            del c["wf"]["outputs"][k]
            yield f"drop-output {k}", c

    # 5. simplify steps
    for n, st in wf["steps"].items():
        if "when" in st:
            c = copy.deepcopy(case)
            del c["wf"]["steps"][n]["when"]
            c["wf"]["steps"][n]["in"].pop("cnd", None)
            yield f"drop-when {n}", c
        for k, v in st["in"].items():
            if not isinstance(v, dict):
                continue
            src = v.get("source")
            if isinstance(src, list) and len(src) > 1:
                for i in range(len(src)):
                    c = copy.deepcopy(case)
                    c["wf"]["steps"][n]["in"][k]["source"] = src[:i] + src[i + 1:]
                    yield f"drop-source {n}.{k}[{i}]", c
            for f in ("valueFrom", "default", "pickValue", "linkMerge"):
                if f in v:
                    c = copy.deepcopy(case)
                    del c["wf"]["steps"][n]["in"][k][f]
                    yield f"drop-{f} {n}.{k}", c
            if isinstance(src, list) and len(src) == 1 and set(v) == {"source"}:
                c = copy.deepcopy(case)
                c["wf"]["steps"][n]["in"][k] = src[0]
                yield f"unlist-source {n}.{k}", c
        if isinstance(st.get("scatter"), list) and len(st["scatter"]) > 2:
            pass  # changing the scatter arity changes the output type: not attempted
    for k, d in wf["outputs"].items():
        src = d.get("outputSource")
        if isinstance(src, list) and len(src) > 2:
            for i in range(len(src)):
                c = copy.deepcopy(case)
                c["wf"]["outputs"][k]["outputSource"] = src[:i] + src[i + 1:]
                yield f"drop-outsource {k}[{i}]", c
        if "linkMerge" in d and "pickValue" in d:
            c = copy.deepcopy(case)
            del c["wf"]["outputs"][k]["linkMerge"]
            yield f"drop-out-linkMerge {k}", c

    # 6. simplify the job: shorter arrays (emptiness kept)
    for k, v in case["job"].items():
        if isinstance(v, list) and len(v) > 2:
            c = copy.deepcopy(case)
            c["job"][k] = v[:2]
            yield f"shorten {k}", _drop_unused_inputs(c)
        elif isinstance(v, list) and len(v) == 2:
            c = copy.deepcopy(case)
            c["job"][k] = v[:1]
            yield f"shorten {k}", _drop_unused_inputs(c)

    # 7. unused inputs
    c = _drop_unused_inputs(copy.deepcopy(case))
    if len(c["wf"]["inputs"]) < len(wf["inputs"]) or len(c["files"]) < len(case["files"]):
        yield "drop-unused-inputs", c


def _n_dangling(wf):
    return len(unconnected(wf))


def _single_link_nested(wf):
    n = 0
    for _, w in walk_workflows(wf):
        for st in w["steps"].values():
            for v in st["in"].values():
                if isinstance(v, dict) and isinstance(v.get("source"), list) and len(v["source"]) == 1 and v.get("linkMerge") == "merge_nested":
                    n += 1
        for d in w["outputs"].values():
            if isinstance(d.get("outputSource"), list) and len(d["outputSource"]) == 1 and d.get("linkMerge") == "merge_nested":
                n += 1
    return n


def guarded_with(case, diverging_outputs=()):
    """candidates that do not introduce a construct tied to a known mechanism: a reduction that leaves a step
    without a path to an output removes that step too; one that would create a single-link merge_nested is skipped."""
    base_d, base_s = _n_dangling(case["wf"]), _single_link_nested(case["wf"])
    for what, cand in candidates(case, diverging_outputs):
        if _single_link_nested(cand["wf"]) > base_s:
            continue
        if _n_dangling(cand["wf"]) > base_d:
            from vf.harness.c29_neutral import prune_unconnected
            for _ in range(4):
                if not prune_unconnected(cand):
                    break
            cand = _drop_unused_inputs(cand)
        yield what, cand


def shrink(case, still_diverges, spend, diverging_outputs=()):
    """greedy: restart the candidate list after every accepted reduction.
    still_diverges(candidate) -> None | list of diverging output keys; spend() -> False when the budget is gone."""
    steps = []
    tried = set()
    progress = True
    while progress:
        progress = False
        for what, cand in guarded_with(case, diverging_outputs):
            key = (what, len(cand["wf"]["steps"]), len(cand["wf"]["outputs"]))
            if key in tried:
                continue
            tried.add(key)
            if not spend():
                return case, steps
            got = still_diverges(cand)
            if got is not None:
                case, diverging_outputs = cand, got
                steps.append(what)
                progress = True
                break
    return case, steps
