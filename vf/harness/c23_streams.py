"""C23 harness: chunked / truncated / corrupted byte streams for the async tar reader, archive
builders (tarfile, GNU tar, AioTarStream) and the member map used to pick cut points.

`ChunkStream` is a legal `StreamWrapper`: like `asyncio.StreamReader.read(n)` it returns between 1
and n bytes while data is left and b"" at EOF.  The chunking policy decides how many.
"""
from __future__ import annotations

import io
import os
import random
import subprocess
import tarfile

from streamflow.core.data import StreamWrapper

BLOCK = 512


class ChunkStream(StreamWrapper):
    """policy: ["whole"] | ["fixed", n] | ["random", seed, max] | ["short", seed]
    ("short": returns strictly fewer bytes than requested whenever more than one byte was asked)."""

    def __init__(self, data: bytes, policy):
        super().__init__(io.BytesIO(data))
        self.data_len = len(data)
        self.policy = list(policy)
        self.rng = random.Random(policy[1]) if policy[0] in ("random", "short") else None
        self.pos = 0
        self.reads = 0
        self.short_reads = 0  # reads that returned fewer bytes than requested although data was left
        self.eof_reads = 0
        self.closed = False

    async def close(self):
        self.closed = True

    async def read(self, size=None):
        left = self.data_len - self.pos
        want = left if size is None or size < 0 else min(size, left)
        kind = self.policy[0]
        if kind == "whole":
            n = want
        elif kind == "fixed":
            n = min(want, self.policy[1])
        elif kind == "random":
            n = min(want, self.rng.randint(1, self.policy[2]))
        elif kind == "short":
            n = want if want <= 1 else self.rng.randint(1, want - 1)
        else:
            raise ValueError(kind)
        buf = self.stream.read(n)
        self.pos += len(buf)
        self.reads += 1
        if size is not None and size >= 0 and len(buf) < min(size, left):
            self.short_reads += 1
        if not buf:
            self.eof_reads += 1
        return buf

    async def write(self, data):
        raise NotImplementedError


class SinkStream(StreamWrapper):
    """In-memory writer side (what a subprocess' stdin would receive)."""

    def __init__(self):
        super().__init__(io.BytesIO())
        self.closed = False
        self.writes = 0

    async def close(self):
        self.closed = True

    async def read(self, size=None):
        raise NotImplementedError

    async def write(self, data):
        self.writes += 1
        self.stream.write(data)

    def value(self) -> bytes:
        return self.stream.getvalue()


FORMATS = ["gnu-tarfile", "pax-tarfile", "ustar-tarfile", "gnutar-gnu", "gnutar-posix", "gnutar-ustar", "gnutar-oldgnu"]


def build_archive(fmt: str, parent: str, top: str, dereference: bool = True) -> bytes | None:
    """Archive of `parent/top` with member names starting at `top` (what `tar chf - -C parent top`
    sends).  None when the format cannot represent the tree (e.g. a USTAR name limit)."""
    if fmt.startswith("gnutar-"):
        cmd = ["tar", "chf" if dereference else "cf", "-", "--format=" + fmt.split("-", 1)[1], "-C", parent, "--", top]
        r = subprocess.run(cmd, capture_output=True)
        if r.returncode != 0:
            return None
        return r.stdout
    f = {"gnu-tarfile": tarfile.GNU_FORMAT, "pax-tarfile": tarfile.PAX_FORMAT, "ustar-tarfile": tarfile.USTAR_FORMAT}[fmt]
    buf = io.BytesIO()
    try:
        with tarfile.open(fileobj=buf, mode="w", format=f, dereference=dereference) as tf:
            tf.add(os.path.join(parent, top), arcname=top)
    except ValueError:
        return None
    return buf.getvalue()


def member_map(data: bytes) -> list[dict]:
    """Logical members with their byte ranges, from the stdlib reader (trusted reference):
    offset (first header block incl. extended headers), offset_data, size, padded end."""
    out = []
    with tarfile.open(fileobj=io.BytesIO(data), mode="r:") as tf:
        for m in tf.getmembers():
            has_data = m.isreg() or m.type not in tarfile.SUPPORTED_TYPES
            size = m.size if has_data else 0
            out.append({"name": m.name, "type": m.type.decode("latin1"), "offset": m.offset, "offset_data": m.offset_data,
                        "size": size, "end": m.offset_data + ((size + BLOCK - 1) // BLOCK) * BLOCK,
                        "isreg": m.isreg(), "isdir": m.isdir(), "linkname": m.linkname})
    return out


def cut_points(mm: list[dict], total: int, rng: random.Random) -> list[tuple[str, int, int]]:
    """(class, member index, byte position) — one per boundary class per member."""
    cuts = []
    for i, m in enumerate(mm):
        cuts.append(("hdr-start", i, m["offset"]))
        cuts.append(("hdr-mid", i, m["offset"] + rng.randint(1, BLOCK - 1)))
        if m["offset_data"] - m["offset"] > BLOCK:  # extended (GNU long name / PAX) header blocks
            cuts.append(("exthdr-mid", i, rng.randint(m["offset"] + BLOCK, m["offset_data"] - 1)))
            cuts.append(("hdr-last-mid", i, m["offset_data"] - rng.randint(1, BLOCK - 1)))
        if m["size"] > 0:
            cuts.append(("data-start", i, m["offset_data"]))
            if m["size"] > 1:
                cuts.append(("data-mid", i, m["offset_data"] + rng.randint(1, m["size"] - 1)))
            if m["size"] % BLOCK:
                cuts.append(("data-end", i, m["offset_data"] + m["size"]))
                if BLOCK - m["size"] % BLOCK > 1:
                    cuts.append(("pad-mid", i, m["offset_data"] + m["size"] + rng.randint(1, BLOCK - m["size"] % BLOCK - 1)))
    end = mm[-1]["end"] if mm else 0
    cuts.append(("eoa-start", len(mm), end))
    if total >= end + 2 * BLOCK:
        cuts.append(("eoa-mid-1", len(mm), end + rng.randint(1, BLOCK - 1)))
        cuts.append(("eoa-between", len(mm), end + BLOCK))
        cuts.append(("eoa-mid-2", len(mm), end + BLOCK + rng.randint(1, BLOCK - 1)))
        if total > end + 2 * BLOCK + 1:
            cuts.append(("record-pad", len(mm), rng.randint(end + 2 * BLOCK, total - 1)))
    return [(c, i, p) for (c, i, p) in cuts if 0 <= p < total]


def first_header_block(m: dict) -> int:
    """Offset of the 512-byte block that carries the checksum/size of the member's *own* header
    (the last header block before the data)."""
    return m["offset_data"] - BLOCK
