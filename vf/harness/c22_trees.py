"""Random file trees as JSON specs (C22, C23): generation, materialisation, digest.

A tree spec is a list of entries, in creation order:
    {"p": "rel/path", "k": "d"}                               directory (possibly empty)
    {"p": "rel/path", "k": "f", "n": size, "s": seed, "x": mode}   regular file (content = Random(s).randbytes(n))
    {"p": "rel/path", "k": "l", "t": "rel/target"}            symbolic link to another entry *inside* the tree
    {"p": "rel/path", "k": "h", "t": "rel/target"}            hard link to a regular file inside the tree
The spec is JSON so that a witness replays the identical tree.

The digest is the oracle's view of a tree, taken directly on disk with `os` calls only:
relative name -> ("d",) | ("f", sha256, mode & 0o111); symbolic links are followed (compared by
resolved content, as the property says), so a link to a directory shows up as that directory's
subtree under the link's name.
"""
from __future__ import annotations

import hashlib
import os
import random
import stat

PLAIN = ["a.bin", "data.txt", "sub", "deep", "Z9", "x_y-z.dat", "UPPER.TXT", "f.tar.gz", "run.sh", "lib", "k"]
UNICODE = ["üñí✓", "étude", "日本", "ΑΒΓ.δ"]
LONG = ["L" * 101, "n" * 150 + ".dat", "w" * 255]

# Hostile names (shell metacharacters).  Fixed list, obeying DESIGN.md §2.5: injected command
# words are `id` / `vfnoop_<n>` only; no word starts with '/', '~' or '.'; no '..'; no redirections.
HOSTILE = {
    # single spaces only: the harness connector (like ContainerConnector.get_stream_writer) passes stream
    # commands through `eval $(echo <b64> | base64 -d)`, which collapses runs of blanks whatever the quoting
    "space": ["sp ace", "a b c"],
    "squote": ["q'q'q", "it's"],          # balanced first; the unbalanced one can stall a persistent shell
    "dquote": ['d"q"d', 'q"q'],
    "dollar": ["do$llar", "a$HOME", "${vfundef}x"],
    "btick": ["a`id`b", "`vfnoop_1`"],
    "glob": ["st*r", "q?m", "b[ab]c"],
    "dash": ["-dash", "-x"],
}
UNBALANCED = {"it's", 'q"q'}

SIZES_SMALL = [0, 0, 1, 2, 100, 511, 512, 513, 1000, 3000]
SIZES_MEDIUM = [4096, 10240, 20000, 65536, 70000]
SIZES_LARGE = [200_000, 1 << 20]


def char_classes(s: str) -> list[str]:
    """Metacharacter classes present in a path string (used by the C22 mechanism predicates)."""
    out = []
    if " " in s:
        out.append("space")
    if "'" in s:
        out.append("squote")
    if '"' in s:
        out.append("dquote")
    if "$" in s:
        out.append("dollar")
    if "`" in s:
        out.append("btick")
    if any(c in s for c in "*?["):
        out.append("glob")
    if any(part.startswith("-") for part in s.split("/")):
        out.append("dash")
    return out


def gen_tree(rng: random.Random, *, max_entries=12, names=None, sizes=None, symlinks=True, hardlinks=False,
             max_total=None) -> list[dict]:
    names = list(names or (PLAIN + UNICODE))
    sizes = list(sizes or SIZES_SMALL)
    n = rng.randint(0, max_entries)
    dirs = [""]
    files: list[str] = []
    used = set()
    has_dirlink = set()  # directories with a link-to-directory somewhere below them
    frozen = set()  # directories that are the target of a link: nothing below them may link to a directory
    spec: list[dict] = []
    total = 0
    for i in range(n):
        parent = rng.choice(dirs)
        if parent.count("/") >= 3:
            parent = ""
        nm = rng.choice(names)
        if rng.random() < 0.5:
            nm = f"{nm}{i}" if not nm.startswith("-") else f"{nm}{i}"
        p = f"{parent}/{nm}" if parent else nm
        if p in used or len(os.fsencode(nm)) > 255:
            continue
        r = rng.random()
        if r < 0.22:
            spec.append({"p": p, "k": "d"})
            dirs.append(p)
        elif r < 0.30 and symlinks and (files or len(dirs) > 1):
            # link target: any file, or a directory such that following links can never come back: the
            # target has no directory link below it (and never gets one: frozen) and the link itself does
            # not sit below a frozen directory, nor below its own target
            ancestors = {"/".join(p.split("/")[:k]) for k in range(0, p.count("/") + 1)}
            dcands = [d for d in dirs[1:] if d not in has_dirlink and d not in ancestors and not (ancestors & frozen)]
            cands = files + dcands
            if not cands:
                continue
            tgt = rng.choice(cands)
            spec.append({"p": p, "k": "l", "t": tgt})
            if tgt in dcands:
                has_dirlink |= ancestors
                frozen.add(tgt)
        elif r < 0.36 and hardlinks and files:
            spec.append({"p": p, "k": "h", "t": rng.choice(files)})
        else:
            size = rng.choice(sizes)
            if max_total is not None and total + size > max_total:
                size = rng.choice([0, 1, 100])
            total += size
            spec.append({"p": p, "k": "f", "n": size, "s": rng.randrange(1 << 30),
                         "x": rng.choice([0o644, 0o644, 0o600, 0o755, 0o744, 0o711, 0o750])})
            files.append(p)
        used.add(p)
    return spec


def file_bytes(e: dict) -> bytes:
    return random.Random(e["s"]).randbytes(e["n"])


def materialise(root: str, spec: list[dict]) -> None:
    """Create directory `root` holding the tree (plain os calls)."""
    os.makedirs(root)
    for e in spec:
        p = os.path.join(root, e["p"])
        os.makedirs(os.path.dirname(p), exist_ok=True)
        if e["k"] == "d":
            os.makedirs(p, exist_ok=True)
        elif e["k"] == "f":
            with open(p, "wb") as f:
                f.write(file_bytes(e))
            os.chmod(p, e["x"])
        elif e["k"] == "l":
            os.symlink(os.path.relpath(os.path.join(root, e["t"]), os.path.dirname(p)), p)
        elif e["k"] == "h":
            os.link(os.path.join(root, e["t"]), p)


def materialise_file(path: str, e: dict) -> None:
    os.makedirs(os.path.dirname(path), exist_ok=True)
    with open(path, "wb") as f:
        f.write(file_bytes(e))
    os.chmod(path, e["x"])


def _fdigest(p: str):
    h = hashlib.sha256()
    with open(p, "rb") as f:
        while b := f.read(1 << 20):
            h.update(b)
    return ("f", h.hexdigest()[:24], os.stat(p).st_mode & 0o111)


def digest(root: str) -> dict | None:
    """None if `root` does not exist (or is a dangling link)."""
    if not os.path.exists(root):
        return None
    if os.path.isfile(root):
        return {".": _fdigest(root)}
    out = {".": ("d",)}
    for r, ds, fs in os.walk(root, followlinks=True):
        rel = os.path.relpath(r, root)
        for d in ds:
            out[os.path.normpath(os.path.join(rel, d))] = ("d",)
        for f in fs:
            p = os.path.join(r, f)
            k = os.path.normpath(os.path.join(rel, f))
            try:
                st = os.stat(p)
            except OSError:
                out[k] = ("dangling",)
                continue
            out[k] = _fdigest(p) if stat.S_ISREG(st.st_mode) else ("special", stat.S_IFMT(st.st_mode))
    return out


def expected_digest(spec: list[dict]) -> dict:
    """The digest a faithful copy of the tree must have, computed from the spec alone (independent of
    the on-disk source: used to cross-check materialise() and as the C23 oracle's reference)."""
    ents = {e["p"]: e for e in spec}

    def resolve(p, depth=0):
        # resolve a path whose components may cross symlinks, to ('d'|'f', canonical path)
        parts = p.split("/")
        cur = ""
        for i, part in enumerate(parts):
            cur = f"{cur}/{part}" if cur else part
            e = ents.get(cur)
            k = e["k"] if e else "d"  # implicit parent directories
            if k == "l" or k == "h":
                tgt = e["t"]
                rest = "/".join(parts[i + 1:])
                return resolve(f"{tgt}/{rest}" if rest else tgt, depth + 1)
        e = ents.get(cur)
        return ("d" if (e is None or e["k"] == "d") else "f", cur)

    out = {".": ("d",)}

    def children(dirpath):
        pre = dirpath + "/" if dirpath else ""
        seen = set()
        for p in ents:
            if p.startswith(pre) and p != dirpath:
                seen.add(p[len(pre):].split("/")[0])
        return sorted(seen)

    def walk(real_dir, shown_dir):
        for c in children(real_dir):
            real = f"{real_dir}/{c}" if real_dir else c
            shown = f"{shown_dir}/{c}" if shown_dir else c
            kind, canon = resolve(real)
            if kind == "d":
                out[shown] = ("d",)
                walk(canon, shown)
            else:
                e = ents[canon]
                out[shown] = ("f", hashlib.sha256(file_bytes(e)).hexdigest()[:24], e["x"] & 0o111)

    walk("", "")
    return out


def diff_digests(want: dict | None, got: dict | None, limit=4) -> dict:
    want = want or {}
    got = got or {}
    return {
        "missing": sorted(set(want) - set(got))[:limit],
        "extra": sorted(set(got) - set(want))[:limit],
        "changed": [(k, want[k], got[k]) for k in sorted(want) if k in got and tuple(want[k]) != tuple(got[k])][:limit],
        "n_missing": len(set(want) - set(got)),
        "n_extra": len(set(got) - set(want)),
        "n_changed": sum(1 for k in want if k in got and tuple(want[k]) != tuple(got[k])),
    }
