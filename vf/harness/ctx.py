"""Offline StreamFlow contexts built from the real classes (real scheduler, data manager,
deployment manager, failure manager, sqlite database) — nothing needs docker."""
from __future__ import annotations

import os


def make_context(workdir, db="vf-jitter", connection=":memory:", failure_manager=None,
                 deployments=None, scheduler_config=None, extra=None):
    """failure_manager: None (engine default = dummy) or a dict such as
    {"type": "default", "config": {"max_retries": 3, "retry_delay": 0}}."""
    from vf import perturb

    perturb.install()
    import vf.harness.connectors  # noqa: F401  (registers vf-shell / vf-hw / vf-wrap)
    from streamflow.main import build_context

    cfg = {
        "database": {"type": db, "config": {"connection": connection}},
        "path": workdir,
        "deployments": deployments or {},
    }
    if failure_manager is not None:
        cfg["failureManager"] = dict(failure_manager, enabled=True)
    if scheduler_config is not None:
        cfg["scheduling"] = {"scheduler": {"type": "default", "config": scheduler_config}}
    if extra:
        cfg.update(extra)
    os.makedirs(workdir, exist_ok=True)
    return build_context(cfg)


async def close_context(ctx):
    try:
        await ctx.deployment_manager.undeploy_all()
    finally:
        await ctx.close()
