"""Run one generated CWL case with the reference runner (cwltool) and with StreamFlow, both
in-process, and compare the normalised output objects.  Used by C29 and C34."""
from __future__ import annotations

import contextlib
import gc
import hashlib
import io
import json
import logging
import os
import shutil
import signal
import tempfile
import traceback
import urllib.parse

from vf.common import CaseTimeout

_counter = [0]


@contextlib.contextmanager
def deadline(seconds):
    """Wall-clock guard for one in-process run.  Unlike Shard.alarm the timer keeps firing (every 3 s after
    the first expiry): StreamFlow's own `except BaseException` clean-up may block again after the first
    CaseTimeout.  A timeout only ever discards the case."""

    def handler(signum, frame):
        raise CaseTimeout("".join(traceback.format_stack(frame, limit=10)))

    old = signal.signal(signal.SIGALRM, handler)
    signal.setitimer(signal.ITIMER_REAL, seconds, 3.0)
    try:
        yield
    finally:
        signal.setitimer(signal.ITIMER_REAL, 0)
        signal.signal(signal.SIGALRM, old)


def fresh_dir(root, tag="c"):
    """a directory name never used before in this process (document loaders cache by URI)."""
    _counter[0] += 1
    d = os.path.join(root, f"{tag}{os.getpid()}_{_counter[0]}")
    os.makedirs(d)
    return d


def materialize(case, d):
    with open(os.path.join(d, "w.cwl"), "w") as f:
        json.dump(case["wf"], f, indent=1)
    with open(os.path.join(d, "j.json"), "w") as f:
        json.dump(case["job"], f, indent=1)
    for name, text in case["files"].items():
        assert "/" not in name and not name.startswith(".")
        with open(os.path.join(d, name), "w") as f:
            f.write(text)
    os.makedirs(os.path.join(d, "tmp"), exist_ok=True)


@contextlib.contextmanager
def case_tmp(d):
    """everything the runners leave in the temporary directory goes away with the case."""
    old_env, old_td = os.environ.get("TMPDIR"), tempfile.tempdir
    os.environ["TMPDIR"] = tempfile.tempdir = os.path.join(d, "tmp")
    try:
        yield
    finally:
        tempfile.tempdir = old_td
        if old_env is None:
            os.environ.pop("TMPDIR", None)
        else:
            os.environ["TMPDIR"] = old_env


@contextlib.contextmanager
def no_gc():
    """The cyclic garbage collector is paused while StreamFlow code runs in-process and run between cases.
    Reason (observed, stacks in design_notes/C34.md): when a collection starts inside a call of a cachebox
    `@cached` wrapper (streamflow persistence / loading), the collector's traversal of the cache blocks on the
    cache's own native lock, which the interrupted call holds: the interpreter deadlocks in a futex where no
    Python-level guard (signal, alarm) can reach it."""
    was = gc.isenabled()
    gc.disable()
    try:
        yield
    finally:
        if was:
            gc.enable()
        gc.collect()


def reset_js():
    """cwl_utils keeps one persistent node process per thread with a request/response protocol on pipes; both
    runners use it.  A run that was interrupted (timeout) leaves a half-read answer behind, so every runner
    invocation starts with a fresh engine."""
    try:
        from cwl_utils.sandboxjs import NodeJSEngine

        procs = getattr(NodeJSEngine.localdata, "procs", None)
        if procs:
            for p in list(procs.values()):
                try:
                    p.kill()
                    p.wait(timeout=5)
                except Exception:
                    pass
            procs.clear()
    except Exception:
        pass


ENVIRONMENT_MARKS = ("Long-running script killed after",)  # JS evaluation hit its wall-clock limit (busy machine)


class _Capture(logging.Handler):
    def __init__(self):
        super().__init__(level=logging.DEBUG)
        self.lines = []

    def emit(self, record):
        try:
            msg = record.getMessage()
            if record.exc_info and record.exc_info[1] is not None:
                e = record.exc_info[1]
                msg += " :: " + type(e).__name__ + ": " + str(e)
                frames = traceback.extract_tb(e.__traceback__)[-4:]
                msg += " @ " + " < ".join(f"{os.path.basename(f.filename)}:{f.name}" for f in reversed(frames))
            self.lines.append(msg)
        except Exception:
            pass


REF_FAIL_KINDS = (
    ("pickValue", "All sources for '"),
    ("pickValue", "Expected only one source for '"),
    ("permanentFail", "completed permanentFail"),
)


def run_ref(d, alarm=None, timeout=120):
    """-> ("OK", output object, log) | ("FAIL", kind, log) | ("INVALID", None, log) |
    ("REFERR", None, log) | ("TIMEOUT", None, log)

    FAIL is returned only for the failures a conforming runner must also report (a tool exiting
    non-zero, a pickValue cardinality error); anything else the reference prints ("Unhandled
    error", Python exceptions wrapped as "Workflow error") is a reference problem (REFERR) and the
    document is discarded, never judged."""
    import cwltool.main

    def call(extra):
        out, cap = io.StringIO(), _Capture()
        args = ["--enable-ext", "--no-container", "--disable-color",
                "--tmpdir-prefix", os.path.join(d, "tmp", "rt"), "--tmp-outdir-prefix", os.path.join(d, "tmp", "ro"),
                "--outdir", os.path.join(d, "ref")] + extra + [os.path.join(d, "w.cwl")]
        if "--validate" not in extra:
            args.append(os.path.join(d, "j.json"))
        lg = logging.getLogger("cwltool")
        lg.handlers = []
        lg.setLevel(logging.INFO)
        try:
            rc = cwltool.main.main(argsl=args, stdout=out, stderr=io.StringIO(), logger_handler=cap)
        finally:
            lg.setLevel(logging.CRITICAL)
            for n in ("cwltool", "rdflib.term", "galaxy.tool_util.deps", "salad"):
                logging.getLogger(n).handlers = []
        return rc, out.getvalue(), "\n".join(cap.lines)

    reset_js()
    try:
        with case_tmp(d), (alarm(timeout) if alarm else contextlib.nullcontext()):
            rc, out, log = call([])
            if rc == 0:
                try:
                    return "OK", json.loads(out), log[-1500:]
                except Exception:
                    return "REFERR", None, "unparsable output: " + out[-300:]
            vrc, _, vlog = call(["--validate"])
            if vrc != 0:
                return "INVALID", None, vlog[-1500:]
            if "Unhandled error" not in log and "Traceback" not in log:
                for kind, needle in REF_FAIL_KINDS:
                    if needle in log:
                        return "FAIL", kind, log[-1500:]
            return "REFERR", None, log[-1500:]
    except CaseTimeout as e:
        return "TIMEOUT", None, str(e)[-800:]


def run_sf(d, alarm=None, timeout=120, streamflow_file=None, name=None, outdir="sf"):
    """-> ("OK", output object, log) | ("FAIL", None, log) | ("TIMEOUT", None, log)"""
    from streamflow.cwl.runner import main as sf_main
    from streamflow.log_handler import logger

    cap = _Capture()
    old_handlers, old_level = list(logger.handlers), logger.level
    logger.handlers = [cap]
    out = io.StringIO()
    args = ["--quiet", "--outdir", os.path.join(d, outdir)]
    if streamflow_file:
        args += ["--streamflow-file", streamflow_file]
    if name:
        args += ["--name", name]
    args += [os.path.join(d, "w.cwl"), os.path.join(d, "j.json")]
    cwd = os.getcwd()
    reset_js()
    try:
        os.chdir(d)
        with no_gc(), case_tmp(d), contextlib.redirect_stdout(out), (alarm(timeout) if alarm else contextlib.nullcontext()):
            rc = sf_main(args)
        log = "\n".join(cap.lines)
        if any(m in log for m in ENVIRONMENT_MARKS):
            return "TIMEOUT", None, log[:1500]
        if len(log) > 5000:
            log = log[:2500] + "\n...\n" + log[-2500:]
        if rc != 0:
            return "FAIL", None, log
        try:
            return "OK", json.loads(out.getvalue()), log
        except Exception:
            return "FAIL", None, "unparsable output: " + out.getvalue()[-300:] + "\n" + log
    except CaseTimeout as e:
        return "TIMEOUT", None, str(e)[-800:] + "\n".join(cap.lines)[-1500:]
    finally:
        os.chdir(cwd)
        logger.handlers = old_handlers
        logger.setLevel(old_level)


# ----------------------------------------------------------------------------- comparison
def _local_path(o):
    p = o.get("path")
    if p:
        return p
    loc = o.get("location")
    if loc and loc.startswith("file://"):
        return urllib.parse.unquote(loc[7:])
    return None


def _disk(o):
    p = _local_path(o)
    if p is None:
        return "no-location"
    if not os.path.isfile(p):
        return "missing"
    h = hashlib.sha1()
    with open(p, "rb") as f:
        h.update(f.read())
    return "sha1$" + h.hexdigest()


def normalise(o):
    """drop location/path/dirname/nameroot/nameext; keep basename, checksum, size, class,
    contents, secondaryFiles, listing; add the checksum of the bytes actually found on disk."""
    if isinstance(o, list):
        return [normalise(x) for x in o]
    if isinstance(o, dict):
        if o.get("class") == "File":
            n = {k: o[k] for k in ("class", "basename", "checksum", "size", "contents", "format") if k in o}
            n["disk"] = _disk(o)
            if o.get("secondaryFiles"):
                n["secondaryFiles"] = normalise(o["secondaryFiles"])
            return n
        if o.get("class") == "Directory":
            n = {k: o[k] for k in ("class", "basename") if k in o}
            if "listing" in o:
                n["listing"] = sorted(normalise(o["listing"]), key=lambda x: json.dumps(x, sort_keys=True))
            return n
        return {k: normalise(v) for k, v in o.items()}
    return o


def diff(a, b, path=""):
    """list of (path, reference value, streamflow value); bool/int/null are distinct types."""
    if isinstance(a, dict) and isinstance(b, dict):
        out = []
        for k in sorted(set(a) | set(b)):
            if k not in a or k not in b:
                out.append((f"{path}/{k}", a.get(k, "<absent>"), b.get(k, "<absent>")))
            else:
                out.extend(diff(a[k], b[k], f"{path}/{k}"))
        return out
    if isinstance(a, list) and isinstance(b, list):
        if len(a) != len(b):
            return [(path, a, b)]
        out = []
        for i, (x, y) in enumerate(zip(a, b)):
            out.extend(diff(x, y, f"{path}/{i}"))
        return out
    if isinstance(a, bool) != isinstance(b, bool):
        return [(path, a, b)]
    if isinstance(a, (int, float)) and isinstance(b, (int, float)) and not isinstance(a, bool):
        return [] if a == b else [(path, a, b)]
    if type(a) is not type(b) or a != b:
        return [(path, a, b)]
    return []


def cleanup(d):
    shutil.rmtree(d, ignore_errors=True)
