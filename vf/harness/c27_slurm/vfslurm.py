# Fake Slurm command set for C27 (sbatch / squeue / scontrol / scancel, chosen by argv[0]).
#
# One script, copied four times into the shard scratch `bin/` (with a `#!<python> -SE` line put in
# front) and put first on PATH of the LocalConnector location that the REAL SlurmConnector wraps.
# State lives in $VF_SLURM_STATE/db.json, every invocation runs under an exclusive flock, and every
# state change is appended to db["log"] with a logical clock:
#
#   [clock, "submit", jid, job_index, pend_ticks, run_ticks]
#   [clock, "squeue", "<-j list>", [ids listed]]
#   [clock, "start", jid]          PENDING -> RUNNING
#   [clock, "finish", jid, rc]     RUNNING -> COMPLETED/FAILED (the script is executed here)
#   [clock, "scontrol", jid, state]
#   [clock, "cancel", jid, state_before]
#
# Time is logical: the queue advances by one tick on every `squeue` call.  A job stays PENDING for
# VF_TICKS_P ticks and RUNNING for VF_TICKS_R ticks (both parsed from the `export VF_...="n"` lines
# that StreamFlow writes into the batch script), then its script runs and its output file is written.
import fcntl
import json
import os
import re
import subprocess
import sys

ACTIVE = ("PENDING", "RUNNING")


def main():
    S = os.environ["VF_SLURM_STATE"]
    os.makedirs(S, exist_ok=True)
    cmd = os.path.basename(sys.argv[0])
    args = sys.argv[1:]
    script = sys.stdin.read() if cmd == "sbatch" else None
    lock = open(os.path.join(S, "lock"), "a+")
    fcntl.flock(lock, fcntl.LOCK_EX)
    dbf = os.path.join(S, "db.json")
    if os.path.exists(dbf):
        with open(dbf) as f:
            db = json.load(f)
    else:
        db = {"next": int(os.environ.get("VF_SLURM_FIRST_ID", "100")), "jobs": {}, "log": [], "clock": 0}

    def log(*a):
        db["clock"] += 1
        db["log"].append([db["clock"], *a])

    def opt(name, default=None):
        for i, a in enumerate(args):
            if a == name and i + 1 < len(args):
                return args[i + 1]
            if a.startswith(name + "="):
                return a[len(name) + 1:]
        return default

    def advance():
        for jid in sorted(db["jobs"], key=int):
            j = db["jobs"][jid]
            if j["state"] == "PENDING":
                j["tp"] -= 1
                if j["tp"] < 0:
                    j["state"] = "RUNNING"
                    log("start", jid)
            elif j["state"] == "RUNNING":
                j["tr"] -= 1
                if j["tr"] < 0:
                    with open(j["stdout"], "wb") as out:
                        r = subprocess.run(["sh", os.path.join(S, jid + ".sh")], stdin=subprocess.DEVNULL,
                                           stdout=out, stderr=subprocess.STDOUT, cwd=j["chdir"] or None)
                    j["rc"] = r.returncode
                    j["state"] = "COMPLETED" if r.returncode == 0 else "FAILED"
                    log("finish", jid, r.returncode)

    rc = 0
    if cmd == "sbatch":
        db["next"] += 1
        jid = str(db["next"])
        with open(os.path.join(S, jid + ".sh"), "w") as f:
            f.write(script)
        chdir = opt("--chdir")

        def num(name, default):
            m = re.search(r"""export %s=["']?(\d+)["']?""" % name, script)  # quoted or bare (create_command uses shlex.quote)
            return int(m.group(1)) if m else default

        stdout = opt("--output") or os.path.join(chdir or S, "slurm-%s.out" % jid)
        if not os.path.isabs(stdout):
            stdout = os.path.join(chdir or S, stdout)
        db["jobs"][jid] = {"state": "PENDING", "tp": num("VF_TICKS_P", 1), "tr": num("VF_TICKS_R", 1),
                           "chdir": chdir, "stdout": stdout, "rc": None, "idx": num("VF_JOB", -1)}
        log("submit", jid, db["jobs"][jid]["idx"], db["jobs"][jid]["tp"], db["jobs"][jid]["tr"])
        sys.stdout.write(jid + "\n")
    elif cmd == "squeue":
        advance()
        ids = opt("-j")
        states = (opt("-t") or ",".join(ACTIVE)).split(",")
        wanted = [x for x in ids.split(",") if x] if ids is not None else sorted(db["jobs"], key=int)
        listed = [x for x in wanted if x in db["jobs"] and db["jobs"][x]["state"] in states]
        log("squeue", ids, listed)
        for x in listed:
            sys.stdout.write("%-20s\n" % x)
    elif cmd == "scontrol":
        jid = args[-1]
        j = db["jobs"].get(jid)
        if j is None:
            sys.stderr.write("slurm_load_jobs error: Invalid job id specified\n")
            rc = 1
        else:
            log("scontrol", jid, j["state"])
            sys.stdout.write("JobId=%s JobName=vf UserId=root(0) JobState=%s Reason=None ExitCode=%d:0 "
                             "WorkDir=%s StdErr=%s StdIn=/dev/null StdOut=%s Power=\n"
                             % (jid, j["state"], j["rc"] or 0, j["chdir"] or "/", j["stdout"], j["stdout"]))
    elif cmd == "scancel":
        for jid in " ".join(args).replace(",", " ").split():
            j = db["jobs"].get(jid)
            if j is None:
                sys.stderr.write("scancel: error: Invalid job id %s\n" % jid)
                continue
            log("cancel", jid, j["state"])
            if j["state"] in ACTIVE:
                j["state"] = "CANCELLED"
    else:
        sys.stderr.write("vfslurm: unknown command %s\n" % cmd)
        rc = 2
    tmp = dbf + ".tmp"
    with open(tmp, "w") as f:
        json.dump(db, f)
    os.replace(tmp, dbf)
    sys.exit(rc)


main()
