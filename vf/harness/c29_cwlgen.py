"""Random CWL v1.2 workflow documents (+ cwltool:Loop) and job files for C29 / C34.

A *case* is a JSON dict

    {"wf": <CWL document>, "job": <input object>, "files": {relative name: text},
     "meta": {"types": {source id: type string}, "features": [...], "gen": n}}

`files` holds job input files (`in_*.txt`) and externalised tools (`t_*.cwl`, JSON text).
The generator is type directed, so nearly every document is accepted by the reference runner;
the few that are not are discarded by the check (never counted).

Type strings: int string boolean File rec any, suffix `[]` (array) and `?` (optional), e.g.
`int?[]` is an array of optional ints.

Safety: every command line is `python3 -c <fixed script>` followed by generated values drawn from
SAFE_CHARS (letters, digits, space and `_-=:,+@%`); no generated word starts with `/`, `~`, `.`
or `-`, none contains `..`.
"""
from __future__ import annotations

import copy
import json

CWLTOOL_NS = "http://commonwl.org/cwltool#"

WF_REQS = {
    "ScatterFeatureRequirement": {},
    "MultipleInputFeatureRequirement": {},
    "InlineJavascriptRequirement": {},
    "StepInputExpressionRequirement": {},
    "SubworkflowFeatureRequirement": {},
}
JS = {"InlineJavascriptRequirement": {}}

WORDS = ["alpha", "b", "Zed", "x1", "lorem ipsum", "a=b", "k:v", "one,two", "p+q", "me@host", "50%", "under_score",
         "dash-ed", "", "UPPER", "9"]


# ----------------------------------------------------------------------------- types
def is_opt(t):
    return t.endswith("?")


def is_arr(t):
    return t.endswith("[]")


def base(t):
    return t[:-1] if is_opt(t) else t


def item(t):
    assert is_arr(t), t
    return t[:-2]


def leaf(t):
    t = base(t)
    while is_arr(t):
        t = base(item(t))
    return t


def cwl_type(t):
    if is_opt(t):
        return ["null", cwl_type(t[:-1])]
    if is_arr(t):
        return {"type": "array", "items": cwl_type(t[:-2])}
    if t == "rec":
        return {"type": "record", "fields": [{"name": "a", "type": "int"}, {"name": "s", "type": "string"}]}
    if t == "any":
        return "Any"
    return t


def assignable(src, dst):
    """src value type can be wired to a dst sink without the reference runner complaining."""
    if dst in ("any?",):
        return leaf(src) != "File"
    if dst == "any":
        return leaf(src) != "File" and not is_opt(src)
    if src == dst:
        return True
    if is_opt(dst):
        return assignable(base(src), base(dst))
    if is_opt(src):
        return False
    if is_arr(src) and is_arr(dst):
        return assignable(item(src), item(dst))
    return False


# ----------------------------------------------------------------------------- tools
def _et(ins, outs, expr):
    return {"class": "ExpressionTool", "requirements": copy.deepcopy(JS),
            "inputs": {k: ({"type": cwl_type(v[0]), "default": v[1]} if isinstance(v, tuple) else {"type": cwl_type(v)})
                       for k, v in ins.items()},
            "outputs": {k: {"type": cwl_type(v)} for k, v in outs.items()}, "expression": expr}


def _py(script):
    return ["python3", "-c", script]


def tool_library():
    """name -> dict(doc, ins {name: type | (type, default)}, outs {name: type}, kind, cost)"""
    L = {}

    def add(name, doc, ins, outs, kind="et", **kw):
        L[name] = dict(name=name, doc=doc, ins=ins, outs=outs, kind=kind, **kw)

    add("add", _et({"a": "int", "b": ("int", 10)}, {"o": "int"}, "${return {'o': inputs.a + inputs.b};}"),
        {"a": "int", "b": ("int", 10)}, {"o": "int"})
    add("mul", _et({"a": "int"}, {"o": "int"}, "${return {'o': (inputs.a * 3 + 1) % 17};}"), {"a": "int"}, {"o": "int"})
    add("arr", _et({"n": "int"}, {"o": "int[]"},
                   "${var r=[]; for (var i=0;i<(inputs.n % 5);i++) r.push(i*2+inputs.n); return {'o': r};}"),
        {"n": "int"}, {"o": "int[]"})
    add("sum", _et({"xs": "int?[]"}, {"o": "int"},
                   "${var s=0; for (var i=0;i<inputs.xs.length;i++) s = s*3 + (inputs.xs[i]===null ? 1 : inputs.xs[i]+2); return {'o': s % 100003};}"),
        {"xs": "int?[]"}, {"o": "int"})
    add("json", _et({"x": "any?"}, {"o": "string"}, "${return {'o': JSON.stringify(inputs.x)};}"),
        {"x": "any?"}, {"o": "string"})
    add("json2", _et({"x": "any?", "y": "any?"}, {"o": "string"},
                     "${return {'o': JSON.stringify([inputs.x, inputs.y])};}"),
        {"x": "any?", "y": "any?"}, {"o": "string"})
    add("cat", _et({"s": "string", "t": ("string", "dflt")}, {"o": "string"}, "${return {'o': inputs.s + '-' + inputs.t};}"),
        {"s": "string", "t": ("string", "dflt")}, {"o": "string"})
    add("str", _et({"a": "int"}, {"o": "string"}, "${return {'o': 'n' + inputs.a};}"), {"a": "int"}, {"o": "string"})
    add("len", _et({"s": "string"}, {"o": "int"}, "${return {'o': inputs.s.length};}"), {"s": "string"}, {"o": "int"})
    add("gt", _et({"a": "int"}, {"o": "boolean"}, "${return {'o': inputs.a > 4};}"), {"a": "int"}, {"o": "boolean"})
    add("not", _et({"b": "boolean"}, {"o": "boolean"}, "${return {'o': !inputs.b};}"), {"b": "boolean"}, {"o": "boolean"})
    add("mkrec", _et({"a": "int", "s": "string"}, {"o": "rec"}, "${return {'o': {'a': inputs.a + 1, 's': inputs.s + '!'}};}"),
        {"a": "int", "s": "string"}, {"o": "rec"})
    add("recget", _et({"r": "rec"}, {"o": "int", "p": "string"}, "${return {'o': inputs.r.a * 2, 'p': inputs.r.s + '?'};}"),
        {"r": "rec"}, {"o": "int", "p": "string"})
    add("opt", _et({"a": "int"}, {"o": "int?"}, "${return {'o': (inputs.a % 2 == 1) ? null : inputs.a + 100};}"),
        {"a": "int"}, {"o": "int?"})
    add("strs", _et({"n": "int", "s": ("string", "w")}, {"o": "string[]"},
                    "${var r=[]; for (var i=0;i<(inputs.n % 4);i++) r.push(inputs.s + i); return {'o': r};}"),
        {"n": "int", "s": ("string", "w")}, {"o": "string[]"})
    add("two", _et({"a": "int"}, {"o": "int", "p": "int[]"}, "${return {'o': inputs.a + 7, 'p': [inputs.a, inputs.a + 1]};}"),
        {"a": "int"}, {"o": "int", "p": "int[]"})
    add("nest", _et({"n": "int"}, {"o": "int[][]"},
                    "${var r=[]; for (var i=0;i<(inputs.n % 3);i++){var q=[]; for (var j=0;j<i+ (inputs.n % 2);j++) q.push(i*10+j); r.push(q);} return {'o': r};}"),
        {"n": "int"}, {"o": "int[][]"})
    add("fsize", dict(_et({}, {"o": "int", "p": "string"},
                          "${return {'o': inputs.f.contents.length, 'p': inputs.f.basename};}"),
                      inputs={"f": {"type": "File", "loadContents": True}}),
        {"f": "File"}, {"o": "int", "p": "string"})
    add("fpick", _et({"fs": "File[]", "k": ("int", 0)}, {"o": "File?"},
                     "${return {'o': inputs.fs.length ? inputs.fs[inputs.k % inputs.fs.length] : null};}"),
        {"fs": "File[]", "k": ("int", 0)}, {"o": "File?"})

    # --- python3 -c CommandLineTools (fixed scripts; generated values only as arguments)
    add("echo", {"class": "CommandLineTool", "requirements": copy.deepcopy(JS),
                 "baseCommand": _py("import sys; print('|'.join(sys.argv[1:]))"),
                 "inputs": {"a": {"type": "int", "inputBinding": {"position": 1}},
                            "s": {"type": "string", "default": "x", "inputBinding": {"position": 2, "prefix": "--s"}}},
                 "stdout": "out.txt",
                 "outputs": {"o": {"type": "string", "outputBinding": {"glob": "out.txt", "loadContents": True,
                                                                     "outputEval": "$(self[0].contents.trim())"}}}},
        {"a": "int", "s": ("string", "x")}, {"o": "string"}, kind="clt")
    add("mkfile", {"class": "CommandLineTool", "requirements": copy.deepcopy(JS),
                   "baseCommand": _py("import sys; n=int(sys.argv[1]); print('\\n'.join('%s %d' % (sys.argv[2], i) for i in range(n % 4 + 1)))"),
                   "inputs": {"a": {"type": "int", "inputBinding": {"position": 1}},
                              "s": {"type": "string", "default": "row", "inputBinding": {"position": 2}}},
                   "stdout": "$('mk_' + inputs.a + '.txt')",
                   "outputs": {"o": {"type": "stdout"}}},
        {"a": "int", "s": ("string", "row")}, {"o": "File"}, kind="clt")
    add("catf", {"class": "CommandLineTool",
                 "baseCommand": _py("import sys; [sys.stdout.write(open(p).read()) for p in sys.argv[1:]]; print('#cat %d' % (len(sys.argv)-1))"),
                 "inputs": {"f": {"type": "File", "inputBinding": {"position": 1}},
                            "g": {"type": ["null", "File"], "inputBinding": {"position": 2}}},
                 "stdout": "cat.txt",
                 "outputs": {"o": {"type": "File", "outputBinding": {"glob": "cat.txt"}}}},
        {"f": "File", "g": "File?"}, {"o": "File"}, kind="clt")
    add("wc", {"class": "CommandLineTool",
               "baseCommand": _py("import sys, json; t=open(sys.argv[1]).read(); json.dump({'o': len(t.split()), 'p': len(t)}, open('cwl.output.json','w'))"),
               "inputs": {"f": {"type": "File", "inputBinding": {"position": 1}}},
               "outputs": {"o": "int", "p": "int"}},
        {"f": "File"}, {"o": "int", "p": "int"}, kind="clt")
    add("files", {"class": "CommandLineTool",
                  "baseCommand": _py("import sys; n=int(sys.argv[1]); [open('p_%d.txt' % i, 'w').write('part %d of %d\\n' % (i, n)) for i in range(n % 4)]"),
                  "inputs": {"n": {"type": "int", "inputBinding": {"position": 1}}},
                  "outputs": {"o": {"type": {"type": "array", "items": "File"}, "outputBinding": {"glob": "p_*.txt"}}}},
        {"n": "int"}, {"o": "File[]"}, kind="clt")
    add("catn", {"class": "CommandLineTool",
                 "baseCommand": _py("import sys; [sys.stdout.write(open(p).read()) for p in sys.argv[1:]]; print('#catn %d' % (len(sys.argv)-1))"),
                 "inputs": {"fs": {"type": {"type": "array", "items": "File"}, "inputBinding": {"position": 1}}},
                 "stdout": "catn.txt",
                 "outputs": {"o": {"type": "stdout"}}},
        {"fs": "File[]"}, {"o": "File"}, kind="clt")
    add("flag", {"class": "CommandLineTool", "requirements": copy.deepcopy(JS),
                 "baseCommand": _py("import sys; print(' '.join(sys.argv[1:]))"),
                 "inputs": {"b": {"type": "boolean", "inputBinding": {"position": 1, "prefix": "--flag"}},
                            "xs": {"type": {"type": "array", "items": "int"}, "inputBinding": {"position": 2, "prefix": "-x"}}},
                 "stdout": "flag.txt",
                 "outputs": {"o": {"type": "string", "outputBinding": {"glob": "flag.txt", "loadContents": True,
                                                                     "outputEval": "$(self[0].contents.trim())"}}}},
        {"b": "boolean", "xs": "int[]"}, {"o": "string"}, kind="clt")
    add("upper", {"class": "CommandLineTool",
                  "baseCommand": _py("import sys; sys.stdout.write(sys.stdin.read().upper())"),
                  "inputs": {"f": "File"}, "stdin": "$(inputs.f.path)", "stdout": "upper.txt",
                  "outputs": {"o": {"type": "stdout"}}},
        {"f": "File"}, {"o": "File"}, kind="clt")
    add("fail", {"class": "CommandLineTool",
                 "baseCommand": _py("import sys, json; a=int(sys.argv[1]); json.dump({'o': a + 1}, open('cwl.output.json','w')); sys.exit(1 if a % 7 == 3 else 0)"),
                 "inputs": {"a": {"type": "int", "inputBinding": {"position": 1}}},
                 "outputs": {"o": "int"}},
        {"a": "int"}, {"o": "int"}, kind="clt", rare=True)
    add("slow", {"class": "CommandLineTool",
                 "baseCommand": _py("import sys, time, json; time.sleep(0.6); json.dump({'o': int(sys.argv[1]) + 5}, open('cwl.output.json','w'))"),
                 "inputs": {"a": {"type": "int", "inputBinding": {"position": 1}}},
                 "outputs": {"o": "int"}},
        {"a": "int"}, {"o": "int"}, kind="clt", rare=True)
    # Directory output with same-basename files of different content in sub-directories (C34 corpus only)
    add("mkdir", {"class": "CommandLineTool",
                  "baseCommand": _py("import os, sys; n=int(sys.argv[1]); [os.makedirs('res/sample_%d' % i) for i in range(2)]; [open('res/sample_%d/counts.txt' % i, 'w').write('sample %d count %d\\n' % (i, n * (i + 3))) for i in range(2)]; open('res/readme.txt', 'w').write('results for %d\\n' % n)"),
                  "inputs": {"n": {"type": "int", "inputBinding": {"position": 1}}},
                  "outputs": {"d": {"type": "Directory", "outputBinding": {"glob": "res"}}}},
        {"n": "int"}, {"d": "Directory"}, kind="clt", loop_only=True, corpus_only=True)
    # loop bodies: (i, acc) -> (i2, acc2)
    add("body", _et({"i": "int", "acc": "int"}, {"i2": "int", "acc2": "int"},
                    "${return {'i2': inputs.i + 1, 'acc2': (inputs.acc * 2 + inputs.i) % 1009};}"),
        {"i": "int", "acc": "int"}, {"i2": "int", "acc2": "int"}, loop_only=True)
    add("bodyclt", {"class": "CommandLineTool",
                    "baseCommand": _py("import sys, json; i=int(sys.argv[1]); acc=int(sys.argv[2]); json.dump({'i2': i + 1, 'acc2': (acc * 2 + i) % 1009}, open('cwl.output.json','w'))"),
                    "inputs": {"i": {"type": "int", "inputBinding": {"position": 1}},
                               "acc": {"type": "int", "inputBinding": {"position": 2}}},
                    "outputs": {"i2": "int", "acc2": "int"}},
        {"i": "int", "acc": "int"}, {"i2": "int", "acc2": "int"}, kind="clt", loop_only=True)
    return L


TOOLS = tool_library()


def in_type(v):
    return v[0] if isinstance(v, tuple) else v


# ----------------------------------------------------------------------------- generator
class Gen:
    """scope entries are dicts {"id", "t", "origin": "input"|"step", "len": length class or None}"""

    def __init__(self, rng):
        self.rng = rng
        self.files = {}
        self.features = set()
        self.job = {}
        self.wf_defaults = {}
        self.top_types = {}

    # -- job -------------------------------------------------------------------
    def word(self):
        return self.rng.choice(WORDS)

    def job_inputs(self):
        r = self.rng
        ins, job = {}, {}

        def put(name, t, v, default=None):
            ins[name] = t
            if default is not None:
                self.wf_defaults[name] = default
            else:
                job[name] = v

        put("i1", "int", r.randint(0, 12))
        if r.random() < 0.8:
            put("i2", "int", r.randint(0, 5))
        if r.random() < 0.5:
            put("i3", "int", None, default=r.randint(1, 9))
            self.features.add("wf_input_default")
        if r.random() < 0.7:
            put("s1", "string", self.word())
        if r.random() < 0.6:
            put("flag", "boolean", r.random() < 0.5)
        if r.random() < 0.85:
            put("arr", "int[]", [r.randint(0, 9) for _ in range(r.choice([0, 1, 2, 3, 5]))])
        if r.random() < 0.6:
            put("arr2", "int[]", [r.randint(0, 9) for _ in range(r.choice([0, 2, 3]))])
        if r.random() < 0.35:
            put("sarr", "string[]", [self.word() for _ in range(r.choice([0, 1, 3]))])
        if r.random() < 0.45:
            put("oi", "int?", r.choice([None, r.randint(0, 9)]))
        if r.random() < 0.25:
            put("os", "string?", r.choice([None, self.word()]))
        if r.random() < 0.3:
            put("nn", "int[][]", [[r.randint(0, 9) for _ in range(r.choice([0, 1, 2]))] for _ in range(r.choice([0, 1, 2, 3]))])
        if r.random() < 0.3:
            put("r1", "rec", {"a": r.randint(0, 9), "s": self.word()})
        if r.random() < 0.45:
            put("f1", "File", self.new_file())
        if r.random() < 0.3:
            put("farr", "File[]", [self.new_file() for _ in range(r.choice([0, 1, 2, 3]))])
        return ins, job

    def new_file(self):
        r = self.rng
        name = f"in_{len(self.files)}.txt"
        # equal-content files are wanted now and then (C34 de-duplication)
        if self.files and r.random() < 0.25:
            text = r.choice(list(self.files.values()))
        else:
            text = "".join(self.word() + r.choice([" ", "\n"]) for _ in range(r.randint(0, 6)))
        self.files[name] = text
        return {"class": "File", "path": name}

    # -- processes -------------------------------------------------------------
    def tool_ref(self, tool):
        """inline tool document, or a reference to an external file (same content)."""
        if self.rng.random() < 0.25:
            fn = f"t_{tool['name']}.cwl"
            doc = dict(copy.deepcopy(tool["doc"]), cwlVersion="v1.2")
            self.files[fn] = json.dumps(doc, indent=1)
            self.features.add("external_tool")
            return fn
        return copy.deepcopy(tool["doc"])

    def pick_tool(self, scope):
        r = self.rng
        names = [n for n, t in TOOLS.items() if not t.get("loop_only")]
        r.shuffle(names)
        for n in names:
            t = TOOLS[n]
            if t.get("rare") and r.random() < 0.85:
                continue
            if t["kind"] == "clt" and r.random() < 0.35:
                continue
            if self.feasible(t, scope):
                return t
        return TOOLS["add"]

    def feasible(self, t, scope):
        for k, v in t["ins"].items():
            if isinstance(v, tuple) or is_opt(v):
                continue
            if not self.candidates(scope, v) and not (is_arr(v) and self.candidates(scope, item(v))):
                return False
        return True

    def pick_n(self, pool, n):
        """n sources; distinct unless (rarely) a repeated source is wanted."""
        r = self.rng
        if r.random() < 0.025:
            self.features.add("repeated_source")
            return [r.choice(pool) for _ in range(n)]
        pool = list({e["id"]: e for e in pool}.values())
        return r.sample(pool, min(n, len(pool)))

    @staticmethod
    def candidates(scope, t):
        return [e for e in scope if assignable(e["t"], t)]

    def subworkflow(self, scope, depth):
        """A nested Workflow used as a process: picks some values of the scope as its inputs."""
        r = self.rng
        pool = [e for e in scope if not is_opt(e["t"])]
        r.shuffle(pool)
        chosen = pool[: r.randint(1, min(3, len(pool)))]
        if not any(e["t"] == "int" for e in chosen):
            chosen.append(next(e for e in scope if e["t"] == "int"))
        ins = {f"w{k}": e["t"] for k, e in enumerate(chosen)}
        wf, outs = self.workflow(ins, depth + 1, r.randint(1, 3), {})
        self.features.add("subworkflow")
        return dict(name="subwf", doc=wf, ins=ins, outs=outs, kind="wf"), {f"w{k}": e["id"] for k, e in enumerate(chosen)}

    # -- one step --------------------------------------------------------------
    def literal(self, t):
        r = self.rng
        t = base(t)
        if t == "int":
            return r.randint(0, 9)
        if t == "string":
            return self.word()
        if t == "boolean":
            return r.random() < 0.5
        if is_arr(t) and leaf(t) in ("int", "string", "boolean"):
            return [self.literal(item(t)) for _ in range(r.choice([0, 1, 3]))]
        if t == "rec":
            return {"a": r.randint(0, 9), "s": self.word()}
        return None

    def scatter_sources(self, tool, k, t, scope, heavy):
        if tool["name"] in ("json", "json2"):
            cands = [e for e in scope if is_arr(e["t"]) and leaf(e["t"]) != "File" and not is_opt(e["t"])]
        else:
            cands = [e for e in self.candidates(scope, t + "[]") if not is_opt(e["t"])]
        if heavy:
            cands = [e for e in cands if e["origin"] == "input" and len(self.job.get(e["id"]) or []) <= 3] or \
                    [e for e in cands if e["origin"] == "step"]
        return cands

    def step(self, name, scope, depth):
        """returns (step document, {output name: type}, length class of the outputs)."""
        r = self.rng
        F = self.features
        preset = {}
        force_multi = False
        if depth < 2 and r.random() < (0.14 if depth == 0 else 0.08):
            tool, preset = self.subworkflow(scope, depth)
            run = tool["doc"]
        else:
            tool = self.pick_tool(scope)
            multi = [TOOLS[n] for n in ("add", "json2", "cat", "mkrec", "echo", "mkfile", "strs")
                     if sum(1 for k, v in TOOLS[n]["ins"].items() if self.scatter_sources(TOOLS[n], k, in_type(v), scope, TOOLS[n]["kind"] != "et")) >= 2]
            if multi and r.random() < 0.22:
                tool = r.choice(multi)
                force_multi = True
            run = self.tool_ref(tool)
        st = {"run": run, "in": {}, "out": list(tool["outs"])}
        outs = dict(tool["outs"])
        ins = {k: in_type(v) for k, v in tool["ins"].items()}
        heavy = tool["kind"] != "et"
        out_len = None
        # a nested_crossproduct step inside a sub-workflow must stay observable from the top level:
        # such a sub-workflow step is neither scattered nor conditional
        plain = tool["kind"] == "wf" and any(st.get("scatterMethod") == "nested_crossproduct"
                                             for _, w in walk_workflows(tool["doc"]) for st in w["steps"].values())

        # scatter decision first: which inputs are scattered, and from where
        scat = {}
        method = None
        if not plain and (force_multi or r.random() < 0.3):
            able = [k for k, t in ins.items() if k not in preset and not is_opt(base(t) if t != "any?" else "x")
                    and self.scatter_sources(tool, k, t, scope, heavy)]
            r.shuffle(able)
            want = r.choice([2, 2, 3]) if force_multi else r.choice([1, 1, 1, 2, 3])
            if heavy:
                want = min(want, 2)
            able = sorted(able[:want])
            if len(able) > 1:
                method = r.choice(["dotproduct", "flat_crossproduct", "nested_crossproduct", "nested_crossproduct"])
            if method == "dotproduct":
                first = r.choice(self.scatter_sources(tool, able[0], ins[able[0]], scope, heavy))
                scat[able[0]] = first
                for k in able[1:]:
                    same = [e for e in self.scatter_sources(tool, k, ins[k], scope, heavy)
                            if e["id"] == first["id"] or (first["len"] is not None and e["len"] == first["len"])]
                    if same:
                        scat[k] = r.choice(same)
                out_len = first["len"]
            else:
                for k in able:
                    scat[k] = r.choice(self.scatter_sources(tool, k, ins[k], scope, heavy))
                if len(able) == 1:
                    out_len = scat[able[0]]["len"]
            if len(scat) < 2:
                method = None

        for k, t in ins.items():
            if k in preset:
                st["in"][k] = preset[k]
            elif k in scat:
                st["in"][k] = scat[k]["id"]
            else:
                v = self.plain_input(k, t, scope, isinstance(tool["ins"][k], tuple))
                if v is not None:
                    st["in"][k] = v
        if scat:
            names = sorted(scat)
            st["scatter"] = names[0] if len(names) == 1 and r.random() < 0.5 else names
            if method:
                st["scatterMethod"] = method
                F.add("scatter_" + method)
            else:
                F.add("scatter1")
            if method == "nested_crossproduct":
                outs = {o: t + "[]" * len(names) for o, t in outs.items()}
            else:
                outs = {o: t + "[]" for o, t in outs.items()}

        # when
        if not plain and r.random() < 0.24:
            cond = None
            ints = [k for k, t in ins.items() if t == "int" and k in st["in"]]
            bools = [k for k, t in ins.items() if t == "boolean" and k in st["in"]]
            flags = [e for e in scope if e["t"] == "boolean"]
            if ints and r.random() < 0.6:
                k = r.choice(ints)
                cond = r.choice([f"$(inputs.{k} > 3)", f"$(inputs.{k} % 2 == 0)", f"$(inputs.{k} < 100)", f"$(inputs.{k} < 0)"])
            elif bools:
                cond = f"$(inputs.{r.choice(bools)})"
            elif flags and "cnd" not in ins:
                st["in"]["cnd"] = r.choice(flags)["id"]
                cond = r.choice(["$(inputs.cnd)", "$(!inputs.cnd)"])
            elif "cnd" not in ins:
                st["in"]["cnd"] = {"default": r.random() < 0.5}
                cond = "$(inputs.cnd)"
            if cond:
                st["when"] = cond
                F.add("when")
                if scat:
                    # items of a scattered conditional step are optional
                    def optitems(t, n):
                        return optitems(item(t), n - 1) + "[]" if n else (t if is_opt(t) else t + "?")
                    n = len(scat) if method == "nested_crossproduct" else 1
                    outs = {o: optitems(t, n) for o, t in outs.items()}
                    F.add("when_scatter")
                else:
                    outs = {o: (t if is_opt(t) else t + "?") for o, t in outs.items()}
        return st, outs, out_len

    def plain_input(self, k, t, scope, has_default):
        """wiring of a non-scattered step input of type t (None: leave it unconnected)."""
        r = self.rng
        F = self.features
        cands = self.candidates(scope, t)
        x = r.random()
        # multiple sources into array / any sinks
        if (is_arr(base(t)) or t == "any?") and x < 0.55:
            got = self.multi_source(t, scope)
            if got:
                return got
        # pickValue into scalar sinks
        if not is_arr(base(t)) and t not in ("any?", "any") and x < 0.22:
            got = self.pick_scalar(base(t), scope)
            if got:
                return got
        # valueFrom
        if x < 0.40 and base(t) in ("int", "string") and not is_opt(t):
            got = self.value_from(base(t), scope)
            if got:
                return got
        # optional source + default
        if x < 0.52 and not is_opt(t) and self.literal(t) is not None:
            opts = [e for e in scope if is_opt(e["t"]) and base(e["t"]) == t]
            if opts:
                F.add("default_on_null_source")
                return {"source": r.choice(opts)["id"], "default": self.literal(t)}
            if r.random() < 0.3:
                F.add("default_no_source")
                return {"default": self.literal(t)}
        if has_default and (not cands or r.random() < 0.3):
            F.add("tool_default")
            return None
        if is_opt(t) and (not cands or r.random() < 0.3):
            return None
        if not cands:
            lit = self.literal(t)
            if lit is not None:
                F.add("default_no_source")
                return {"default": lit}
            got = self.multi_source(t, scope) if is_arr(base(t)) else None
            if got:
                return got
            raise Infeasible(f"no source of type {t}")
        return r.choice(cands)["id"]

    def value_from(self, t, scope):
        r = self.rng
        F = self.features
        if r.random() < 0.2:
            # no source at all: `self` is the step input's default
            F.add("valueFrom_on_default_no_source")
            if t == "int":
                return {"default": r.randint(0, 9), "valueFrom": r.choice(["$(self + 1)", "$(self * 2)"])}
            return {"default": self.word(), "valueFrom": "$(self + '_v')"}
        ints = self.candidates(scope, "int")
        if t == "int":
            arrs = [e for e in scope if is_arr(e["t"]) and not is_opt(e["t"])]
            if arrs and r.random() < 0.3:
                F.add("valueFrom")
                return {"source": r.choice(arrs)["id"], "valueFrom": "$(self.length)"}
            if ints:
                F.add("valueFrom")
                return {"source": r.choice(ints)["id"],
                        "valueFrom": r.choice(["$(self + 1)", "$(self * 2)", "${return self % 3 + 1;}"])}
            F.add("valueFrom_no_source")
            return {"valueFrom": "$(41 + 1)"}
        strs = self.candidates(scope, "string")
        if strs and r.random() < 0.6:
            F.add("valueFrom")
            return {"source": r.choice(strs)["id"], "valueFrom": r.choice(["$(self + '_v')", "$(self.toUpperCase())"])}
        if ints:
            F.add("valueFrom")
            return {"source": r.choice(ints)["id"], "valueFrom": "$('v' + self)"}
        return None

    def multi_source(self, t, scope):
        """source list + linkMerge / pickValue for an array (or any?) sink."""
        r = self.rng
        F = self.features
        c = r.random()
        if t != "any?":
            it = item(base(t))
            items = self.candidates(scope, it)
            arrs = [e for e in scope if assignable(e["t"], base(t)) and not is_opt(e["t"])]
            if c < 0.40 and items:
                n = r.choice([1, 2, 2, 3])
                d = {"source": [e["id"] for e in self.pick_n(items, n)]}
                F.add("merge_nested")
                if r.random() < 0.6 or n == 1:
                    d["linkMerge"] = "merge_nested"
                return d
            if c < 0.65 and arrs:
                F.add("merge_flattened")
                return {"source": [e["id"] for e in self.pick_n(arrs, r.choice([1, 2, 3]))], "linkMerge": "merge_flattened"}
            if c < 0.75 and arrs and items:
                F.add("merge_flattened_mixed")
                return {"source": [e["id"] for e in self.pick_n(arrs + items, r.choice([2, 3]))], "linkMerge": "merge_flattened"}
            if c < 0.95:
                # all_non_null over optional / plain item sources -> array of the non-null items
                pool = [e for e in scope if base(e["t"]) == base(it)]
                if pool and any(is_opt(e["t"]) for e in pool):
                    F.add("pick_all_non_null")
                    return {"source": [e["id"] for e in self.pick_n(pool, r.choice([2, 3]))], "pickValue": "all_non_null"}
            return None
        # any? sink: anything goes, the observer prints the merged structure
        pool = [e for e in scope if leaf(e["t"]) != "File"]
        if not pool:
            return None
        n = r.choice([1, 2, 3])
        d = {"source": [e["id"] for e in self.pick_n(pool, n)]}
        m = r.random()
        if m < 0.4 or n == 1:
            d["linkMerge"] = "merge_nested"
            F.add("merge_nested")
        elif m < 0.75:
            d["linkMerge"] = "merge_flattened"
            F.add("merge_flattened_mixed")
        else:
            F.add("merge_nested")
        p = r.random()
        if p < 0.2:
            d["pickValue"] = "all_non_null"
            F.add("pick_all_non_null")
        elif p < 0.3:
            d["pickValue"] = "first_non_null"
            F.add("pick_first_non_null")
        return d

    def nullness(self, e):
        """'null' / 'nonnull' when known from the job file, else None."""
        if e["origin"] == "input":
            if e["id"] in self.job:
                return "null" if self.job[e["id"]] is None else "nonnull"
            return "nonnull"
        return None if is_opt(e["t"]) else "nonnull"

    def pick_scalar(self, t, scope):
        r = self.rng
        F = self.features
        pool = [e for e in scope if base(e["t"]) == t]
        opts = [e for e in pool if is_opt(e["t"])]
        if not opts or len(pool) < 2:
            return None
        sure = [e for e in pool if self.nullness(e) == "nonnull"]
        if r.random() < 0.65:
            src = self.pick_n(pool, r.choice([2, 3]))
            if not any(is_opt(e["t"]) for e in src):
                src[0] = r.choice(opts)
            if sure and r.random() < 0.85 and not any(e in sure for e in src):  # make success likely
                src[-1] = r.choice(sure)
            if r.random() < 0.3:
                r.shuffle(src)
            F.add("pick_first_non_null")
            return {"source": [e["id"] for e in src], "pickValue": "first_non_null"}
        nulls = [e for e in pool if self.nullness(e) == "null"]
        if nulls and sure and r.random() < 0.8:
            src = self.pick_n(nulls, r.choice([1, 2])) + [r.choice(sure)]
            r.shuffle(src)
        else:
            src = [r.choice(opts), r.choice(pool)]
        F.add("pick_the_only_non_null")
        return {"source": [e["id"] for e in src], "pickValue": "the_only_non_null"}

    # -- loops -----------------------------------------------------------------
    def loop_step(self, scope):
        r = self.rng
        F = self.features
        ints = self.candidates(scope, "int")
        kind = r.choice(["et", "et", "et", "clt", "wf"])
        iters = r.choice([0, 1, 2, 3, 5, 8, 12])
        if kind == "clt":
            iters = min(iters, 3)
            run = self.tool_ref(TOOLS["bodyclt"])
        elif kind == "et":
            run = self.tool_ref(TOOLS["body"])
        else:
            iters = min(iters, 5)
            inner = {"class": "Workflow", "requirements": copy.deepcopy(WF_REQS),
                     "inputs": {"i": "int", "acc": "int"},
                     "outputs": {"i2": {"type": "int", "outputSource": "inc/i2"},
                                 "acc2": {"type": "int", "outputSource": "fin/o"}},
                     "steps": {"inc": {"run": copy.deepcopy(TOOLS["body"]["doc"]), "in": {"i": "i", "acc": "acc"}, "out": ["i2", "acc2"]},
                               "fin": {"run": copy.deepcopy(TOOLS["add"]["doc"]), "in": {"a": "inc/acc2", "b": "i"}, "out": ["o"]}}}
            if r.random() < 0.5:
                inner["steps"]["fin"]["when"] = "$(inputs.a % 2 == 0)"
                inner["outputs"]["acc2"] = {"type": "int", "outputSource": ["fin/o", "acc"], "pickValue": "first_non_null"}
            run = inner
            F.add("loop_subworkflow")
        st = {"run": run, "in": {"i": {"default": 0}, "acc": r.choice(ints)["id"]}, "out": ["i2", "acc2"]}
        loop = {"i": "i2", "acc": "acc2"}
        v = r.random()
        if v < 0.25:
            loop["acc"] = {"loopSource": "acc2", "valueFrom": "$(self + 1)"}
            F.add("loop_valueFrom")
        elif v < 0.4:
            loop["acc"] = {"loopSource": ["acc2", "i2"], "linkMerge": "merge_nested", "valueFrom": "$(self[0] + self[1])"}
            F.add("loop_multi_source")
        elif v < 0.5:
            del loop["acc"]  # constant among iterations
            F.add("loop_constant_input")
        bound = iters
        if r.random() < 0.25:
            # start value taken from the job (known), bound relative to it
            known = [e for e in ints if e["origin"] == "input" and isinstance(self.job.get(e["id"]), int)]
            if known:
                e = r.choice(known)
                st["in"]["i"] = e["id"]
                bound = self.job[e["id"]] + iters
        method = r.choice(["last", "all"])
        st["requirements"] = {"cwltool:Loop": {"loopWhen": f"$(inputs.i < {bound})", "loop": loop, "outputMethod": method}}
        F.add("loop_" + method)
        F.add("loop_iters_%s" % ("0" if iters == 0 else "1" if iters == 1 else "n"))
        outs = {"i2": "int[]", "acc2": "int[]"} if method == "all" else {"i2": "int?", "acc2": "int?"}
        return st, outs, None

    # -- workflow --------------------------------------------------------------
    def workflow(self, ins, depth, nsteps, defaults):
        r = self.rng
        F = self.features
        wf = {"class": "Workflow", "requirements": copy.deepcopy(WF_REQS), "inputs": {}, "outputs": {}, "steps": {}}
        scope = []
        for k, t in ins.items():
            wf["inputs"][k] = {"type": cwl_type(t), "default": defaults[k]} if k in defaults else {"type": cwl_type(t)}
            ln = None
            if depth == 0 and is_arr(t) and isinstance(self.job.get(k), list):
                ln = "n%d" % len(self.job[k])
            scope.append({"id": k, "t": t, "origin": "input" if depth == 0 else "outer", "len": ln})
        types = dict(ins)
        produced = []
        for k in range(nsteps):
            name = f"s{k}" if depth == 0 else f"d{depth}s{k}"
            try:
                if r.random() < 0.13 and self.candidates(scope, "int"):
                    st, outs, ln = self.loop_step(scope)
                else:
                    st, outs, ln = self.step(name, scope, depth)
            except Infeasible:
                continue
            wf["steps"][name] = st
            for o, t in outs.items():
                e = {"id": f"{name}/{o}", "t": t, "origin": "step", "len": ln if is_arr(t) else None}
                scope.append(e)
                types[e["id"]] = t
                produced.append(e)
        # outputs (a File value is output at most once: the reference cannot relocate one file twice)
        n = 0
        files_out = set()

        outs_used = set()
        share = r.random() < 0.06  # a step output named by two workflow outputs: rarely

        def file_ok(ids):
            fl = [i for i in ids if leaf(types[i]) == "File"]
            if len(set(fl)) != len(fl) or files_out & set(fl) or (fl and files_out):
                return False
            st_ids = {i for i in ids if "/" in i}
            if st_ids & outs_used:
                if not share:
                    return False
                F.add("shared_step_output")
            outs_used.update(st_ids)
            files_out.update(fl)
            return True

        for e in produced:
            if r.random() < 0.8 and file_ok([e["id"]]):
                wf["outputs"][f"o{n}"] = {"type": cwl_type(e["t"]), "outputSource": e["id"]}
                n += 1
        # multi-source outputs
        for _ in range(r.choice([0, 0, 1, 1, 2])):
            cand = [e for e in scope if not is_arr(base(e["t"]))]
            if len(cand) < 2:
                break
            e0 = r.choice(cand)
            b = base(e0["t"])
            same = [e for e in cand if base(e["t"]) == b]
            src = self.pick_n(same, r.choice([2, 2, 3]))
            if len(src) < 2:
                continue
            r.shuffle(src)
            ids = [e["id"] for e in src]
            if not file_ok(ids):
                continue
            anyopt = any(is_opt(e["t"]) for e in src)
            c = r.random()
            if anyopt and c < 0.4:
                d = {"type": cwl_type(b + "[]"), "outputSource": ids, "pickValue": "all_non_null"}
                if r.random() < 0.3:
                    d["linkMerge"] = "merge_nested"
            elif anyopt and c < 0.7:
                allopt = all(is_opt(e["t"]) for e in src)
                d = {"type": cwl_type(b + "?" if allopt else b), "outputSource": ids, "pickValue": "first_non_null"}
            elif anyopt and c < 0.8:
                d = {"type": cwl_type(b), "outputSource": ids, "pickValue": "the_only_non_null"}
            elif anyopt:
                d = {"type": cwl_type(b + "?[]"), "outputSource": ids, "linkMerge": "merge_nested"}
            else:
                d = {"type": cwl_type(b + "[]"), "outputSource": ids}
                if r.random() < 0.5:
                    d["linkMerge"] = "merge_nested"
            wf["outputs"][f"m{n}"] = d
            n += 1
        # flattened arrays as an output
        arrs = [e for e in scope if is_arr(e["t"]) and not is_arr(item(e["t"])) and not is_opt(item(e["t"]))]
        if arrs and r.random() < 0.25:
            e0 = r.choice(arrs)
            same = [e for e in arrs if e["t"] == e0["t"]]
            ids = [e["id"] for e in self.pick_n(same, 2)]
            if file_ok(ids):
                wf["outputs"][f"m{n}"] = {"type": cwl_type(e0["t"]), "outputSource": ids, "linkMerge": "merge_flattened"}
                n += 1
        if r.random() < 0.15:
            e = r.choice(scope[: len(ins)])
            if file_ok([e["id"]]):
                wf["outputs"][f"p{n}"] = {"type": cwl_type(e["t"]), "outputSource": e["id"]}
                F.add("out_passthrough")
                n += 1
        if not wf["outputs"]:
            e = produced[-1] if produced else scope[0]
            wf["outputs"]["o0"] = {"type": cwl_type(e["t"]), "outputSource": e["id"]}
        # most steps get a path to an output; now and then one is left unconnected on purpose
        for name in dangling_steps(wf):
            if r.random() < 0.93:
                o = wf["steps"][name]["out"][0]
                if file_ok([f"{name}/{o}"]):
                    wf["outputs"][f"c{n}"] = {"type": cwl_type(types[f"{name}/{o}"]), "outputSource": f"{name}/{o}"}
                    n += 1
        # the same for outputs of a sub-workflow step / of a loop step that nothing reads
        for pth, what, key in unconnected(wf):
            parts = [x for x in pth.split("/") if x]
            if ((what == "output" and len(parts) == 1) or (what == "loopout" and not parts)) and r.random() < 0.93:
                src = f"{parts[0]}/{key}" if parts else key
                if src in types and file_ok([src]):
                    wf["outputs"][f"c{n}"] = {"type": cwl_type(types[src]), "outputSource": src}
                    n += 1
        out_types = {k: uncwl_type(d["type"]) for k, d in wf["outputs"].items()}
        if depth == 0:
            self.top_types = types
        return wf, out_types

    def case(self, n):
        r = self.rng
        ins, job = self.job_inputs()
        self.job = job
        nsteps = r.choice([1, 2, 2, 3, 3, 4, 4, 5, 6])
        wf, _ = self.workflow(ins, 0, nsteps, self.wf_defaults)
        wf = dict({"cwlVersion": "v1.2", "$namespaces": {"cwltool": CWLTOOL_NS}}, **wf)
        return {"wf": wf, "job": job, "files": self.files,
                "meta": {"types": self.top_types, "features": sorted(self.features | set(doc_features(wf))), "gen": n}}


class Infeasible(Exception):
    pass


def uncwl_type(c):
    if isinstance(c, str):
        if c.endswith("[]") or c.endswith("?"):
            return c
        return "any" if c == "Any" else c
    if isinstance(c, list):
        rest = [x for x in c if x != "null"]
        return uncwl_type(rest[0]) + "?"
    if isinstance(c, dict) and c.get("type") == "array":
        return uncwl_type(c["items"]) + "[]"
    if isinstance(c, dict) and c.get("type") == "record":
        return "rec"
    if isinstance(c, dict) and "type" in c:
        return uncwl_type(c["type"])
    return "any"


def gen_case(rng, n=0):
    for _ in range(50):
        try:
            return Gen(rng).case(n)
        except Infeasible:
            continue
    raise RuntimeError("generator could not build a document")


def gen_tool_case(rng, n=0):
    """a bare CommandLineTool / ExpressionTool run (no Workflow) with a job for every input."""
    g = Gen(rng)
    names = [k for k, t in TOOLS.items() if not t.get("rare") and not t.get("corpus_only")]
    tool = TOOLS[rng.choice(names)]
    doc = dict({"cwlVersion": "v1.2"}, **copy.deepcopy(tool["doc"]))
    job = {}
    for k, v in tool["ins"].items():
        t = in_type(v)
        if isinstance(v, tuple) and rng.random() < 0.4:
            continue  # the tool's own default
        if is_opt(t) and rng.random() < 0.4:
            continue
        b = base(t)
        if b == "File":
            job[k] = g.new_file()
        elif b == "File[]":
            job[k] = [g.new_file() for _ in range(rng.choice([0, 1, 2, 3]))]
        elif b == "any":
            job[k] = rng.choice([3, "w", [1, 2], True])
        else:
            lit = g.literal(b)
            if lit is None:
                lit = [[1], []] if b == "int[][]" else 1
            job[k] = lit
    return {"wf": doc, "job": job, "files": g.files,
            "meta": {"types": {}, "features": ["bare_tool", "run_" + doc["class"]], "gen": n, "bare_tool": tool["name"]}}


# ----------------------------------------------------------------------------- directed corpus
def _doc(inputs, steps, outputs, job, name, files=None):
    wf = {"cwlVersion": "v1.2", "$namespaces": {"cwltool": CWLTOOL_NS}, "class": "Workflow",
          "requirements": copy.deepcopy(WF_REQS), "inputs": inputs, "outputs": outputs, "steps": steps}
    return {"wf": wf, "job": job, "files": files or {},
            "meta": {"types": {}, "features": sorted(set(doc_features(wf)) | {"directed:" + name}), "gen": name}}


def directed_cases():
    """A fixed corpus of small documents, one construct each, run in every tier before the random documents
    (spread over the shards): constructs whose random frequency is too low for the quick tier to rely on."""
    T = lambda n: copy.deepcopy(TOOLS[n]["doc"])  # noqa: E731
    I, AI, AS = {"type": "int"}, {"type": cwl_type("int[]")}, {"type": cwl_type("string[]")}
    OI, OAI, OS = {"type": cwl_type("int?")}, {"type": cwl_type("int[]")}, {"type": "string"}
    out = []
    # default without source + valueFrom using `self`, next to another connected input
    out.append(_doc({"i1": I}, {"s0": {"run": T("add"), "in": {"a": "i1", "b": {"default": 5, "valueFrom": "$(self + 1)"}}, "out": ["o"]}},
                    {"o": dict(I, outputSource="s0/o")}, {"i1": 100}, "valueFrom_self_is_default"))
    # ... with a scatter over the other input
    out.append(_doc({"arr": AI}, {"s0": {"run": T("add"), "in": {"a": "arr", "b": {"default": 5, "valueFrom": "$(self + 1)"}}, "out": ["o"], "scatter": "a"}},
                    {"o": dict(OAI, outputSource="s0/o")}, {"arr": [100, 201, 302]}, "valueFrom_self_is_default_scatter"))
    # ... inside a nested workflow, string flavour
    inner = {"class": "Workflow", "requirements": copy.deepcopy(WF_REQS), "inputs": {"w": {"type": "string"}},
             "outputs": {"q": dict(OS, outputSource="c/o")},
             "steps": {"c": {"run": T("cat"), "in": {"s": "w", "t": {"default": "dd", "valueFrom": "$(self + '_v')"}}, "out": ["o"]}}}
    out.append(_doc({"s1": {"type": "string"}}, {"s0": {"run": inner, "in": {"w": "s1"}, "out": ["q"]}},
                    {"q": dict(OS, outputSource="s0/q")}, {"s1": "alpha"}, "valueFrom_self_is_default_nested"))
    # loop with more than ten iterations, last / all
    for method, t in (("last", OI), ("all", OAI)):
        out.append(_doc({"i1": I}, {"s0": {"run": T("body"), "in": {"i": {"default": 0}, "acc": "i1"}, "out": ["i2", "acc2"],
                                          "requirements": {"cwltool:Loop": {"loopWhen": "$(inputs.i < 12)", "loop": {"i": "i2", "acc": "acc2"}, "outputMethod": method}}}},
                        {"o": dict(t, outputSource="s0/i2"), "p": dict(t, outputSource="s0/acc2")}, {"i1": 3}, "loop_12_" + method))
    # pickValue with a real null
    skipped = {"s0": {"run": T("add"), "in": {"a": "i1", "b": "i2"}, "out": ["o"], "when": "$(inputs.a > 3)"}}
    out.append(_doc({"i1": I, "i2": I}, copy.deepcopy(skipped),
                    {"m": {"type": cwl_type("int[]"), "outputSource": ["s0/o", "i1", "i2"], "pickValue": "all_non_null"}}, {"i1": 2, "i2": 4}, "all_non_null_with_null"))
    out.append(_doc({"i1": I, "i2": I}, {"s0": {"run": T("add"), "in": {"a": "i1", "b": "i2"}, "out": ["o"]}},
                    {"m": {"type": "int", "outputSource": ["s0/o", "i2"], "pickValue": "first_non_null"}}, {"i1": 8, "i2": 4}, "first_non_null_two_values"))
    out.append(_doc({"i1": I, "i2": I}, copy.deepcopy(skipped),
                    {"m": {"type": "int", "outputSource": ["s0/o", "i2"], "pickValue": "the_only_non_null"}}, {"i1": 2, "i2": 4}, "the_only_non_null"))
    # merges: declared order, flattening order
    out.append(_doc({"i1": I, "i2": I}, {"s0": {"run": T("add"), "in": {"a": "i1", "b": "i2"}, "out": ["o"]}},
                    {"m": {"type": cwl_type("int[]"), "outputSource": ["s0/o", "i1"], "linkMerge": "merge_nested"}}, {"i1": 8, "i2": 4}, "merge_nested_order"))
    out.append(_doc({"arr": AI, "arr2": AI}, {"s0": {"run": T("sum"), "in": {"xs": {"source": ["arr", "arr2"], "linkMerge": "merge_flattened"}}, "out": ["o"]}},
                    {"q": dict(I, outputSource="s0/o"), "f": {"type": cwl_type("int[]"), "outputSource": ["arr2", "arr"], "linkMerge": "merge_flattened"}},
                    {"arr": [1, 2], "arr2": [7]}, "merge_flattened_order"))
    # nested crossproduct: second array empty (agrees), three inputs non-empty
    out.append(_doc({"arr": AI, "arr2": AI}, {"s0": {"run": T("add"), "in": {"a": "arr", "b": "arr2"}, "out": ["o"], "scatter": ["a", "b"], "scatterMethod": "nested_crossproduct"}},
                    {"m": {"type": cwl_type("int[][]"), "outputSource": "s0/o"}}, {"arr": [1, 2], "arr2": []}, "nested_crossproduct_second_empty"))
    out.append(_doc({"arr": AI, "arr2": AI, "sarr": AS},
                    {"s0": {"run": T("strs"), "in": {"n": "arr", "s": "sarr", "z": "arr2"}, "out": ["o"], "scatter": ["n", "s", "z"], "scatterMethod": "nested_crossproduct"}},
                    {"m": {"type": ["null", "Any"], "outputSource": "s0/o"}}, {"arr": [1, 2], "arr2": [4], "sarr": ["p", "q", "r"]}, "nested_crossproduct_three"))
    # dotproduct and flat crossproduct
    out.append(_doc({"arr": AI}, {"s0": {"run": T("add"), "in": {"a": "arr", "b": "arr"}, "out": ["o"], "scatter": ["a", "b"], "scatterMethod": "dotproduct"},
                                  "s1": {"run": T("add"), "in": {"a": "arr", "b": "s0/o"}, "out": ["o"], "scatter": ["a", "b"], "scatterMethod": "flat_crossproduct"}},
                    {"d": dict(OAI, outputSource="s0/o"), "f": dict(OAI, outputSource="s1/o")}, {"arr": [1, 5, 9]}, "dot_and_flat"))
    # step default on a null source, tool default, when + scatter
    out.append(_doc({"oi": OI, "arr": AI}, {"s0": {"run": T("add"), "in": {"a": {"source": "oi", "default": 7}}, "out": ["o"]},
                                            "s1": {"run": T("mul"), "in": {"a": "arr"}, "out": ["o"], "scatter": "a", "when": "$(inputs.a > 3)"}},
                    {"o": dict(I, outputSource="s0/o"), "w": {"type": cwl_type("int?[]"), "outputSource": "s1/o"}}, {"oi": None, "arr": [1, 5, 2, 9]}, "defaults_and_when_scatter"))
    return out


def directed_cases_c34():
    """runs whose outputs include a Directory with same-basename files in different sub-directories"""
    T = lambda n: copy.deepcopy(TOOLS[n]["doc"])  # noqa: E731
    out = []
    out.append(_doc({"i1": {"type": "int"}}, {"s0": {"run": T("mkdir"), "in": {"n": "i1"}, "out": ["d"]}},
                    {"d": {"type": "Directory", "outputSource": "s0/d"}}, {"i1": 4}, "directory_same_basename_subdirs"))
    out.append(_doc({"i1": {"type": "int"}, "f1": {"type": "File"}},
                    {"s0": {"run": T("mkdir"), "in": {"n": "i1"}, "out": ["d"]}, "s1": {"run": T("wc"), "in": {"f": "f1"}, "out": ["o", "p"]}},
                    {"d": {"type": "Directory", "outputSource": "s0/d"}, "n": {"type": "int", "outputSource": "s1/o"}, "m": {"type": "int", "outputSource": "s1/p"}},
                    {"i1": 7, "f1": {"class": "File", "path": "in_0.txt"}}, "directory_and_file_input", files={"in_0.txt": "alpha b\nZed\n"}))
    tool = dict({"cwlVersion": "v1.2"}, **T("mkdir"))
    out.append({"wf": tool, "job": {"n": 5}, "files": {}, "meta": {"types": {}, "features": ["bare_tool", "directed:bare_tool_directory"], "gen": "bare_tool_directory"}})
    return out


# ----------------------------------------------------------------------------- document analysis
def sources_of(v):
    """all source ids mentioned by a step input / output / loop entry."""
    if v is None:
        return []
    if isinstance(v, str):
        return [v]
    out = []
    for key in ("source", "outputSource", "loopSource"):
        s = v.get(key) if isinstance(v, dict) else None
        if isinstance(s, str):
            out.append(s)
        elif isinstance(s, list):
            out.extend(s)
    return out


def source_lists(w):
    """every multi-source list of one workflow (step inputs, loop sources, outputs) - the live list objects"""
    out = []
    for st in w.get("steps", {}).values():
        for v in st["in"].values():
            if isinstance(v, dict) and isinstance(v.get("source"), list):
                out.append(v["source"])
        lp = (st.get("requirements") or {}).get("cwltool:Loop")
        for v in (lp or {}).get("loop", {}).values():
            if isinstance(v, dict) and isinstance(v.get("loopSource"), list):
                out.append(v["loopSource"])
    for d in w.get("outputs", {}).values():
        if isinstance(d, dict) and isinstance(d.get("outputSource"), list):
            out.append(d["outputSource"])
    return out


def dedup_sources(case):
    """copy of the case where every source list keeps only the first occurrence of each source;
    second value: whether anything changed."""
    c = copy.deepcopy(case)
    changed = False
    for _, w in walk_workflows(c["wf"]):
        for lst in source_lists(w):
            seen, keep = set(), []
            for x in lst:
                if x not in seen:
                    seen.add(x)
                    keep.append(x)
            if len(keep) != len(lst):
                lst[:] = keep
                changed = True
    return c, changed


def dangling_steps(wf, live_outputs=None):
    """names of steps with no path to any (live) workflow output of THIS workflow."""
    live = set()
    work = []
    for k, d in wf["outputs"].items():
        if live_outputs is None or k in live_outputs:
            work.extend(sources_of(d if isinstance(d, dict) else None))
    while work:
        s = work.pop()
        if "/" not in s:
            continue
        name = s.split("/")[0]
        if name in live or name not in wf["steps"]:
            continue
        live.add(name)
        for v in wf["steps"][name]["in"].values():
            work.extend(sources_of(v))
    return sorted(set(wf["steps"]) - live)


def _plain_subworkflow(st):
    run = st.get("run")
    return isinstance(run, dict) and run.get("class") == "Workflow"


def _dead_inputs(st, inner_live_outputs):
    """inputs of a sub-workflow step that no live inner step / live inner output reads (and that the step itself
    does not need for scatter / when / loop / valueFrom of another input)"""
    run = st["run"]
    dead_steps = set(dangling_steps(run, inner_live_outputs))
    used = set()
    for k, d in run["outputs"].items():
        if inner_live_outputs is None or k in inner_live_outputs:
            used.update(sources_of(d if isinstance(d, dict) else None))
    for n, s2 in run["steps"].items():
        if n not in dead_steps:
            for v in s2["in"].values():
                used.update(sources_of(v))
    if "when" in st or "scatter" in st or (st.get("requirements") or {}).get("cwltool:Loop"):
        return set()
    if any(isinstance(v, dict) and "valueFrom" in v for v in st["in"].values()):
        return set()
    return {k for k in st["in"] if k in run["inputs"] and k not in used}


def unconnected(wf, live_outputs=None, path=""):
    """everything that cannot influence the top-level outputs, at every nesting level:
    (path, 'step', name) steps without a path to a live output; (path, 'output', key) outputs of a nested workflow
    that nothing live in the enclosing workflow reads; (path, 'input', key) inputs of a nested workflow (of a plain
    sub-workflow step) that nothing live inside reads - their sources do not keep a producer alive."""
    out = []
    if live_outputs is not None:
        out.extend((path, "output", k) for k in wf["outputs"] if k not in live_outputs)
    # fixpoint: dead inputs of sub-workflow steps make their producers dead, which may kill more
    dead_in = {}  # step name -> set of dead input names
    for _ in range(6):
        live = set()
        work = []
        for k, d in wf["outputs"].items():
            if live_outputs is None or k in live_outputs:
                work.extend(sources_of(d if isinstance(d, dict) else None))
        used = set(work)
        while work:
            s = work.pop()
            if "/" not in s:
                continue
            name = s.split("/")[0]
            if name in live or name not in wf["steps"]:
                continue
            live.add(name)
            for k, v in wf["steps"][name]["in"].items():
                if k in dead_in.get(name, ()):
                    continue
                srcs = sources_of(v)
                used.update(srcs)
                work.extend(srcs)
        new_dead_in = {}
        for n in live:
            st = wf["steps"][n]
            if _plain_subworkflow(st):
                inner_live = {o for o in st["out"] if f"{n}/{o}" in used}
                lp = (st.get("requirements") or {}).get("cwltool:Loop")
                if lp:
                    inner_live = set(st["out"])
                d = _dead_inputs(st, inner_live)
                if d:
                    new_dead_in[n] = d
        if new_dead_in == dead_in:
            break
        dead_in = new_dead_in
    dead = set(wf["steps"]) - live
    out.extend((path, "step", n) for n in sorted(dead))
    for n in sorted(live):
        st = wf["steps"][n]
        # `out` entries of a live step that nothing live reads
        lp = (st.get("requirements") or {}).get("cwltool:Loop")
        loop_needed = set()
        for v in ((lp or {}).get("loop") or {}).values():
            loop_needed.update(sources_of(v if isinstance(v, dict) else {"source": v}))
        for o in st["out"]:
            if f"{n}/{o}" not in used:
                out.append((path, "loopout" if o in loop_needed else "out", f"{n}/{o}"))
        if not _plain_subworkflow(st):
            continue
        inner_live = {o for o in st["out"] if f"{n}/{o}" in used}
        if (st.get("requirements") or {}).get("cwltool:Loop"):
            inner_live = set(st["out"])
        out.extend((f"{path}/{n}", "input", k) for k in sorted(dead_in.get(n, ())))
        out.extend(unconnected(st["run"], inner_live, f"{path}/{n}"))
    return out


def walk_workflows(wf, path=""):
    """yield (path, workflow dict) for the document and every inline nested workflow."""
    yield path, wf
    for name, st in wf.get("steps", {}).items():
        run = st.get("run")
        if isinstance(run, dict) and run.get("class") == "Workflow":
            yield from walk_workflows(run, f"{path}/{name}")


def doc_features(wf):
    """feature signature of a (possibly shrunk) document, derived from the document alone."""
    F = set()
    for path, w in walk_workflows(wf):
        if path:
            F.add("subworkflow")
        if any(len(set(lst)) != len(lst) for lst in source_lists(w)):
            F.add("repeated_source")
        if dangling_steps(w):
            F.add("dangling_step")
        if not path and any(x[1] in ("step", "output", "loopout") for x in unconnected(w)):
            F.add("unconnected_part")
        for d in w["outputs"].values():
            if isinstance(d, dict):
                n = len(d["outputSource"]) if isinstance(d.get("outputSource"), list) else 1
                if d.get("pickValue"):
                    F.add("out_pick_" + d["pickValue"] + ("_multi" if n > 1 else "_single"))
                if d.get("linkMerge"):
                    F.add("out_" + d["linkMerge"])
                elif n > 1:
                    F.add("out_merge_nested")
        for st in w["steps"].values():
            run = st.get("run")
            if isinstance(run, str):
                F.add("external_tool")
            elif isinstance(run, dict):
                F.add("run_" + run["class"])
            if "scatter" in st:
                n = len(st["scatter"]) if isinstance(st["scatter"], list) else 1
                F.add("scatter_" + st.get("scatterMethod", "single" if n == 1 else "dotproduct"))
            if "when" in st:
                F.add("when")
                if "scatter" in st:
                    F.add("when_scatter")
            lp = (st.get("requirements") or {}).get("cwltool:Loop")
            if lp:
                F.add("loop_" + lp.get("outputMethod", "last"))
                for v in lp.get("loop", {}).values():
                    if isinstance(v, dict) and "valueFrom" in v:
                        F.add("loop_valueFrom")
                    if isinstance(v, dict) and isinstance(v.get("loopSource"), list):
                        F.add("loop_multi_source")
            for v in st["in"].values():
                if isinstance(v, dict):
                    if "valueFrom" in v:
                        F.add("valueFrom")
                    if "default" in v:
                        F.add("default")
                    if v.get("pickValue"):
                        F.add("pick_" + v["pickValue"])
                    if v.get("linkMerge"):
                        F.add(v["linkMerge"])
                    elif isinstance(v.get("source"), list) and len(v["source"]) > 1:
                        F.add("merge_nested")
    return sorted(F)
