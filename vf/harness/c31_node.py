"""C31 oracle: instrumented evaluation of CWL expression segments with node.

`inputs` is a recording Proxy over the real input object: `get`, `has`, `getOwnPropertyDescriptor`
record the key (own keys only), `ownKeys` (for-in, Object.keys, JSON.stringify, returning the whole
object) means "all keys".  Each segment is evaluated exactly as cwl_utils' sandbox does:
`"use strict"; <expressionLib>; var inputs=…; var self=…; var runtime=…; (function()<body>)()`,
and the result is serialised (as the runner does), which also counts as reading.
Many expressions are evaluated per node process.
"""
from __future__ import annotations

import json
import os
import subprocess

NODE_JS = r"""
'use strict';
const fs = require('fs');
const job = JSON.parse(fs.readFileSync(process.argv[2], 'utf8'));
const out = [];
for (const c of job.cases) {
  const reads = new Set(); let all = false;
  const base = JSON.parse(job.base);
  const own = (p) => typeof p === 'string' && Object.prototype.hasOwnProperty.call(base, p);
  const inputs = new Proxy(base, {
    get(t, p, r) { if (own(p)) reads.add(p); return Reflect.get(t, p, r); },
    has(t, p) { if (own(p)) reads.add(p); return Reflect.has(t, p); },
    getOwnPropertyDescriptor(t, p) { if (own(p)) reads.add(p); return Reflect.getOwnPropertyDescriptor(t, p); },
    ownKeys(t) { all = true; return Reflect.ownKeys(t); },
  });
  let ok = true, err = null, val;
  try {
    for (const body of c.js) {
      const f = new Function('__inputs', '__self', '__runtime',
        '"use strict";\n' + c.lib + '\nvar inputs = __inputs; var self = __self; var runtime = __runtime;\n' +
        'return (function()' + body + ')()');
      val = f(inputs, null, {cores: 1, ram: 1024, outdir: '/out', tmpdir: '/tmp'});
      JSON.stringify(val === undefined ? null : val);
    }
  } catch (e) { ok = false; err = String(e).slice(0, 200); }
  out.push({ok, err, reads: Array.from(reads).sort(), all});
}
fs.writeFileSync(process.argv[3], JSON.stringify(out));
"""


def evaluate(scratch: str, base_json: str, cases: list[dict], timeout=300) -> list[dict]:
    """cases: [{"js": [function bodies], "lib": "<expressionLib source>"}] -> [{"ok","err","reads","all"}]"""
    os.makedirs(scratch, exist_ok=True)
    script = os.path.join(scratch, "c31_eval.js")
    if not os.path.exists(script):
        with open(script, "w") as f:
            f.write(NODE_JS)
    inp, outp = os.path.join(scratch, "c31_in.json"), os.path.join(scratch, "c31_out.json")
    with open(inp, "w") as f:
        json.dump({"base": base_json, "cases": cases}, f)
    if os.path.exists(outp):
        os.unlink(outp)
    r = subprocess.run(["node", script, inp, outp], capture_output=True, text=True, timeout=timeout)
    if r.returncode != 0 or not os.path.exists(outp):
        raise RuntimeError(f"node failed ({r.returncode}): {r.stderr[-800:]}")
    with open(outp) as f:
        res = json.load(f)
    if len(res) != len(cases):
        raise RuntimeError("node returned a different number of results")
    return res
