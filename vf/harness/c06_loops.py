"""C06 harness: engine loops wired exactly as `CWLTranslator._translate_workflow_step` wires them
(streamflow/cwl/translator.py: `_create_loop_condition` + "Process loop outputs"), and a direct
feeder for the real CWLLoopOutputLastStep / CWLLoopOutputAllStep.

Real classes: ForwardTransformer (input / output / back-propagation forwarders), LoopCombinator +
LoopCombinatorStep, CWLLoopConditionalStep (only `_eval` is replaced by a Python predicate so that
no JavaScript engine is needed; `_on_true` / `_on_false` / `run` are the real ones),
CWLLoopOutputLastStep / CWLLoopOutputAllStep, LoopTerminationCombinator + CombinatorStep,
ScatterStep / GatherStep around the loop, Deploy/Schedule/ExecuteStep bodies, StreamFlowExecutor.
Harness classes: the loop *body* (pure functions with seeded durations) and the sources.

Loop variables: i (counter), n (bound, not fed back: it re-circulates from the conditional's output
exactly like a CWL loop input without `loopSource`), acc (payload).  Condition `i < n`.
Body outputs: o_i = i + 1, o_acc = F(acc, i) (both fed back), o_aux = G(i, acc) (not fed back, produced
through a longer chain of steps so that the iteration-termination token can overtake the last value).
"""
from __future__ import annotations

import asyncio

from streamflow.core.config import BindingConfig
from streamflow.core.deployment import Target
from streamflow.core.utils import get_tag
from streamflow.core.workflow import Command, CommandOutput, Status, Token, Workflow
from streamflow.cwl.step import (
    CWLConditionalStep,
    CWLLoopConditionalStep,
    CWLLoopOutputAllStep,
    CWLLoopOutputLastStep,
)
from streamflow.cwl.transformer import ForwardTransformer
from streamflow.workflow.combinator import LoopCombinator, LoopTerminationCombinator
from streamflow.workflow.executor import StreamFlowExecutor
from streamflow.workflow.step import (
    CombinatorStep,
    DefaultCommandOutputProcessor,
    DeployStep,
    ExecuteStep,
    GatherStep,
    LoopCombinatorStep,
    ScatterStep,
    ScheduleStep,
    Transformer,
)
from streamflow.workflow.token import IterationTerminationToken, ListToken, TerminationToken

from vf.harness.c01_common import ExecPipelines, PutRecorder, data_tokens, fn_cls, from_token, to_token
from vf.perturb import Deadlock, Sched, WallTimeout, run_quiescent

OUTS = ("o_i", "o_acc", "o_aux")
FEEDBACK = {"i": "o_i", "acc": "o_acc"}


# ----------------------------------------------------------------------------- pure semantics
def aslist(x):
    return list(x) if isinstance(x, list) else [x]


def f_acc(kind, acc, i):
    if kind == "append":
        return aslist(acc) + [i]
    if kind == "str":
        return f"{acc if isinstance(acc, str) else ''}|{i}"
    if kind == "sum":
        return (acc if isinstance(acc, int) and not isinstance(acc, bool) else 0) + i
    return {"prev": acc if not isinstance(acc, dict) else acc.get("i"), "i": i}  # "obj"


def f_aux(i, acc):
    return {"sq": i * i, "seen": len(aslist(acc))}


def inner_count(spec, i):
    c = spec["inner"]["counts"]
    return c[i % len(c)]


def denote_loop(spec, i0, n, acc0):
    """-> list of per-iteration output dicts; for nested loops also the inner runs per iteration"""
    its, inner_runs = [], []
    i, acc = i0, acc0
    guard = 0
    while i < n:
        guard += 1
        assert guard < 1000
        if spec.get("inner"):
            sub = spec["inner"]
            m = inner_count(spec, i)
            sub_its, _ = denote_loop(sub, 0, m, acc)
            inner_runs.append(sub_its)
            o_acc = emitted(sub["method"], sub_its, "o_acc")
        else:
            o_acc = f_acc(spec["acc"], acc, i)
        it = {"o_i": i + 1, "o_acc": o_acc, "o_aux": f_aux(i, acc)}
        its.append(it)
        i, acc = it["o_i"], it["o_acc"]
    return its, inner_runs


def emitted(method, its, out):
    if method == "all":
        return [it[out] for it in its]
    return its[-1][out] if its else None


# ----------------------------------------------------------------------------- harness steps
class VfLoopWhen(CWLLoopConditionalStep):
    """real CWLLoopConditionalStep; only the JavaScript evaluation is replaced by `i < n`"""

    async def _eval(self, inputs):
        await Sched.jitter(2)
        return from_token(inputs["i"]) < from_token(inputs["n"])


class VfPreWhen(CWLConditionalStep):
    """real CWLConditionalStep (`when` of a step upstream of the loop); the JavaScript evaluation is
    replaced by a predicate on the instance tag: mode all_false -> never, mixed -> last tag component even"""

    mode = "all_false"

    async def _eval(self, inputs):
        await Sched.jitter(2)
        if self.mode == "all_false":
            return False
        return pre_when_true(self.mode, next(iter(inputs.values())).tag)


class VfPreWhenMixed(VfPreWhen):
    mode = "mixed"


def pre_when_true(mode, tag):
    if mode == "all_false":
        return False
    return int(tag.split(".")[-1]) % 2 == 0


class VfBody(Transformer):
    outs = ()  # ((port, fname), ...)
    kmax = 4
    acc_kind = "append"
    spec = None

    async def transform(self, inputs):
        Sched.inflight += 1
        try:
            await Sched.jitter(self.kmax)
        finally:
            Sched.inflight -= 1
        st = {k: from_token(t) for k, t in inputs.items()}
        tag = next(iter(inputs.values())).tag
        res = {}
        for port, fname in self.outs:
            res[port] = to_token(body_fn(fname, st, self), tag)
        return res


def body_fn(fname, st, owner):
    if fname == "next_i":
        return st["i"] + 1
    if fname == "acc":
        return f_acc(owner.acc_kind, st["acc"], st["i"])
    if fname == "aux":
        return f_aux(st["i"], st["acc"])
    if fname == "zero":
        return 0
    if fname == "inner_n":
        return inner_count(owner.spec, st["i"])
    raise KeyError(fname)


_cls_cache = {}


def body_cls(outs, kmax, acc_kind="append", spec=None):
    key = (tuple(outs), kmax, acc_kind, id(spec) if spec else None)
    if key not in _cls_cache:
        _cls_cache[key] = type("VfBody_" + "_".join(o for o, _ in outs), (VfBody,),
                               {"outs": tuple(outs), "kmax": kmax, "acc_kind": acc_kind, "spec": spec})
    return _cls_cache[key]


class VfBodyCmd(Command):
    def __init__(self, step, acc_kind, kmax=10):
        super().__init__(step)
        self.acc_kind = acc_kind
        self.kmax = kmax

    async def execute(self, job):
        Sched.inflight += 1
        try:
            await Sched.jitter(self.kmax)
        finally:
            Sched.inflight -= 1
        st = {k: from_token(t) for k, t in job.inputs.items()}
        return CommandOutput({"o_i": st["i"] + 1, "o_acc": f_acc(self.acc_kind, st["acc"], st["i"])}, Status.COMPLETED)


class VfKeyOutProc(DefaultCommandOutputProcessor):
    async def process(self, job, command_output, connector=None, recoverable=False):
        return to_token((await command_output).value[self.name], get_tag(job.inputs.values()))


# ----------------------------------------------------------------------------- builder
class LoopHandles:
    def __init__(self):
        self.F = {}  # (loop path, out) -> loop output port
        self.D = {}  # (loop path, out) -> input port of the loop output step
        self.specs = {}  # loop path -> spec
        self.A = {}  # (loop path, var) -> input port of the loop combinator step
        self.pre_out = None


def build_loop(wf, step_name, inputs, spec, pipes, handles, rec):
    """inputs: {"i": Port, "n": Port, "acc": Port} (external).  Returns {out: Port} (external outputs)."""
    when_cls = VfLoopWhen
    out_cls = CWLLoopOutputLastStep if spec["method"] == "last" else CWLLoopOutputAllStep
    # --- _create_loop_condition ------------------------------------------------
    comb = LoopCombinator(workflow=wf, name=step_name + "-loop-combinator")
    A = {}
    for v, p in inputs.items():
        fw = wf.create_step(cls=ForwardTransformer, name=f"{step_name}/{v}-input-forward-transformer")
        fw.add_input_port(v, p)
        A[v] = wf.create_port()
        fw.add_output_port(v, A[v])
        comb.add_item(v)
    cstep = wf.create_step(cls=LoopCombinatorStep, name=step_name + "-loop-combinator", combinator=comb)
    for v in inputs:
        cstep.add_input_port(v, A[v])
        cstep.add_output_port(v, wf.create_port())
        handles.A[(step_name, v)] = A[v]
    when = wf.create_step(cls=when_cls, name=step_name + "-loop-when", expression="$(inputs.i < inputs.n)")
    C = {}
    for v in inputs:
        when.add_input_port(v, cstep.get_output_port(v))
        C[v] = wf.create_port()
        when.add_output_port(v, C[v])
    # --- body --------------------------------------------------------------------
    E = {o: wf.create_port() for o in OUTS}
    kind = spec["body"]
    if spec.get("inner"):
        main = wf.create_step(cls=body_cls([("o_i", "next_i")], 3), name=f"{step_name}/body-main")
        for v in ("i", "n", "acc"):
            main.add_input_port(v, C[v])
        main.add_output_port("o_i", E["o_i"])
        prep = wf.create_step(cls=body_cls([("j0", "zero"), ("m", "inner_n")], 2, spec=spec),
                              name=f"{step_name}/body-inner-prep")
        for v in ("i", "n", "acc"):
            prep.add_input_port(v, C[v])
        j0, m = wf.create_port(), wf.create_port()
        prep.add_output_port("j0", j0)
        prep.add_output_port("m", m)
        inner_out = build_loop(wf, f"{step_name}/inner", {"i": j0, "n": m, "acc": C["acc"]}, spec["inner"],
                               pipes, handles, rec)
        # the inner loop's o_acc output IS the outer body's o_acc
        fw = wf.create_step(cls=ForwardTransformer, name=f"{step_name}/body-inner-result")
        fw.add_input_port("o_acc", inner_out["o_acc"])
        fw.add_output_port("o_acc", E["o_acc"])
    elif kind == "exec":
        if pipes.deploy is None:
            pipes.deploy = wf.create_step(cls=DeployStep, name="/__deploy__/local", deployment_config=pipes.dc)
        ss = wf.create_step(cls=ScheduleStep, name=f"{step_name}/body/__schedule__", job_prefix=f"{step_name}/body",
                            connector_ports={pipes.dc.name: pipes.deploy.get_output_port()},
                            binding_config=BindingConfig(targets=[Target(deployment=pipes.dc, workdir=pipes.workdir)]))
        ex = wf.create_step(cls=ExecuteStep, name=f"{step_name}/body", job_port=ss.get_output_port())
        ex.command = VfBodyCmd(ex, spec["acc"])
        for v in ("i", "acc"):
            ss.add_input_port(v, C[v])
            ex.add_input_port(v, C[v])
        ex.add_output_port("o_i", E["o_i"], VfKeyOutProc("o_i", wf))
        ex.add_output_port("o_acc", E["o_acc"], VfKeyOutProc("o_acc", wf))
    else:
        main = wf.create_step(cls=body_cls([("o_i", "next_i"), ("o_acc", "acc")], 4, spec["acc"]),
                              name=f"{step_name}/body-main")
        for v in ("i", "n", "acc"):
            main.add_input_port(v, C[v])
        main.add_output_port("o_i", E["o_i"])
        main.add_output_port("o_acc", E["o_acc"])
    # slow side output: a chain of `aux_k` extra forwarding hops, longer than the loop's own round trip,
    # so that the conditional's IterationTerminationToken reaches the o_aux loop-output step before
    # the last value(s) do
    aux = wf.create_step(cls=body_cls([("o_aux", "aux")], 6), name=f"{step_name}/body-aux")
    for v in ("i", "acc"):
        aux.add_input_port(v, C[v])
    cur = wf.create_port() if spec.get("aux_k", 0) else E["o_aux"]
    aux.add_output_port("o_aux", cur)
    for h in range(spec.get("aux_k", 0)):
        fw = wf.create_step(cls=ForwardTransformer, name=f"{step_name}/body-aux-hop{h}")
        fw.add_input_port("o_aux", cur)
        cur = wf.create_port() if h < spec["aux_k"] - 1 else E["o_aux"]
        fw.add_output_port("o_aux", cur)
    # --- "Process loop outputs" ----------------------------------------------------
    tcomb = LoopTerminationCombinator(workflow=wf, name=step_name + "-loop-termination-combinator")
    tstep = wf.create_step(cls=CombinatorStep, name=step_name + "-loop-terminator", combinator=tcomb)
    for v, port in cstep.get_input_ports().items():
        tstep.add_output_port(v, port)
        tcomb.add_output_item(v)
    D, F = {}, {}
    for o in OUTS:
        fw = wf.create_step(cls=ForwardTransformer, name=f"{step_name}/{o}-output-forward-transformer")
        fw.add_input_port(o, E[o])
        D[o] = wf.create_port()
        fw.add_output_port(o, D[o])
        lo = wf.create_step(cls=out_cls, name=f"{step_name}/{o}-loop-output")
        lo.add_input_port(o, D[o])
        when.add_skip_port(o, D[o])
        F[o] = wf.create_port()
        lo.add_output_port(o, F[o])
        tstep.add_input_port(o, F[o])
        tcomb.add_item(o)
        handles.F[(step_name, o)] = F[o]
        handles.D[(step_name, o)] = D[o]
        rec.watch(D[o], f"{step_name}:{o}:in")
        rec.watch(F[o], f"{step_name}:{o}:out")
    handles.specs[step_name] = spec
    # --- "Connect loop outputs to loop inputs" ---------------------------------------
    for v in inputs:
        fw = wf.create_step(cls=ForwardTransformer, name=f"{step_name}/{v}-back-propagation-transformer")
        fw.add_input_port(v, D[FEEDBACK[v]] if v in FEEDBACK else C[v])
        fw.add_output_port(v, cstep.get_input_port(v))
    return F


def build_program(ctx, case, workdir):
    """case = {"spec": loop spec, "instances": [[tag, i0, n, acc0], ...], "scatter": bool}"""
    wf = Workflow(context=ctx, config={}, name="c06e")
    rec = PutRecorder()
    handles = LoopHandles()
    pipes = ExecPipelines(wf, workdir)
    src = {v: wf.create_port() for v in ("i", "n", "acc")}
    inputs = dict(src)
    size_port = None
    if case["scatter"]:
        for v in ("i", "n", "acc"):
            sc = wf.create_step(cls=ScatterStep, name=f"/{v}-scatter")
            sc.add_input_port(v, src[v])
            inputs[v] = wf.create_port()
            sc.add_output_port(v, inputs[v])
            size_port = size_port or sc.get_size_port()
    if case.get("pre_when"):
        # `acc` comes from an upstream step with a `when` clause, wired as the translator wires it:
        # CWLConditionalStep -> body -> "-output-forward-transformer" whose output port is also the
        # conditional's skip port (a false condition puts a null token there)
        cond = wf.create_step(cls=VfPreWhen if case["pre_when"] == "all_false" else VfPreWhenMixed,
                              name="/pre-when", expression="$(false)")
        cond.add_input_port("acc", inputs["acc"])
        c_out = wf.create_port()
        cond.add_output_port("acc", c_out)
        body = wf.create_step(cls=fn_cls("id", 3), name="/pre")
        body.add_input_port("acc", c_out)
        q = wf.create_port()
        body.add_output_port("acc", q)
        fw = wf.create_step(cls=ForwardTransformer, name="/pre/acc-output-forward-transformer")
        fw.add_input_port("acc", q)
        p_out = wf.create_port()
        fw.add_output_port("acc", p_out)
        cond.add_skip_port("acc", p_out)
        inputs["acc"] = p_out
        rec.watch(p_out, "pre:out")
        handles.pre_out = p_out
    F = build_loop(wf, "/loop", inputs, case["spec"], pipes, handles, rec)
    gathered = {}
    if case["scatter"]:
        for o in OUTS:
            g = wf.create_step(cls=GatherStep, name=f"/{o}-gather", size_port=size_port)
            g.add_input_port(o, F[o])
            gathered[o] = wf.create_port()
            g.add_output_port(o, gathered[o])
    return wf, src, handles, gathered, rec


def observe_port(port):
    out = []
    for t in port.token_list:
        if isinstance(t, TerminationToken):
            out.append({"term": t.value.name})
        elif isinstance(t, IterationTerminationToken):
            out.append({"iterterm": t.tag})
        elif isinstance(t, ListToken):
            out.append({"tag": t.tag, "value": from_token(t), "etags": [e.tag for e in t.value], "list": True})
        else:
            out.append({"tag": t.tag, "value": from_token(t), "list": False})
    return out


async def run_program(ctx, case, workdir, sched_seed, wall=60.0, K=3):
    wf, src, handles, gathered, rec = build_program(ctx, case, workdir)
    await wf.save(ctx.database)
    Sched.reset(sched_seed, K)
    inst = case["instances"]
    if case["scatter"]:
        for v, col in (("i", 1), ("n", 2), ("acc", 3)):
            t = to_token([x[col] for x in inst], "0")
            await t.save(ctx.database, src[v].persistent_id)
            src[v].put(t)
            src[v].put(TerminationToken())
    else:
        for v, col in (("i", 1), ("n", 2), ("acc", 3)):
            for x in inst:
                t = to_token(x[col], x[0])
                await t.save(ctx.database, src[v].persistent_id)
                src[v].put(t)
            src[v].put(TerminationToken())
    ex = StreamFlowExecutor(wf)
    err = None
    deadlock = None
    try:
        await run_quiescent(ex.run(), wall_timeout=wall)
    except WallTimeout:
        raise
    except Deadlock as e:  # the ports still hold everything that was emitted before the loop stalled
        deadlock = e.stacks[:10]
    except Exception as e:
        err = f"{type(e).__name__}: {e}"
    return {
        "err": err,
        "deadlock": deadlock,
        "F": {f"{k[0]}|{k[1]}": observe_port(p) for k, p in handles.F.items()},
        "D": {f"{k[0]}|{k[1]}": [("I:" + t.tag) if isinstance(t, IterationTerminationToken) else t.tag
                                 for t in data_tokens(p)] for k, p in handles.D.items()},
        "gathered": {o: observe_port(p) for o, p in gathered.items()},
        "A": {f"{k[0]}|{k[1]}": [("T:" + t.value.name) if isinstance(t, TerminationToken) else
                                 (("I:" + t.tag) if isinstance(t, IterationTerminationToken) else t.tag)
                                 for t in p.token_list] for k, p in handles.A.items()},
        "pre_out": observe_port(handles.pre_out) if handles.pre_out is not None else None,
        "statuses": {s.name: s.status.name for s in wf.steps.values()},
        "unterminated": [s.name for s in wf.steps.values() if not s.terminated],
        "trace": rec.digest(),
    }


# ----------------------------------------------------------------------------- direct path
async def run_direct(ctx, case, wall=60.0):
    """case = {"method": "last"|"all", "events": [["v", tag, value] | ["it", tag] | ["T"] | ["y", k]]}
    A real CWLLoopOutput{Last,All}Step is fed the events in the given order."""
    wf = Workflow(context=ctx, config={}, name="c06d")
    pin, pout = wf.create_port(), wf.create_port()
    cls = CWLLoopOutputLastStep if case["method"] == "last" else CWLLoopOutputAllStep
    st = wf.create_step(cls=cls, name="/lo")
    st.add_input_port("x", pin)
    st.add_output_port("x", pout)
    await wf.save(ctx.database)

    async def feed_and_run():
        run = asyncio.create_task(st.run())
        for ev in case["events"]:
            if ev[0] == "v":
                t = to_token(ev[2], ev[1])
                await t.save(ctx.database, pin.persistent_id)
                pin.put(t)
            elif ev[0] == "it":
                pin.put(IterationTerminationToken(tag=ev[1]))
            elif ev[0] == "T":
                pin.put(TerminationToken())
            else:
                for _ in range(ev[1]):
                    await asyncio.sleep(0)
            Sched.events += 1
        await run

    await run_quiescent(feed_and_run(), wall_timeout=wall)
    return {"out": observe_port(pout), "status": st.status.name, "terminated": st.terminated}
