"""Harness pieces shared by C01 (scatter/gather) and C06 (loops): value<->token conversion,
element-wise harness steps with jittered durations, a local execute pipeline, port recorders.

Everything that decides a property is the REAL engine class (ScatterStep, GatherStep,
LoopCombinatorStep, CWLLoopOutput*Step, CombinatorStep, ForwardTransformer, ExecuteStep,
ScheduleStep, StreamFlowExecutor ...).  The classes defined here are only the *workload*:
sources, element-wise functions and commands whose duration is a seeded number of loop turns.
"""
from __future__ import annotations

import asyncio
import hashlib
import json
import posixpath

from streamflow.core.config import BindingConfig
from streamflow.core.deployment import DeploymentConfig, Target
from streamflow.core.utils import get_entity_ids, get_tag
from streamflow.core.workflow import Command, CommandOutput, Status, Token
from streamflow.workflow.step import (
    BaseStep,
    DefaultCommandOutputProcessor,
    DeployStep,
    ExecuteStep,
    ScheduleStep,
    Transformer,
)
from streamflow.workflow.token import ListToken, ObjectToken, TerminationToken

from vf.perturb import Sched


# ----------------------------------------------------------------------------- values
def to_token(v, tag):
    """plain value -> token tree (list -> ListToken, dict -> ObjectToken); inner tokens carry `tag`."""
    if isinstance(v, list):
        return ListToken(value=[to_token(e, tag) for e in v], tag=tag)
    if isinstance(v, dict):
        return ObjectToken(value={k: to_token(e, tag) for k, e in v.items()}, tag=tag)
    return Token(value=v, tag=tag)


def from_token(t):
    if isinstance(t, ListToken):
        return [from_token(e) for e in t.value]
    if isinstance(t, ObjectToken):
        return {k: from_token(e) for k, e in t.value.items()}
    return t.value


def tag_key(t: str):
    return tuple(int(x) for x in t.split("."))


def _inc(x):
    if isinstance(x, bool):
        return x
    if isinstance(x, int):
        return x + 1
    if isinstance(x, str):
        return x + "'"
    if isinstance(x, list):
        return [_inc(e) for e in x]
    if isinstance(x, dict):
        return {k: _inc(e) for k, e in x.items()}
    return x


# element-wise functions (pure, total on every generated value)
FUNCS = {
    "id": lambda x: x,
    "inc": _inc,
    "wrap": lambda x: {"v": x},
    "pair": lambda x: [x, x],
    "str": lambda x: json.dumps(x, sort_keys=True),
}
# list-level functions usable between two gathers (list -> value)
LIST_FUNCS = {
    "id": lambda xs: xs,
    "rev": lambda xs: list(reversed(xs)),
    "len": lambda xs: len(xs),
    "tail": lambda xs: xs[1:],
}
ALL_FUNCS = dict(FUNCS, **{"L" + k: v for k, v in LIST_FUNCS.items()})


def apply_fn(name, x):
    return ALL_FUNCS[name](x)


# ----------------------------------------------------------------------------- steps
class VfFn(Transformer):
    """Element-wise harness transformer: one input port, one output port, jittered duration."""

    fname = "id"
    kmax = 5

    async def transform(self, inputs):
        Sched.inflight += 1
        try:
            await Sched.jitter(self.kmax)
        finally:
            Sched.inflight -= 1
        tok = next(iter(inputs.values()))
        return {next(iter(self.output_ports)): to_token(apply_fn(self.fname, from_token(tok)), tok.tag)}


_fn_cache: dict = {}


def fn_cls(name, kmax=5):
    k = (name, kmax)
    if k not in _fn_cache:
        _fn_cache[k] = type(f"VfFn_{name}_{kmax}", (VfFn,), {"fname": name, "kmax": kmax})
    return _fn_cache[k]


class VfShuffler(BaseStep):
    """Re-emits the tokens it receives in a seeded permutation, `window` tokens at a time
    (window 0 = hold everything until the input terminates).  Models an element-wise stage whose
    per-element completion order is arbitrary (parallel jobs), cf. DESIGN 2.3(3)."""

    def __init__(self, name, workflow, window=0):
        super().__init__(name, workflow)
        self.window = window

    async def _flush(self, buf):
        Sched.rng.shuffle(buf)
        out = self.get_output_port()
        for t in buf:
            await Sched.jitter(2)
            out.put(await self._persist_token(token=t.update(t.value), port=out,
                                              input_token_ids=get_entity_ids([t])))
        buf.clear()

    async def run(self):
        port = self.get_input_port()
        name = posixpath.join(self.name, next(iter(self.input_ports)))
        buf = []
        while True:
            t = await port.get(name)
            if isinstance(t, TerminationToken):
                status = t.value
                break
            buf.append(t)
            if self.window and len(buf) >= self.window:
                await self._flush(buf)
        if status == Status.COMPLETED or status == Status.SKIPPED:
            await self._flush(buf)
        await self.terminate(self._get_status(status))


class VfCmd(Command):
    """Harness command: the 'job' takes a seeded number of loop turns (external completion)."""

    def __init__(self, step, fname, kmax=12):
        super().__init__(step)
        self.fname = fname
        self.kmax = kmax

    async def execute(self, job):
        Sched.inflight += 1
        try:
            await Sched.jitter(self.kmax)
        finally:
            Sched.inflight -= 1
        vals = [from_token(job.inputs[k]) for k in sorted(job.inputs)]
        return CommandOutput(apply_fn(self.fname, vals[0]), Status.COMPLETED)


class VfOutProc(DefaultCommandOutputProcessor):
    async def process(self, job, command_output, connector=None, recoverable=False):
        return to_token((await command_output).value, get_tag(job.inputs.values()))


class ExecPipelines:
    """DeployStep -> ScheduleStep -> ExecuteStep on the local deployment (one DeployStep per workflow)."""

    def __init__(self, wf, workdir):
        self.wf = wf
        self.workdir = workdir
        self.dc = DeploymentConfig(name="__LOCAL__", type="local", config={}, external=True, lazy=False,
                                   workdir=workdir)
        self.deploy = None

    def add(self, name, in_port, out_port, fname, kmax=12):
        wf = self.wf
        if self.deploy is None:
            self.deploy = wf.create_step(cls=DeployStep, name="/__deploy__/local", deployment_config=self.dc)
        ss = wf.create_step(
            cls=ScheduleStep, name=f"{name}/__schedule__", job_prefix=name,
            connector_ports={self.dc.name: self.deploy.get_output_port()},
            binding_config=BindingConfig(targets=[Target(deployment=self.dc, workdir=self.workdir)]))
        ss.add_input_port("a", in_port)
        ex = wf.create_step(cls=ExecuteStep, name=name, job_port=ss.get_output_port())
        ex.command = VfCmd(ex, fname, kmax)
        ex.add_input_port("a", in_port)
        ex.add_output_port("o", out_port, VfOutProc("o", wf))
        return ex


# ----------------------------------------------------------------------------- observation
class PutRecorder:
    """Records (label, tag|'T') for every token put on the watched ports, in global put order.
    Installed per *instance* (port.put is rebound on the object), nothing global is patched."""

    def __init__(self):
        self.trace = []

    def watch(self, port, label):
        orig = port.put
        trace = self.trace

        def put(token, _orig=orig, _label=label):
            trace.append((_label, "T" if isinstance(token, TerminationToken) else
                          ("I:" + token.tag if type(token).__name__ == "IterationTerminationToken" else token.tag)))
            Sched.events += 1
            return _orig(token)

        port.put = put

    def digest(self):
        return hashlib.sha256(json.dumps(self.trace).encode()).hexdigest()[:12]


def data_tokens(port):
    return [t for t in port.token_list if not isinstance(t, TerminationToken)]


def n_terminations(port):
    return sum(1 for t in port.token_list if isinstance(t, TerminationToken))


async def inject(ctx, port, tokens, terminate=True):
    for t in tokens:
        await t.save(ctx.database, port.persistent_id)
        port.put(t)
    if terminate:
        port.put(TerminationToken())


