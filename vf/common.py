"""Shared machinery: seeding, shard bookkeeping, verdicts, evidence, known findings.

Every check module `vf.checks.cNN` exposes

    PROPERTY = "CNN"
    def plan(tier) -> dict            # see DEFAULT_PLAN
    def run_shard(sh: Shard) -> None  # generate cases, run them, feed the Shard
    def replay(sh: Shard, witness: dict) -> None   # re-run one recorded case

Cases are JSON-serialisable dicts so that a witness can be replayed verbatim.
"""
from __future__ import annotations

import contextlib
import gc
import hashlib
import json
import os
import random
import signal
import sys
import time
import traceback
from typing import Any

VERIF_ROOT = os.path.dirname(os.path.dirname(os.path.abspath(__file__)))
DEPS = os.path.join(VERIF_ROOT, ".deps")
if os.path.isdir(DEPS) and DEPS not in sys.path:
    # appended (not prepended): /venv's own packages must win over transitive
    # dependencies pulled in beside icontract/deal.
    sys.path.append(DEPS)

DEFAULT_PLAN = {
    "level": "exploration",
    "shards": 16,
    "timeout_s": 900,  # wall-clock watchdog per shard (=> inconclusive, never a violation)
    "budget_s": 90,  # soft budget per shard: generators stop issuing new cases after it
    "jail": False,  # run workers inside a read-only mount namespace (hostile strings)
    "min_nontrivial": 2,  # fewer distinct non-trivial cases than this => inconclusive
    "required_counters": [],  # monitor evaluation counters that must be > 0
    "rule": "",
    "assumptions": [],
}

MAX_HASHES_PER_SHARD = 150_000
MAX_WITNESSES_PER_SHARD = 40


def digest(obj: Any, n: int = 16) -> str:
    return hashlib.sha256(
        json.dumps(obj, sort_keys=True, default=repr).encode()
    ).hexdigest()[:n]


def rng_for(*salt: Any) -> random.Random:
    h = hashlib.sha256(json.dumps(salt, default=repr).encode()).digest()
    return random.Random(int.from_bytes(h[:8], "big"))


class CaseTimeout(BaseException):
    """Raised by the SIGALRM handler armed by Shard.alarm (busy loops that never yield)."""


def jsonable(o: Any, depth: int = 0) -> Any:
    if depth > 12:
        return repr(o)[:200]
    if isinstance(o, (str, int, float, bool)) or o is None:
        return o
    if isinstance(o, bytes):
        return {"bytes_b16": o[:256].hex(), "len": len(o)}
    if isinstance(o, dict):
        return {str(k): jsonable(v, depth + 1) for k, v in o.items()}
    if isinstance(o, (list, tuple, set, frozenset)):
        seq = list(o)
        if isinstance(o, (set, frozenset)):
            seq = sorted(seq, key=repr)
        return [jsonable(v, depth + 1) for v in seq]
    return repr(o)[:500]


class Shard:
    """Per-worker accumulator.  Only counts what the machinery measured."""

    def __init__(self, prop, shard, nshards, tier, seed, scratch, plan=None):
        self.prop = prop
        self.shard = shard
        self.nshards = nshards
        self.tier = tier
        self.seed = seed
        self.scratch = scratch
        self.plan = dict(DEFAULT_PLAN, **(plan or {}))
        self.t0 = time.time()
        self.evaluations = 0
        self.hashes: set[str] = set()
        self.nontrivial_overflow = 0
        self.samples: list[Any] = []
        self.violations: list[dict] = []
        self.violation_counts: dict[str, int] = {}
        self.counters: dict[str, int] = {}
        self.inconclusive: list[str] = []
        self.extra: dict[str, Any] = {}
        self.replaying = False

    # -- randomness / sharding -------------------------------------------------
    def rng(self, *salt: Any) -> random.Random:
        return rng_for(self.prop, self.seed, *salt)

    def mine(self, idx: int) -> bool:
        return idx % self.nshards == self.shard

    def quick(self) -> bool:
        return self.tier == "quick"

    def pick(self, quick: Any, thorough: Any) -> Any:
        return quick if self.tier == "quick" else thorough

    def time_left(self) -> float:
        return self.plan["budget_s"] - (time.time() - self.t0)

    def out_of_budget(self) -> bool:
        return (not self.replaying) and self.time_left() <= 0

    # -- bookkeeping -----------------------------------------------------------
    def case(self, key: Any = None, nontrivial: bool = True, n: int = 1) -> None:
        """One execution judged by the oracle.  `key` identifies the *distinct* case."""
        self.evaluations += n
        self._maybe_gc()
        if nontrivial and key is not None:
            if len(self.hashes) < MAX_HASHES_PER_SHARD:
                self.hashes.add(digest(key, 12))
            else:
                self.nontrivial_overflow += 1

    def _maybe_gc(self) -> None:
        """The worker runs with the cyclic GC disabled and collects here, between cases, from
        harness code: cachebox 6.2.0 (pinned dependency of StreamFlow) self-deadlocks when a full
        collection starts while its Rust core holds the cache mutex (inside `setdefault_with`
        called by the async cached getters of SqliteDatabase) - the process then sleeps in a futex
        forever.  Collecting only at case boundaries keeps the workers alive; the hazard itself is
        recorded in DESIGN.md (third-party, outside the 34 properties)."""
        now = time.time()
        if now - getattr(self, "_last_gc", 0.0) > 2.0:
            self._last_gc = now
            if not gc.isenabled():
                gc.collect()

    def sample(self, obj: Any, limit: int = 3) -> None:
        if len(self.samples) < limit:
            self.samples.append(jsonable(obj))

    def count(self, name: str, n: int = 1) -> None:
        self.counters[name] = self.counters.get(name, 0) + n

    def note(self, key: str, value: Any) -> None:
        self.extra[key] = jsonable(value)

    def violation(self, mechanism: str | None, what: str, witness: dict) -> None:
        """A refutation of the property.  `mechanism` is the label given by the
        check's own classifier (explicit predicate over the witness) or None when
        no predicate matched; only labels listed *open* in known_findings.json
        are reported as KNOWN-FINDING, everything else is a VIOLATION."""
        k = mechanism or "unclassified"
        self.violation_counts[k] = self.violation_counts.get(k, 0) + 1
        per = sum(1 for v in self.violations if (v["mechanism"] or "unclassified") == k)
        # labelled (possibly known) mechanisms may never crowd out an unclassified witness
        labelled = sum(1 for v in self.violations if v["mechanism"])
        if (mechanism is None and per < 8) or (
            mechanism is not None and per < 3 and labelled < MAX_WITNESSES_PER_SHARD
        ):
            self.violations.append(
                {
                    "mechanism": mechanism,
                    "what": what[:2000],
                    "witness": jsonable(
                        dict(
                            witness,
                            _property=self.prop,
                            _seed=self.seed,
                            _tier=self.tier,
                            _shard=self.shard,
                            _nshards=self.nshards,
                            _pythonhashseed=os.environ.get("PYTHONHASHSEED"),
                        )
                    ),
                }
            )

    def inconclusive_because(self, reason: str) -> None:
        if len(self.inconclusive) < 20:
            self.inconclusive.append(reason[:1000])

    @contextlib.contextmanager
    def alarm(self, seconds: float):
        """Per-case guard for code that may spin without yielding to the loop."""

        def handler(signum, frame):
            raise CaseTimeout("".join(traceback.format_stack(frame, limit=12)))

        old = signal.signal(signal.SIGALRM, handler)
        signal.setitimer(signal.ITIMER_REAL, seconds)
        try:
            yield
        finally:
            signal.setitimer(signal.ITIMER_REAL, 0)
            signal.signal(signal.SIGALRM, old)

    def result(self) -> dict:
        return {
            "shard": self.shard,
            "evaluations": self.evaluations,
            "hashes": sorted(self.hashes),
            "nontrivial_overflow": self.nontrivial_overflow,
            "samples": self.samples,
            "violations": self.violations,
            "violation_counts": self.violation_counts,
            "counters": self.counters,
            "inconclusive": self.inconclusive,
            "extra": self.extra,
            "wall_s": round(time.time() - self.t0, 3),
        }


def load_known_findings() -> list[dict]:
    p = os.path.join(VERIF_ROOT, "known_findings.json")
    with open(p) as f:
        out = list(json.load(f)["findings"])
    frag = os.path.join(VERIF_ROOT, "known_findings.d")
    if os.path.isdir(frag):  # per-property fragments (merged into known_findings.json by tools/merge_findings.py)
        for n in sorted(os.listdir(frag)):
            if n.endswith(".json"):
                with open(os.path.join(frag, n)) as f:
                    out.extend(json.load(f)["findings"])
    return out


def short_tb(e: BaseException, limit: int = 8) -> str:
    return "".join(traceback.format_exception(type(e), e, e.__traceback__, limit=-limit))[-3000:]
