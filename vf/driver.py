"""./check driver: shards a check over worker subprocesses, merges what the monitors
observed, classifies refutations against known_findings.json, writes evidence and
prints the verdict (exit 0 held / 1 violated / 2 inconclusive)."""
from __future__ import annotations

import argparse
import concurrent.futures as cf
import importlib
import json
import os
import shutil
import subprocess
import sys
import time

from vf.common import DEFAULT_PLAN, VERIF_ROOT, digest, load_known_findings

PY = sys.executable
JAIL = (
    'mount --make-rprivate / && mount --bind "$0" "$0" && '
    'mount -o remount,ro,bind / && exec "$@"'
)


def _jail_available() -> bool:
    try:
        r = subprocess.run(
            ["unshare", "-m", "--", "sh", "-c", "mount --make-rprivate / && true"],
            capture_output=True,
            timeout=20,
        )
        return r.returncode == 0
    except Exception:
        return False


def run_worker(prop, shard, nshards, tier, seed, scratch_root, plan, replay=None, jail=False, timeout=None):
    scratch = os.path.join(scratch_root, f"s{shard}")
    shutil.rmtree(scratch, ignore_errors=True)
    os.makedirs(scratch, exist_ok=True)
    out = os.path.join(scratch, "result.json")
    cmd = [PY, "-m", "vf.worker", prop, "--shard", str(shard), "--nshards", str(nshards),
           "--tier", tier, "--seed", str(seed), "--scratch", scratch, "--out", out]
    if replay:
        cmd += ["--replay", replay]
    if jail:
        cmd = ["unshare", "-m", "--", "sh", "-c", JAIL, scratch] + cmd
    env = dict(os.environ)
    env["PYTHONHASHSEED"] = str((seed * 1000003 + shard * 7919 + 1) % 4294967295)
    env["STREAMFLOW_VERIF"] = "1"
    env["VF_SHARD_BUDGET_S"] = str(plan["budget_s"])
    t0 = time.time()
    status = "ok"
    stderr_tail = ""
    try:
        r = subprocess.run(cmd, env=env, cwd=VERIF_ROOT, stdout=subprocess.PIPE, stderr=subprocess.PIPE,
                           timeout=timeout or plan["timeout_s"], start_new_session=True)
        stderr_tail = r.stderr.decode(errors="replace")[-3000:]
        if r.returncode != 0:
            status = f"exit {r.returncode}"
    except subprocess.TimeoutExpired as e:
        status = "timeout"
        stderr_tail = (e.stderr or b"").decode(errors="replace")[-3000:]
        subprocess.run(["pkill", "-9", "-f", scratch], capture_output=True)
    res = None
    if os.path.exists(out):
        try:
            with open(out) as f:
                res = json.load(f)
        except Exception:
            res = None
    fh_log = ""
    try:
        with open(os.path.join(scratch, "faulthandler.log")) as f:
            fh_log = f.read()[-4000:]
    except OSError:
        pass
    shutil.rmtree(scratch, ignore_errors=True)
    return {"shard": shard, "status": status, "result": res, "stderr": stderr_tail,
            "faulthandler": fh_log, "wall_s": time.time() - t0}


def main(argv=None) -> int:
    ap = argparse.ArgumentParser()
    ap.add_argument("prop")
    ap.add_argument("--tier", default=os.environ.get("VERIF_TIER", "quick"), choices=["quick", "thorough"])
    ap.add_argument("--replay")
    ap.add_argument("--shards", type=int)
    ap.add_argument("--only-shard", type=int)
    ap.add_argument("--no-evidence", action="store_true")
    a = ap.parse_args(argv)
    prop = a.prop.upper()
    seed = int(os.environ.get("VERIF_SEED", "0") or 0)
    t0 = time.time()
    mod = importlib.import_module("vf.checks." + prop.lower())
    plan = dict(DEFAULT_PLAN, **mod.plan(a.tier))
    nshards = a.shards or min(plan["shards"], os.cpu_count() or 1)
    scratch_root = os.environ.get("VERIF_TMP") or f"/var/tmp/vf-{os.getpid()}"
    scratch_root = os.path.join(scratch_root, prop)
    os.makedirs(scratch_root, exist_ok=True)
    jail = bool(plan["jail"]) and _jail_available()

    try:
        if a.replay:
            outs = [run_worker(prop, 0, 1, a.tier, seed, scratch_root, plan, replay=os.path.abspath(a.replay), jail=jail)]
        else:
            shards = [a.only_shard] if a.only_shard is not None else list(range(nshards))
            with cf.ThreadPoolExecutor(max_workers=len(shards)) as ex:
                outs = list(ex.map(lambda i: run_worker(prop, i, nshards, a.tier, seed, scratch_root, plan, jail=jail), shards))
            # a shard that hit the wall-clock watchdog is re-run once, alone, before any verdict
            for k, o in enumerate(outs):
                if o["result"] is None:
                    sys.stderr.write(f"[driver] shard {o['shard']} {o['status']}; re-running alone\n")
                    outs[k] = run_worker(prop, o["shard"], nshards, a.tier, seed, scratch_root, plan,
                                         jail=jail, timeout=plan["timeout_s"] * 2)
    finally:
        shutil.rmtree(scratch_root, ignore_errors=True)
        try:
            os.rmdir(os.path.dirname(scratch_root))
        except OSError:
            pass

    # ---- merge -------------------------------------------------------------
    evaluations = 0
    hashes: set[str] = set()
    samples = []
    counters: dict[str, int] = {}
    vcounts: dict[str, int] = {}
    witnesses = []
    inconclusive = []
    extra: dict[str, list] = {}
    for o in outs:
        r = o["result"]
        if r is None:
            inconclusive.append(f"shard {o['shard']}: {o['status']}; stderr: {o['stderr'][-600:]}; stacks: {o['faulthandler'][-1200:]}")
            continue
        evaluations += r["evaluations"]
        hashes.update(r["hashes"])
        for s in r["samples"]:
            if len(samples) < 4:
                samples.append(s)
        for k, v in r["counters"].items():
            counters[k] = counters.get(k, 0) + v
        for k, v in r["violation_counts"].items():
            vcounts[k] = vcounts.get(k, 0) + v
        witnesses.extend(r["violations"])
        inconclusive.extend(f"shard {o['shard']}: {x}" for x in r["inconclusive"])
        for k, v in r["extra"].items():
            extra.setdefault(k, []).append(v)

    known = {f["mechanism"]: f for f in load_known_findings() if f["property"] == prop and f["status"] == "open"}
    new_violations = [w for w in witnesses if (w["mechanism"] or "unclassified") not in known]
    known_hits = {k: v for k, v in vcounts.items() if k in known}
    n_new = sum(v for k, v in vcounts.items() if k not in known)

    distinct = len(hashes)
    for name in ([] if (a.replay or a.only_shard is not None) else plan["required_counters"]):
        if counters.get(name, 0) == 0:
            inconclusive.append(f"deciding monitor '{name}' was never evaluated")
    if not a.replay and a.only_shard is None and distinct < plan["min_nontrivial"]:
        inconclusive.append(f"only {distinct} distinct non-trivial cases observed (< {plan['min_nontrivial']})")

    replay_paths = []
    if new_violations:
        rdir = os.path.join(VERIF_ROOT, "replay", prop)
        os.makedirs(rdir, exist_ok=True)
        seen = set()
        for w in new_violations:
            m = (w["mechanism"] or "unclassified").replace("/", "_")
            if m in seen and len(replay_paths) >= 5:
                continue
            seen.add(m)
            p = os.path.join(rdir, f"{m}-{digest(w['witness'], 10)}.json")
            with open(p, "w") as f:
                json.dump(w, f, indent=1, sort_keys=True)
            replay_paths.append((p, w))

    if n_new and not replay_paths:  # counted but no witness kept: still name a replay file
        rdir = os.path.join(VERIF_ROOT, "replay", prop)
        os.makedirs(rdir, exist_ok=True)
        p = os.path.join(rdir, f"unwitnessed-{seed}.json")
        w = {"mechanism": None, "what": f"{n_new} refutation(s) counted without a stored witness: "
             + json.dumps({k: v for k, v in vcounts.items() if k not in known}), "witness": {"_seed": seed, "_tier": a.tier}}
        with open(p, "w") as f:
            json.dump(w, f, indent=1)
        replay_paths.append((p, w))

    wall = time.time() - t0
    if not a.no_evidence and not a.replay and a.only_shard is None:
        coverage = {
            "evaluations": evaluations,
            "distinct_nontrivial": distinct,
            "rule": plan["rule"],
            "samples": samples,
            "monitor_counters": counters,
            "known_finding_hits": known_hits,
            "violation_counts": {k: v for k, v in vcounts.items() if k not in known},
            "shards": len(outs),
            "jail": jail if plan["jail"] else None,
            "exhaustive": bool(plan.get("exhaustive", False)),
            "verdict": "violated" if n_new else ("inconclusive" if inconclusive else "held"),
            "inconclusive_reasons": inconclusive[:10],
        }
        for k, v in extra.items():
            coverage[k] = v if len(v) > 1 else v[0]
        if plan["level"] == "translation_validation":
            coverage["programs"] = counters.get("programs", evaluations)
            coverage["disagreements_checked"] = counters.get("disagreements_checked", 0)
        ev = {
            "property_id": prop,
            "tier": a.tier,
            "seed": seed,
            "level": plan["level"],
            "coverage": coverage,
            "assumptions": plan["assumptions"],
            "wall_s": round(wall, 2),
            "violations": n_new,
        }
        os.makedirs(os.path.join(VERIF_ROOT, "evidence"), exist_ok=True)
        tmp = os.path.join(VERIF_ROOT, "evidence", f".{prop}.json.tmp")
        with open(tmp, "w") as f:
            json.dump(ev, f, indent=1, sort_keys=True)
        os.replace(tmp, os.path.join(VERIF_ROOT, "evidence", f"{prop}.json"))

    print(f"[{prop}] tier={a.tier} seed={seed} shards={len(outs)} evaluations={evaluations} "
          f"distinct_nontrivial={distinct} wall={wall:.1f}s")
    if counters:
        print(f"[{prop}] monitors: " + ", ".join(f"{k}={v}" for k, v in sorted(counters.items())))
    for k, v in sorted(known_hits.items()):
        f = known[k]
        print(f"KNOWN-FINDING: property={prop} {k}: {f.get('what', '')} ({v} occurrence(s) this run)")
    if n_new:
        for p, w in replay_paths:
            print(f"[{prop}] {w['mechanism'] or 'unclassified'}: {w['what'][:600]}")
            print(f"VIOLATION property={prop} replay={p}")
        return 1
    if inconclusive:
        for r in inconclusive[:10]:
            print(f"INCONCLUSIVE property={prop} {r[:1500]}")
        return 2
    print(f"[{prop}] held on everything explored")
    return 0


if __name__ == "__main__":
    sys.exit(main())
