"""C12  A job that fits is eventually scheduled (bounded liveness, decided at quiescence; no lost wake-ups).

Same history generator / driver as C10 (vf/harness/c10_sched.py), own executions and oracle.  Histories
oversubscribe the locations (requests > capacity), releases come in arbitrary orders, `retry_delay=0`
(so `wait_queue.wait()` has no timeout: no timer can mask a lost notification).

Bounded restatement.  At every *quiescent point* of a history (vf.perturb.loop_is_quiescent on three
consecutive loop turns: no ready callback, no timer, no in-flight harness operation) nothing can make
progress any more unless a new event arrives.  At such a point no schedule() call may still be pending
whose requirement fits the FREE capacity -- computed from the shadow ledger, not from the scheduler --
of enough locations of one of its targets (every level of a stack; for a multi-location target the
locations must fit jointly).  Because quiescent points follow every release (pace 'q') and end every
history, this also decides "granted at the latest at the quiescent point after the release that makes
room".  A schedule() call that raises is "never granted".
`DefaultScheduler._is_valid` is evaluated on the same pending request as a cross-check; agreement /
disagreement with the ledger is reported.
"""
from __future__ import annotations

from vf.common import Shard

PROPERTY = "C12"
META = {
    "text": "At every quiescent point of generated and bounded-exhaustive scheduler histories, no schedule() request is "
            "still waiting although an independent ledger shows enough free capacity on one of its targets; requests "
            "blocked earlier are granted after the release that makes room.",
    "note": "Liveness is bounded: decided at provable quiescence of the event loop with retry_delay=0. Free capacity "
            "includes the measured usage that finished jobs leave on a mount point (the code keeps it reserved). "
            "Quantities are integers/dyadic fractions so that an exact fit is a fit.",
    "technique": "quiescence-point checking of pending requests against a shadow ledger",
}

CLASSES = [("main", 8), ("shared_inner", 2), ("bind_over_slots", 1), ("ool", 1)]
GMP = "'NoneType' object has no attribute 'get_mount_point'"


def plan(tier):
    q = tier == "quick"
    return {
        "level": "exploration",
        "shards": 16,
        "budget_s": 45 if q else 600,
        "timeout_s": 900 if q else 5400,
        "min_nontrivial": 1500 if q else 30000,
        "required_counters": ["c12_pending_checked", "c12_pending_not_fitting", "c12_wakeups_observed", "quiescent_points",
                              "isvalid_crosscheck_agree", "exhaustive_cases", "releases"],
        "rule": "as C10 (bounded-exhaustive small configurations whose three jobs oversubscribe the location + random "
                "programs run twice). Non-trivial = a request was seen waiting at a quiescent point; distinct = distinct "
                "(configuration, jobs, history, pace, drain).",
        "exhaustive": True,
        "assumptions": ["repeated notifications are issued sequentially (any status, FIREABLE included) and concurrently (two in-flight COMPLETED/FAILED calls)", "retry_delay=0", "a deployment's locations share one mount table",
                        "out-of-lifecycle histories are recorded, not judged"],
    }


class Observer:
    def __init__(self, sh: Shard, case):
        self.sh, self.case = sh, case
        self.judged = case.get("class") != "ool"
        self.violations = []          # at most one per job
        self.flagged = set()
        self.waited = set()           # (job, attempt) seen pending at a quiescent point
        self.wakeups = 0
        self.pending_checked = 0
        self.crosschecked = 0

    def after_call(self, run, what):
        if what[0] == "schedule" and (what[1], run.attempt[what[1]]) in self.waited:
            self.wakeups += 1

    async def at_quiescence(self, run, tag):
        sh = self.sh
        for j, info in list(run.pending.items()):
            self.pending_checked += 1
            sh.count("c12_pending_checked")
            self.waited.add((j, run.attempt[j]))
            fit = None
            for dep, n in info["targets"]:
                dl = run.mat["dep_locs"][run.mat["deps"][dep].name]
                fit = run.ledger.fitting_locations(dl, n, info["req"])
                if fit:
                    fit = (dep, n, fit)
                    break
            if not fit:
                sh.count("c12_pending_not_fitting")
                if self.crosschecked < 2 and self.judged:
                    self.crosschecked += 1
                    rv = await run.real_valid_count(j)
                    ok = all(rv.get(run.mat["deps"][d].name, 0) < n for d, n in info["targets"])
                    sh.count("isvalid_crosscheck_agree" if ok else "isvalid_crosscheck_disagree")
                continue
            sh.count("c12_pending_but_fits")
            if j in self.flagged or not self.judged:
                continue
            self.flagged.add(j)
            rv = await run.real_valid_count(j)
            mech = classify_pending(run, j, info)
            self.violations.append({
                "mechanism": mech, "job": j, "name": run.names[j], "quiescent_point": tag, "fits_on": fit,
                "requirement": {"cores": info["req"]["cores"], "memory": info["req"]["memory"],
                                "disks": [[p, s] for p, s, _ in info["req"]["disks"]]},
                "real_is_valid_count": rv, "ledger": run.ledger.snapshot(),
                "free": {ln.split("-", 1)[-1]: run.ledger.free(ln) for ln in fit[2]},
                "trace": [list(map(str, t)) for t in run.trace[-30:]],
            })

    async def at_end(self, run):
        pass

    def on_exception(self, run, what, exc):
        if what[0] != "schedule" or not self.judged:
            self.sh.count("notify_raised")
            return
        j = what[1]
        self.sh.count("schedule_raised")
        if j in self.flagged:
            return
        self.flagged.add(j)
        spec = run.case["jobs"][j]
        self.violations.append({
            "mechanism": classify_exception(run, j, exc), "job": j, "name": run.names[j], "raised": f"{type(exc).__name__}: {str(exc)[:300]}",
            "targets": spec["targets"], "ledger": run.ledger.snapshot(), "trace": [list(map(str, t)) for t in run.trace[-30:]],
        })

    def on_deadlock(self, run, in_notify):
        """Quiescent loop while notify_status() is still pending: no release can ever happen again."""
        if not self.judged or "deadlock" in self.flagged:
            return
        self.flagged.add("deadlock")
        j, status = next(iter(in_notify.items()))
        self.violations.append({
            "mechanism": None, "job": j, "name": run.names[j],
            "raised": f"Deadlock: notify_status({run.names[j]}, {status}) has not returned and the event loop is quiescent",
            "targets": run.case["jobs"][j]["targets"], "ledger": run.ledger.snapshot(),
            "trace": [list(map(str, t)) for t in run.trace[-30:]]})

    def finish(self, run):
        from vf.harness import c10_sched as H

        sh = self.sh
        key = H.case_key(self.case)
        sh.count("c12_wakeups_observed", self.wakeups)
        if not self.judged:
            sh.count("ool_runs_recorded")
            sh.case(("ool", key), nontrivial=False)
            return
        sh.case((self.case.get("class"), key, self.case.get("drain"), self.case.get("drain_status")), nontrivial=self.pending_checked > 0)
        for v in self.violations[:3]:
            mech = v.pop("mechanism")
            if "raised" in v and v["raised"].startswith("Deadlock"):
                what = v["raised"]
            elif "raised" in v:
                what = f"schedule() of job {v['name']} raised {v['raised']} instead of being granted"
            else:
                what = (f"at a quiescent point ({v['quiescent_point']}) schedule() of job {v['name']} is still waiting although "
                        f"{[x.split('-', 1)[-1] for x in v['fits_on'][2]]} of target {v['fits_on'][0]} has room (ledger); "
                        f"real _is_valid accepts {v['real_is_valid_count']}")
            sh.violation(mech, what, {"case": self.case, "observed": v})
        if not self.violations and self.wakeups >= 2:
            sh.sample(dict(H.summarize(run), wakeups=self.wakeups, pending_checks=self.pending_checked))


# ------------------------------------------------------------------------------------------------
# classification: explicit models of known defect mechanisms; a refutation they do not explain stays
# unclassified.  (They may look at the scheduler's structures -- deciding never does.)
# ------------------------------------------------------------------------------------------------
def _fits(ledger, run, info):
    for dep, n in info["targets"]:
        dl = run.mat["dep_locs"][run.mat["deps"][dep].name]
        if ledger.fitting_locations(dl, n, info["req"]):
            return True
    return False


def classify_pending(run, j, info):
    from streamflow.core.utils import compare_tags, get_job_step_name, get_job_tag
    from streamflow.core.workflow import Status
    from vf.models.c14_hw import totals

    led = run.ledger
    name = run.names[j]
    # (a) storage that _free_resources never gave back on inner levels (see C11): with exactly that amount
    #     missing -- and the scheduler's own account really showing it -- the request no longer fits
    multi, deep = led.inner_storage_residue()
    adjust = {"retained": {}, "slots": {}}   # cumulative: several known mechanisms may act in one run

    def fits_with_adjustments(ledger):
        ledger.extra_retained, ledger.extra_slots = adjust["retained"], adjust["slots"]
        try:
            return _fits(ledger, run, info)
        finally:
            ledger.extra_retained, ledger.extra_slots = {}, {}

    for label, residue in (("C12/stacked-multi-location-inner-storage-leak", multi), ("C12/deep-stack-inner-storage-leak", deep)):
        if not residue:
            continue
        real_has_it = all(
            abs(totals(run.sch.hardware_locations[ln]).get(mp, 0.0) - led.reserved(ln)["st"].get(mp, 0.0) - led.retained[ln].get(mp, 0.0)
                - multi.get(ln, {}).get(mp, 0.0) - deep.get(ln, {}).get(mp, 0.0)) < 1e-9
            for ln, d in residue.items() for mp in d if ln in run.sch.hardware_locations)
        if not real_has_it:
            continue
        for ln, d in residue.items():
            for mp, v in d.items():
                adjust["retained"].setdefault(ln, {})
                adjust["retained"][ln][mp] = adjust["retained"][ln].get(mp, 0.0) + v
        if not fits_with_adjustments(led):
            return label
    # (b) notify_status(ROLLBACK) removes the job from the allocation list of its TOP-LEVEL location only; the
    #     entry it leaves on a wrapped location without hardware keeps counting in _get_running_jobs: while the
    #     job is in ROLLBACK (for requests of the same step with a greater tag) and, once the job is allocated
    #     again, as a duplicate.  held = slots the real list counts beyond the jobs that really hold the location.
    held = {}
    for dep, locs in run.sch.location_allocations.items():
        for ln, la in locs.items():
            spec = led.locs.get(ln)
            if spec is None or spec["cap"] is not None or not any(v["wraps"] == ln for v in led.locs.values()):
                continue
            justified = {n: 1 for n, jl in led.jobs.items() if jl["status"] != "ROLLBACK" and any(c[0] == ln for c in jl["charges"])}
            stale, seen, counted = 0, {}, 0
            for other in la.jobs:
                seen[other] = seen.get(other, 0) + 1
                if seen[other] > justified.get(other, 0):
                    stale += 1
                a = run.sch.job_allocations.get(other)
                if a is None:
                    continue
                if a.status in (Status.RUNNING, Status.FIREABLE) or (
                        a.status == Status.ROLLBACK and get_job_step_name(other) == get_job_step_name(name)
                        and compare_tags(get_job_tag(other), get_job_tag(name)) < 0):
                    counted += 1
            extra = counted - led.reserved(ln)["jobs"]
            if stale and extra > 0:
                held[ln] = extra
    if held:
        adjust["slots"] = held
        if not fits_with_adjustments(led):
            return "C12/rollback-keeps-inner-slot"
    # (c) k outer locations on one inner location: the inner requirement is validated (and charged) k times
    if run.merged is not None and not fits_with_adjustments(run.merged):
        return "C12/shared-inner-requirement-merged"
    return None


def classify_exception(run, j, exc):
    # an outer location with a bound storage, stacked on a location that gives no hardware information
    if isinstance(exc, AttributeError) and GMP in str(exc):
        led = run.ledger
        for dep, _ in run.case["jobs"][j]["targets"]:
            for ln in run.mat["dep_locs"][run.mat["deps"][dep].name]:
                cur = ln
                while cur is not None:  # any level of the stack
                    spec = led.locs[cur]
                    if spec["binds"] and spec["wraps"] is not None and led.locs[spec["wraps"]]["cap"] is None:
                        return "C12/bind-over-hardwareless-inner"
                    cur = spec["wraps"]
    return None


def run_shard(sh: Shard) -> None:
    from vf.harness import c10_sched as H

    H.drive(sh, Observer, CLASSES, reps=2)


def replay(sh: Shard, w: dict) -> None:
    from vf.harness import c10_sched as H

    H.drive(sh, Observer, CLASSES, replay_case=w["case"])
