"""C22  Transfers reproduce the source data exactly, for every pair of location kinds.

Workload: `DefaultDataManager.transfer_data` of the REAL data manager / connectors over all ordered
pairs of {L local, A shell remote, B second shell remote, W wrapped remote (ConnectorWrapper stacked
on A with a bind mount)} incl. same-location; file and directory sources; destination parent
missing / present / destination an existing directory (copy *into* it); writable and read-only;
renamed or not; random trees (empty files/dirs, binary files, in-tree symlinks, exec bits, unicode)
and hostile names (space, quotes, $, backtick, glob characters, leading dash) placed inside the tree,
as the source/destination basename or as a parent directory; optionally a second hop that re-uses
what the first transfer registered.  Two further case classes: CONCURRENT groups of 2..4 overlapping
transfers of one source (staggered starts, transfer 0's stream optionally held behind a gate in the
harness connector) and RE-TRANSFERS of a regenerated source onto the copy left by an earlier version
(optionally invalidated in the data manager first).

Oracle (independent of StreamFlow): digest of the tree found on disk at the destination
(relative names, bytes, directory structure incl. empty directories, exec bits, links followed) ==
digest of the source computed from the tree spec; the destination path is registered in the data
manager as an available, valid location of the destination location; the source is unchanged; a
writable copy is not an alias (symlink / hard link) of the source.
"""
from __future__ import annotations

import asyncio
import os
import shutil

from vf.common import Shard, short_tb
from vf.harness import c22_trees as T

PROPERTY = "C22"
META = {
    "text": "After DataManager.transfer_data between any two of {local, shell-based remote, second remote, wrapped "
            "remote} (same location included) the destination holds exactly the source's files, directories "
            "(also empty ones) and executable bits (symlinks compared by what they resolve to), is registered as "
            "an available copy, the source is untouched and a writable copy is not an alias of the source.",
    "note": "All locations share one disk (the wrapped location's bind mount is a symlink); multi-location "
            "destinations of one deployment are not generated because harness locations cannot have separate "
            "file systems; hostile-name outcomes are attributed to a shell-quoting mechanism only when the "
            "observed command log shows the raw path in an unquoted / double-quoted template.",
    "technique": "differential tree digests over a generated transfer matrix",
}

LOCS = ["L", "A", "B", "W"]
MECH_EXEC = "C22/r2r-file-rename-loses-exec-bit"
MECH_INTO = "C22/dir-into-existing-dir-misplaced"
MECH_DASH = "C22/leading-dash-basename-tar"


def plan(tier):
    q = tier == "quick"
    return {
        "level": "exploration",
        "shards": 16,
        "budget_s": 40 if q else 800,
        "timeout_s": 600 if q else 3000,
        "jail": True,
        "min_nontrivial": 40 if q else 500,
        "required_counters": ["oracle_tree_compared", "oracle_registration_checked", "benign_exact",
                              "route_L>L", "route_L>A", "route_A>L", "route_A>B", "route_A>A", "route_W>L", "route_L>W",
                              "route_W>W", "route_B>W", "concurrent_groups", "concurrent_overlapping_starts",
                              "concurrent_exact", "retransfer_judged", "retransfer_exact", "local_sweep_cases"],
        "rule": "case = (ordered location pair of 16, file|dir, writable, renamed, destination state of 3, tree, "
                "name placement); the 16 routes cycle fastest, the 24 other combinations per route in a seeded order (384 cells); trees "
                "have 0..12 entries (30 in thorough), files up to 70 kB (1 MiB in thorough); ~35% of cases carry a "
                "hostile name. 40% of the case numbers are single transfers (above), 30% CONCURRENT groups (2..4 "
                "transfers of one source started together / when transfer 0 has registered its destination / after "
                "0..30 loop turns, transfer 0's tar stream optionally held behind the connector's gate until the "
                "others returned or stalled; same and different destination locations, writable/read-only mixes; "
                "every destination judged after all returned) and 30% RE-TRANSFERS (a file onto the file, or a tree "
                "onto the same-named tree, left by a transfer of an earlier version: longer/shorter/empty/exec bit "
                "flipped; stale copy optionally invalidated as recovery does; judged where the pinned code replaces "
                "the destination, recorded only elsewhere). distinct = distinct case dict; trivial = empty directory tree.",
        "exhaustive": False,
        "assumptions": ["one shared disk behind all locations", "sources are registered in the data manager before the transfer (as the engine does)"],
    }


def report(sh: Shard, mech, what, wit, keep=2):
    """Listed mechanisms recur thousands of times in a thorough run: keep the first `keep` witnesses of each
    per shard (the count still grows) so that they can never fill the Shard's witness store (40 entries)
    and starve an unclassified refutation of its witness."""
    if mech is not None and sh.violation_counts.get(mech, 0) >= keep:
        sh.violation_counts[mech] += 1
        return
    sh.violation(mech, what, wit)


# --------------------------------------------------------------------------------------------
# case generation

ROUTES = [(s, d) for s in LOCS for d in LOCS]
COMBOS = [(k, w, r, st) for k in ("dir", "file") for w in (True, False) for r in (False, True)
          for st in ("parent-missing", "parent-exists", "into-dir")]
PLACEMENTS = ["tree", "src_name", "dst_name", "dst_parent", "src_parent"]


CLS_CYCLE = ["single", "concurrent", "retransfer", "single", "concurrent", "single", "retransfer", "concurrent", "single",
             "retransfer"]
ROUTE_KINDS = {  # route kinds of the re-transfer / concurrent classes -> concrete (src, dst) pairs
    "LL": [("L", "L")],
    "l2r": [("L", "A"), ("L", "B"), ("L", "W")],
    "r2l": [("A", "L"), ("B", "L"), ("W", "L")],
    "r2r": [("A", "B"), ("B", "A"), ("B", "W"), ("W", "B"), ("A", "W"), ("W", "A")],
    "same-remote": [("A", "A"), ("B", "B"), ("W", "W")],
}


def route_kind(s: str, d: str, w_mapped: bool = False) -> str:
    if (s, d) == ("W", "A") and w_mapped:
        # a source under W's bind mount is also registered at its inner path on A: for the data manager the
        # copy is already on A and the transfer becomes a same-location copy there
        return "same-remote"
    return next(k for k, v in ROUTE_KINDS.items() if (s, d) in v)


def _source(rng, thorough, kind, big=False):
    sizes = T.SIZES_SMALL + (T.SIZES_MEDIUM if (big or rng.random() < 0.4) else [])
    if kind == "file":
        name = rng.choice(["one.dat", "f", "run.sh", "日本.bin", "a-b_c.txt"])
        tree = [{"p": "", "k": "f", "n": rng.choice(sizes), "s": rng.randrange(1 << 30), "x": rng.choice([0o644, 0o755, 0o600, 0o711, 0o750])}]
    else:
        name = rng.choice(["src", "data.d", "in_1", "étude", "x.y-z"])
        tree = T.gen_tree(rng, max_entries=20 if thorough else 10, names=T.PLAIN + T.UNICODE, sizes=sizes, symlinks=True,
                          max_total=2_000_000 if thorough else 400_000)
    return name, tree


def gen_concurrent(sh: Shard, idx: int, rng) -> dict:
    """2..4 transfers of ONE registered source started together / staggered; transfer 0 may be held behind the
    connector's stream gate (slow link) while the others start."""
    thorough = not sh.quick()
    kind = rng.choice(["dir", "file"])
    src_name, tree = _source(rng, thorough, kind, big=True)
    src_loc = rng.choice(LOCS)
    first_dst = rng.choice([x for x in LOCS if x != src_loc] * 3 + [src_loc])
    xfers = []
    for i in range(rng.randint(2, 4)):
        d = first_dst if (i == 0 or rng.random() < 0.65) else rng.choice(LOCS)
        xfers.append({"dst_loc": d, "writable": rng.random() < (0.35 if i == 0 else 0.5),
                      "dst_name": src_name if rng.random() < 0.5 else f"ren{i}", "parent": rng.choice(["missing", "exists"]),
                      "start": 0 if i == 0 else rng.choice(["after-registration"] * 3 + [0, rng.randint(1, 30)]),
                      "gated": i == 0 and rng.random() < 0.75})
    return {"idx": idx, "cls": "concurrent", "src_loc": src_loc, "kind": kind, "src_name": src_name, "tree": tree,
            "w_mapped": rng.random() < 0.75, "xfers": xfers, "hostile": None, "placement": None}


def _new_version(rng, e: dict) -> dict:
    how = rng.choice(["longer", "shorter", "empty", "same-size", "exec-only"])
    n = e["n"]
    e2 = dict(e, s=rng.randrange(1 << 30))
    if how == "longer":
        e2["n"] = n + rng.choice([1, 100, 513, 5000])
    elif how == "shorter":
        e2["n"] = rng.randint(0, max(0, n - 1)) if n else 0
    elif how == "empty":
        e2["n"] = 0
    elif how == "exec-only":
        e2["s"] = e["s"]
    if how == "exec-only" or rng.random() < 0.4:
        e2["x"] = 0o644 if (e["x"] & 0o111) else 0o755
    return e2


def gen_retransfer(sh: Shard, idx: int, rng) -> dict:
    """The destination already holds an earlier version of the source (from a first transfer); the source is
    regenerated in place (same names; files longer / shorter / empty / exec bit flipped), the stale copy is
    optionally invalidated in the data manager (what recovery does), and the source is transferred again."""
    thorough = not sh.quick()
    kind = rng.choice(["file", "file", "dir"])
    src_name, tree = _source(rng, thorough, kind)
    if kind == "dir" and not any(e["k"] == "f" for e in tree):
        tree = tree + [{"p": "only.bin", "k": "f", "n": 700, "s": rng.randrange(1 << 30), "x": 0o755}]
    rk = rng.choice(["LL", "same-remote", "l2r", "l2r", "r2l", "r2l", "r2r", "r2r"])  # real copies weigh double
    s, d = rng.choice(ROUTE_KINDS[rk])
    tree2 = [(_new_version(rng, e) if (e["k"] == "f" and (kind == "file" or rng.random() < 0.7)) else dict(e)) for e in tree]
    return {"idx": idx, "cls": "retransfer", "src_loc": s, "dst_loc": d, "kind": kind, "src_name": src_name, "tree": tree,
            "tree2": tree2, "dst_name": src_name if (kind == "dir" or rng.random() < 0.5) else "renamed",
            "parent": rng.choice(["missing", "exists"]),
            "writable1": rng.random() < 0.5, "writable2": rng.random() < 0.5, "invalidate": rng.choice(["none", "dst", "dst", "both"]),
            "w_mapped": rng.random() < 0.75, "hostile": None, "placement": None}


LOCAL_BATCH = 6  # a local->local transfer costs milliseconds (no subprocess): each visit runs 6 combinations


def gen_case(sh: Shard, idx: int, variant: int = 0, sweep: int | None = None) -> dict:
    """`sweep` = k: the k-th of the 24 combinations on the local->local route (run by every shard before its
    seeded sequence: these transfers cost milliseconds, so that route is covered exhaustively in every run)."""
    if sweep is not None:
        rng = sh.rng("sweep", sh.shard, sweep)
    else:
        rng = sh.rng("case", idx, variant) if variant else sh.rng("case", idx)
    cls = CLS_CYCLE[(idx + idx // len(ROUTES)) % len(CLS_CYCLE)] if sweep is None else "single"
    if cls == "concurrent":
        return gen_concurrent(sh, idx, rng)
    if cls == "retransfer":
        return gen_retransfer(sh, idx, rng)
    # the 16 routes cycle fastest (any 16 consecutive case numbers, and any shard, see all of them); the 24
    # (kind, writable, renamed, destination state) combinations follow in a seeded order per route
    s, d = ROUTES[(idx + idx // len(ROUTES)) % len(ROUTES)]
    order = list(range(len(COMBOS)))
    sh.rng("combo-order", s, d).shuffle(order)
    kind, writable, renamed, dst_state = COMBOS[order[(idx // len(ROUTES) + variant * (len(COMBOS) // LOCAL_BATCH)) % len(COMBOS)]]
    if sweep is not None:
        (s, d), (kind, writable, renamed, dst_state) = ("L", "L"), COMBOS[sweep]
    thorough = not sh.quick()
    hostile = rng.random() < float(os.environ.get("VF_C22_HOSTILE", "0.35"))  # (dev knob; default = the documented 35%)
    placement = rng.choice(PLACEMENTS) if hostile else None
    hclass = rng.choice(sorted(T.HOSTILE)) if hostile else None
    hname = None
    if hostile:
        pool = T.HOSTILE[hclass]
        # the unbalanced-quote names stall a persistent shell until the watchdog: keep them rare
        hname = pool[0] if rng.random() < 0.85 else rng.choice(pool)
    benign = T.PLAIN + T.UNICODE
    sizes = T.SIZES_SMALL + (T.SIZES_MEDIUM if rng.random() < 0.4 else [])
    if thorough and rng.random() < 0.1:
        sizes = sizes + T.SIZES_LARGE
    src_name = rng.choice(["src", "data.d", "in_1", "étude", "x.y-z"]) if kind == "dir" else rng.choice(["one.dat", "f", "run.sh", "日本.bin", "a-b_c.txt"])
    dst_name = src_name if not renamed else rng.choice(["renamed", "out.2", "ΑΒΓ", "dst-x"])
    src_parent, dst_parent = "sp", "dp"
    tree_names = benign
    if placement == "tree":
        tree_names = benign + [hname] * 6
    elif placement == "src_name":
        src_name = hname
        if not renamed:
            dst_name = hname
    elif placement == "dst_name":
        dst_name = hname
        if not renamed:
            src_name = hname
    elif placement == "dst_parent":
        dst_parent = hname
    elif placement == "src_parent":
        src_parent = hname
    if kind == "file":
        tree = [{"p": "", "k": "f", "n": rng.choice(sizes), "s": rng.randrange(1 << 30), "x": rng.choice([0o644, 0o755, 0o600, 0o711, 0o750])}]
    else:
        tree = T.gen_tree(rng, max_entries=30 if thorough else 12, names=tree_names, sizes=sizes, symlinks=True,
                          max_total=4_000_000 if thorough else 400_000)
    case = {"idx": (idx if not variant else f"{idx}v{variant}") if sweep is None else f"sweep{sh.shard}-{sweep}", "src_loc": s, "dst_loc": d, "kind": kind, "writable": writable, "dst_state": dst_state,
            "src_name": src_name, "dst_name": dst_name, "src_parent": src_parent, "dst_parent": dst_parent,
            "w_mapped": rng.random() < 0.75, "tree": tree, "hostile": hclass, "placement": placement}
    if rng.random() < 0.3:
        case["hop2"] = {"mode": rng.choice(["again", "chain"]), "dst_loc": rng.choice(LOCS), "writable": rng.random() < 0.5,
                        "dst_name": rng.choice(["h2", src_name if not T.char_classes(src_name) else "h2b"])}
    return case


# --------------------------------------------------------------------------------------------
# running one case


def norm(d):
    return None if d is None else {k: tuple(v) for k, v in d.items()}


class Runner:
    def __init__(self, sh: Shard):
        from vf.harness.c22_env import Env

        self.sh = sh
        self.loop = asyncio.new_event_loop()
        self.n_env = 0
        self.env = None
        self.Env = Env

    def ensure_env(self):
        if self.env is None:
            self.n_env += 1
            self.env = self.Env(self.sh.scratch, f"{os.getpid()}-{self.n_env}")
            self.loop.run_until_complete(self.env.start())
        return self.env

    def drop_env(self, hard=False):
        if self.env is not None:
            try:
                if not hard:
                    self.loop.run_until_complete(self.env.stop())
            except BaseException:
                pass
            shutil.rmtree(self.env.root, ignore_errors=True)
            self.env = None

    def base(self, env, loc, case):
        if loc == "W" and case["w_mapped"]:
            return os.path.join(env.outer, f"n{case['idx']}")
        return os.path.join(env.root, "cases", f"n{case['idx']}-{loc}")

    def close(self):
        self.drop_env()
        try:
            self.loop.close()
        except BaseException:
            pass


def registered(env, loc_key, path) -> bool:
    from streamflow.core.data import DataType

    loc = env.locs[loc_key]
    dls = env.ctx.data_manager.get_data_locations(path, loc.deployment, loc.name)
    return any(dl.available.is_set() and dl.data_type in (DataType.PRIMARY, DataType.SYMBOLIC_LINK) and dl.path == path
               for dl in dls)


def aliases(src, final) -> str | None:
    """A writable copy must not be the source itself."""
    if os.path.islink(final):
        return f"destination is a symbolic link to {os.readlink(final)}"
    if os.path.isfile(src) and os.path.isfile(final) and os.path.samefile(src, final):
        return "destination is a hard link of the source"
    if os.path.isdir(src) and os.path.isdir(final):
        for r, ds, fs in os.walk(final):
            for f in fs:
                p = os.path.join(r, f)
                q = os.path.join(src, os.path.relpath(p, final))
                if not os.path.islink(p) and os.path.isfile(q) and not os.path.islink(q) and os.path.samefile(p, q):
                    return f"{os.path.relpath(p, final)} is a hard link of the source file"
    return None


async def one_transfer(env, src_key, src, dst_key, dst, writable, timeout, early=None, explained=None):
    """`early`: after that many seconds, give up at once if `explained()` (the command log shows a raw
    unterminated quote: the persistent shell waits for more input forever); otherwise keep waiting until
    `timeout`."""
    task = asyncio.ensure_future(
        env.ctx.data_manager.transfer_data(env.locs[src_key], src, [env.locs[dst_key]], dst, writable=writable))
    waited = 0.0
    for t in ([early, timeout - early] if early else [timeout]):
        done, _ = await asyncio.wait({task}, timeout=t)
        waited += t
        if done or (early and waited == early and explained()):
            break
    if not task.done():
        task.cancel()
        try:
            await asyncio.wait_for(asyncio.gather(task, return_exceptions=True), 10)
        except Exception:
            pass
        return "hang", f"no answer within {waited:.0f}s"
    try:
        task.result()
        return "ok", ""
    except asyncio.CancelledError:
        return "hang", "cancelled"
    except Exception as e:
        return "raise", f"{type(e).__name__}: {str(e)[:300]}"


def _materialise(case, src, tree):
    import hashlib

    if case["kind"] == "file":
        T.materialise_file(src, tree[0])
        e = tree[0]
        return {".": ("f", hashlib.sha256(T.file_bytes(e)).hexdigest()[:24], e["x"] & 0o111)}
    os.makedirs(os.path.dirname(src), exist_ok=True)
    T.materialise(src, tree)
    return norm(T.expected_digest(tree))


def run_concurrent(sh: Shard, R: Runner, case: dict) -> None:
    from vf.harness.c22_env import XFER, C22Shell

    env = R.ensure_env()
    sbase = R.base(env, case["src_loc"], case)
    bases = {sbase}
    src = os.path.join(sbase, "S", "sp", case["src_name"])
    dsts = []
    for i, x in enumerate(case["xfers"]):
        b = R.base(env, x["dst_loc"], case)
        bases.add(b)
        dsts.append(os.path.join(b, "D", f"dp{i}", x["dst_name"]))
    try:
        for b in bases:
            shutil.rmtree(b, ignore_errors=True)
        want = _materialise(case, src, case["tree"])
        if norm(T.digest(src)) != norm(want):
            sh.inconclusive_because(f"harness: materialised source differs from its spec (case {case['idx']})")
            return
        for x, dst in zip(case["xfers"], dsts):
            if x["parent"] == "exists":
                os.makedirs(os.path.dirname(dst), exist_ok=True)
        env.clear_logs()
        dm = env.ctx.data_manager
        dm.register_path(env.locs[case["src_loc"]], src, case["src_name"])
        tasks: dict = {}
        started = set()
        observed = {"gate_waits": 0, "gate_released_by": None, "overlap": 0}

        async def gate(xid, kind):
            """Hold a gated transfer's stream until every other transfer of the group has returned, or until
            they have all started and nothing moved for 40 polls (they wait for us: what the pinned code does)."""
            if xid is None or not case["xfers"][xid]["gated"]:
                return
            observed["gate_waits"] += 1
            quiet, last, polls = 0, -1, 0
            while True:
                others = [t for j, t in tasks.items() if j != xid]
                if len(started) == len(case["xfers"]) and all(t.done() for t in others):
                    observed["gate_released_by"] = "others-returned"
                    return
                await asyncio.sleep(0.01)
                polls += 1
                mark = (len(C22Shell.LOG), len(started))
                quiet = quiet + 1 if mark == last else 0
                last = mark
                if (quiet >= 40 and len(started) == len(case["xfers"])) or polls > 1500:
                    observed["gate_released_by"] = "others-stalled" if quiet >= 40 else "poll-limit"
                    return

        async def one(i):
            x = case["xfers"][i]
            XFER.set(i)
            if x["start"] == "after-registration":
                # start as soon as transfer 0 has registered its (not yet available) destination
                l0 = env.locs[case["xfers"][0]["dst_loc"]]
                for _ in range(20000):
                    if dm.get_data_locations(dsts[0], l0.deployment, l0.name) or tasks[0].done():
                        break
                    await asyncio.sleep(0)
            else:
                for _ in range(x["start"]):
                    await asyncio.sleep(0)
            started.add(i)
            if i != 0 and not tasks[0].done():
                observed["overlap"] += 1
            try:
                await dm.transfer_data(env.locs[case["src_loc"]], src, [env.locs[x["dst_loc"]]], dsts[i], writable=x["writable"])
                return "ok", ""
            except Exception as e:
                return "raise", f"{type(e).__name__}: {str(e)[:300]}"

        async def group():
            for i in range(len(case["xfers"])):
                tasks[i] = asyncio.ensure_future(one(i))
            done, pending = await asyncio.wait(set(tasks.values()), timeout=sh.pick(90, 180))
            for t in pending:
                t.cancel()
            if pending:
                await asyncio.wait(pending, timeout=10)
            return [(t.result() if (t.done() and not t.cancelled()) else ("hang", "group watchdog")) for t in tasks.values()]

        C22Shell.GATE = gate
        try:
            results = R.loop.run_until_complete(group())
        finally:
            C22Shell.GATE = None
        sh.count("concurrent_groups")
        sh.count("concurrent_overlapping_starts", observed["overlap"])
        sh.count(f"gate_released[{observed['gate_released_by']}]")
        if any(o == "hang" for o, _ in results):
            env.kill_shells()
        for i, (x, dst, (outcome, info)) in enumerate(zip(case["xfers"], dsts, results)):
            c = dict(case, dst_loc=x["dst_loc"], writable=x["writable"], dst_state="parent-" + x["parent"], dst_name=x["dst_name"])
            judge(sh, env, c, f"{case['src_loc']}>{x['dst_loc']}", src, dst, dst, want, outcome, info, hop=f"c{i}", orig=case,
                  extra={"concurrent": observed, "xfer": i})
            sh.count(f"route_{case['src_loc']}>{x['dst_loc']}")
    finally:
        for b in bases:
            shutil.rmtree(b, ignore_errors=True)


def retransfer_judged(case) -> bool:
    """Re-transfer combinations judged with "destination == new version exactly": those where the pinned code
    demonstrably replaces what is already there (tabulated on the unchanged tree, see design_notes/C22.md).
    Everything else is recorded only (`retransfer_recorded[...]`):
    * a first read-only transfer that is not invalidated — the data manager still believes the destination
      holds the data and turns the second transfer into a copy of the destination onto itself;
    * writable onto a link left by a read-only transfer on the same file system (SameFileError / cp "same file");
    * read-only onto a real copy on the same file system (`EEXIST` is ignored by design; `ln` cannot replace a
      directory); same-location `cp -rf`, which keeps the old file modes."""
    rk = route_kind(case["src_loc"], case["dst_loc"], case["w_mapped"])
    w1, w2, inv = case["writable1"], case["writable2"], case["invalidate"] != "none"
    if rk in ("l2r", "r2l", "r2r"):
        return w1 or inv
    if rk == "LL":
        return w1 and w2
    if case["kind"] == "file":
        return not w2  # same-remote: `ln -snf` replaces a file or a link
    return (not w1) and (not w2)  # same-remote tree: the link left by the first transfer is replaced


def run_retransfer(sh: Shard, R: Runner, case: dict) -> None:
    env = R.ensure_env()
    sbase, dbase = R.base(env, case["src_loc"], case), R.base(env, case["dst_loc"], case)
    src = os.path.join(sbase, "S", "sp", case["src_name"])
    parent = os.path.join(dbase, "D", "dp")
    isdir = case["kind"] == "dir"
    # a file is transferred twice to the same path (file onto file); a tree keeps its name and the second
    # transfer is given the parent directory, so that it lands on the first copy (tree onto same-named tree)
    dst1 = os.path.join(parent, case["src_name"] if isdir else case["dst_name"])
    dst2 = parent if isdir else dst1
    route = f"{case['src_loc']}>{case['dst_loc']}"
    rk = route_kind(case["src_loc"], case["dst_loc"], case["w_mapped"])
    dm = env.ctx.data_manager
    try:
        for b in {sbase, dbase}:
            shutil.rmtree(b, ignore_errors=True)
        want1 = _materialise(case, src, case["tree"])
        if case["parent"] == "exists":
            os.makedirs(parent, exist_ok=True)
        env.clear_logs()
        dm.register_path(env.locs[case["src_loc"]], src, case["src_name"])
        timeout = sh.pick(60, 120)
        c1 = dict(case, writable=case["writable1"], dst_state="parent-" + case["parent"], dst_name=os.path.basename(dst1))
        outcome, info = R.loop.run_until_complete(one_transfer(env, case["src_loc"], src, case["dst_loc"], dst1, case["writable1"], timeout))
        judge(sh, env, c1, route, src, dst1, dst1, want1, outcome, info, hop="r1", orig=case)
        sh.count(f"route_{route}")
        if outcome == "hang":
            env.kill_shells()
        if outcome != "ok" or norm(T.digest(dst1)) != norm(want1):
            return
        # the stale copy is invalidated (recovery), the source is produced again in place
        if case["invalidate"] in ("dst", "both"):
            dm.invalidate_location(env.locs[case["dst_loc"]], dst1)
        if case["invalidate"] == "both":
            dm.invalidate_location(env.locs[case["src_loc"]], src)
        shutil.rmtree(src) if os.path.isdir(src) and not os.path.islink(src) else os.unlink(src)
        want2 = _materialise(case, src, case["tree2"])
        dm.register_path(env.locs[case["src_loc"]], src, case["src_name"])
        env.clear_logs()
        outcome2, info2 = R.loop.run_until_complete(one_transfer(env, case["src_loc"], src, case["dst_loc"], dst2, case["writable2"], timeout))
        if outcome2 == "hang":
            env.kill_shells()
        c2 = dict(case, writable=case["writable2"], dst_state="into-dir" if isdir else "parent-exists", dst_name=os.path.basename(dst1))
        combo = f"{rk}/{case['kind']}/w1={int(case['writable1'])}/w2={int(case['writable2'])}/inv={case['invalidate']}"
        if retransfer_judged(case):
            sh.count("retransfer_judged")
            sh.count(f"retransfer_judged[{rk}/{case['kind']}]")
            judge(sh, env, c2, route, src, dst2, dst1, want2, outcome2, info2, hop="r2", orig=case,
                  extra={"retransfer": combo, "previous": want1})
        else:
            now = norm(T.digest(dst1))
            exact = outcome2 == "ok" and now == norm(want2) and registered(env, case["dst_loc"], dst1)
            sh.count("retransfer_recorded_only")
            sh.count(f"retransfer_recorded[{rk}/{case['kind']}]={'exact' if exact else ('stale' if now == norm(want1) else 'other:' + outcome2)}")
    finally:
        for b in {sbase, dbase}:
            shutil.rmtree(b, ignore_errors=True)


def run_case(sh: Shard, R: Runner, case: dict) -> None:
    if case.get("cls") == "concurrent":
        return run_concurrent(sh, R, case)
    if case.get("cls") == "retransfer":
        return run_retransfer(sh, R, case)
    env = R.ensure_env()
    sbase, dbase = R.base(env, case["src_loc"], case), R.base(env, case["dst_loc"], case)
    src = os.path.join(sbase, "S", case["src_parent"], case["src_name"])
    dparent = os.path.join(dbase, "D", case["dst_parent"])
    dst = os.path.join(dparent, case["dst_name"])
    route = f"{case['src_loc']}>{case['dst_loc']}"
    stray0 = set(os.listdir(sh.scratch))
    try:
        for b in {sbase, dbase}:
            shutil.rmtree(b, ignore_errors=True)
        if case["kind"] == "file":
            T.materialise_file(src, case["tree"][0])
            import hashlib

            e = case["tree"][0]
            want = {".": ("f", hashlib.sha256(T.file_bytes(e)).hexdigest()[:24], e["x"] & 0o111)}
        else:
            os.makedirs(os.path.dirname(src), exist_ok=True)
            T.materialise(src, case["tree"])
            want = norm(T.expected_digest(case["tree"]))
        if norm(T.digest(src)) != norm(want):
            sh.inconclusive_because(f"harness: materialised source differs from its spec (case {case['idx']})")
            return
        if case["dst_state"] == "parent-exists":
            os.makedirs(dparent, exist_ok=True)
        elif case["dst_state"] == "into-dir":
            os.makedirs(dst, exist_ok=True)
        final = os.path.join(dst, case["src_name"]) if case["dst_state"] == "into-dir" else dst
        env.clear_logs()
        env.ctx.data_manager.register_path(env.locs[case["src_loc"]], src, case["src_name"])
        unbalanced = any(n in T.UNBALANCED for n in (case["src_name"], case["dst_name"], case["src_parent"], case["dst_parent"]))
        timeout = sh.pick(60, 120)
        early = 8 if unbalanced else None
        explained = lambda: hostile_mechanism(env, case, src, dst)[0] is not None  # noqa: E731
        outcome, info = R.loop.run_until_complete(
            one_transfer(env, case["src_loc"], src, case["dst_loc"], dst, case["writable"], timeout, early, explained))
        judge(sh, env, case, route, src, dst, final, want, outcome, info, hop=1)
        sh.count(f"route_{route}")
        if outcome == "hang":
            env.kill_shells()
        elif outcome == "ok" and case.get("hop2") and norm(T.digest(final)) == norm(want) and registered(env, case["dst_loc"], final):
            h = case["hop2"]
            hbase = R.base(env, h["dst_loc"], dict(case, idx=f"{case['idx']}h"))
            shutil.rmtree(hbase, ignore_errors=True)
            hdst = os.path.join(hbase, "D2", h["dst_name"])
            hsrc_key, hsrc = (case["src_loc"], src) if h["mode"] == "again" else (case["dst_loc"], final)
            env.clear_logs()
            explained2 = lambda: hostile_mechanism(env, case, hsrc, hdst, (final, src))[0] is not None  # noqa: E731
            outcome2, info2 = R.loop.run_until_complete(
                one_transfer(env, hsrc_key, hsrc, h["dst_loc"], hdst, h["writable"], timeout, early, explained2))
            c2 = dict(case, writable=h["writable"], dst_state="parent-missing", src_loc=hsrc_key, dst_loc=h["dst_loc"],
                      src_name=os.path.basename(hsrc), dst_name=h["dst_name"])
            judge(sh, env, c2, f"{hsrc_key}>{h['dst_loc']}", hsrc, hdst, hdst, want, outcome2, info2, hop=2, orig=case,
                  also_paths=(final, src))
            sh.count(f"hop2_{h['mode']}")
            if outcome2 == "hang":
                env.kill_shells()
            shutil.rmtree(hbase, ignore_errors=True)
    finally:
        if any(n in T.UNBALANCED for n in (case["src_name"], case["dst_name"], case["src_parent"], case["dst_parent"])):
            env.kill_shells()  # a persistent shell may still sit inside an open quote: never reuse it
        for b in {sbase, dbase}:
            shutil.rmtree(b, ignore_errors=True)
        stray = set(os.listdir(sh.scratch)) - stray0
        if stray:
            sh.count("stray_entries_in_cwd", len(stray))
            R.strays = getattr(R, "strays", [])
            if len(R.strays) < 8:
                R.strays.append({"case_hostile": case["hostile"], "placement": case["placement"], "names": sorted(stray)[:4]})
            for n in stray:
                p = os.path.join(sh.scratch, n)
                shutil.rmtree(p, ignore_errors=True) if os.path.isdir(p) and not os.path.islink(p) else os.unlink(p)


def hostile_mechanism(env, case, src, dst, also=()):
    """First logged command line (chronological) that embeds a hostile path RAW — present verbatim but not
    in its shlex-quoted form — in an unquoted / double-quoted template where one of its metacharacter
    classes is active.  Returns (label, line) or (None, None)."""
    import shlex

    from vf.harness.c22_env import ACTIVE, template_of

    cands = set()
    for p in (src, dst, *also):
        for q in {p, p.replace(env.outer, env.inner, 1), p.replace(env.inner, env.outer, 1)}:
            cands.update({q, os.path.dirname(q), os.path.basename(q), os.path.join(q, os.path.basename(src))})
    cands = {c for c in cands if T.char_classes(c)}
    for kind, line in env.logs():
        label, style = template_of(kind, line)
        if label is None:
            continue
        words = line.split(" ")
        if label == "tar-reader" and words[-1].startswith("-") and "--" not in words and os.path.basename(src).startswith("-"):
            return MECH_DASH, line
        for c in sorted(cands, key=len, reverse=True):
            if c in line and shlex.quote(c) not in line and set(T.char_classes(c)) & ACTIVE[style]:
                return f"C22/shell-{style}-{label}", line
    return None, None


def into_dir_spread(case, dst, want) -> bool:
    """The source directory's *content* sits directly under the existing destination directory (and the
    registered dst/<name> is absent or an empty directory)."""
    under_dst = norm(T.digest(dst)) or {}
    name = case["src_name"]
    spread = {k: v for k, v in under_dst.items() if k != name and not k.startswith(name + "/")}
    return spread == norm(want)


def judge(sh, env, case, route, src, dst, final, want, outcome, info, hop, orig=None, extra=None, also_paths=()):
    """`also_paths`: further paths the data manager may hand to a shell for this transfer — at the second hop
    the first hop's destination, which `transfer_data` uses as the source of a same-location copy when it
    finds that copy on the destination location."""
    got = norm(T.digest(final))
    sh.count("oracle_tree_compared")
    reg = registered(env, case["dst_loc"], final)
    sh.count("oracle_registration_checked")
    src_same = norm(T.digest(src)) == norm(want)
    alias = aliases(src, final) if (case["writable"] and got is not None) else None
    paths_hostile = sorted({c for p in (src, dst, *also_paths) for x in p.split("/") for c in T.char_classes(x)})
    key = {k: v for k, v in (orig or case).items()}
    sh.case(("xfer", hop, key), nontrivial=not (case["kind"] == "dir" and not case["tree"]))
    problems = []
    if outcome != "ok":
        problems.append(f"transfer_data {outcome}: {info}")
    if got != norm(want):
        problems.append(f"destination tree differs: {T.diff_digests(norm(want), got)}")
    if outcome == "ok" and not reg:
        problems.append("destination not registered as an available location")
    if not src_same:
        problems.append("source tree changed")
    if alias:
        problems.append(f"writable copy aliases the source: {alias}")
    hist = f"{'hostile-path' if paths_hostile else ('hostile-tree' if case['hostile'] else 'benign')}"
    if hop == 1 and case["hostile"]:
        sh.count(f"hostile_case[{case['hostile']}/{case['placement']}]")
    if not problems:
        sh.count("benign_exact" if not paths_hostile else "hostile_path_exact")
        sh.count(f"exact[{hist}]")
        if isinstance(hop, str):
            sh.count({"c": "concurrent_exact", "r": "retransfer_exact"}[hop[0]] + ("" if hop != "r1" else "_first"))
        if hop == 1 and sh.shard == 0 and case["kind"] == "dir" and len(case["tree"]) > 3:
            sh.sample({"route": route, "kind": case["kind"], "writable": case["writable"], "dst_state": case["dst_state"],
                       "renamed": case["src_name"] != case["dst_name"], "entries": len(want), "hostile": case["hostile"],
                       "placement": case["placement"], "commands": [l for _, l in env.logs()][:6]}, limit=3)
        return
    wit = {"case": orig or case, "hop": hop, "route": route, "src": src, "dst": dst, "final": final, "outcome": outcome, "info": info,
           "registered": reg, "problems": problems, "log": env.logs()[:12]}
    wit.update(extra or {})
    mech = None
    diff = T.diff_digests(norm(want), got)
    remote_pair = case["src_loc"] != "L" and case["dst_loc"] != "L" and case["src_loc"] != case["dst_loc"]
    log_labels = []
    from vf.harness.c22_env import template_of

    for k, l in env.logs():
        lab, _ = template_of(k, l)
        if lab:
            log_labels.append(lab)
    # (1) F-C22a: exactly — a single file, remote->remote through `tar -O | tee`, everything right but the exec bit
    if (outcome == "ok" and reg and src_same and not alias and case["kind"] == "file" and "tee-writer" in log_labels
            and got is not None and set(got) == {"."} and got["."][0] == "f" and got["."][1] == want["."][1]
            and want["."][2] != 0 and got["."][2] == 0):
        mech = MECH_EXEC
    # (2) directory copied *into* an existing directory: data manager registers dst/<name>, the copy routine
    #     put the content directly under dst
    #     — only where that defect lives: local destination filled by extract_tar_stream (remote source) or by
    #     _local_copy's copytree (local source, writable)
    elif (outcome == "ok" and case["kind"] == "dir" and case["dst_state"] == "into-dir" and src_same
          and case["dst_loc"] == "L" and (case["src_loc"] != "L" or case["writable"])
          and (got is None or got == {".": ("d",)} or (extra and got == norm(extra.get("previous"))))
          and into_dir_spread(case, dst, want)):
        mech = MECH_INTO
    # (3) hostile path components reaching a shell raw
    elif paths_hostile:
        mech, line = hostile_mechanism(env, case, src, dst, also_paths)
        wit["shell_line"] = line
    if outcome == "hang" and mech is None:
        # wall-clock watchdog without a mechanistic explanation (raw unbalanced quote in a shell line):
        # never a violation by itself
        sh.inconclusive_because(f"transfer watchdog expired with no explaining shell line: {route} {case['kind']} case {case['idx']}: {info}")
        return
    report(sh, mech, f"{route} {case['kind']} writable={case['writable']} dst_state={case['dst_state']} "
                       f"renamed={case['src_name'] != case['dst_name']} hop={hop} [{hist}{':' + ','.join(paths_hostile) if paths_hostile else ''}]: "
                       + "; ".join(problems)[:900], wit)


# --------------------------------------------------------------------------------------------


def run_shard(sh: Shard) -> None:
    import time

    R = Runner(sh)
    R.ensure_env()
    # the soft budget is counted from here: importing StreamFlow + building the context alone takes
    # 3 s on an idle machine and minutes on a saturated one
    deadline = time.time() + sh.plan["budget_s"]
    idx = sh.shard
    n = 0
    try:
        for k in range(len(COMBOS)):  # exhaustive local->local sweep (about a second per shard)
            run_case(sh, R, gen_case(sh, 0, sweep=k))
            sh.count("local_sweep_cases")
        while time.time() < deadline:
            case = gen_case(sh, idx)
            batch = [case]
            if case.get("cls") is None and case["src_loc"] == case["dst_loc"] == "L":
                batch += [gen_case(sh, idx, v) for v in range(1, LOCAL_BATCH)]
            for c in batch:
                try:
                    run_case(sh, R, c)
                except Exception as e:
                    sh.inconclusive_because(f"harness error in case {c['idx']}: {short_tb(e)}")
                    R.drop_env(hard=True)
            idx += sh.nshards
            n += 1
            if n % 150 == 0:  # bound the data manager's memory of old cases
                R.drop_env()
    finally:
        sh.note("cases", n)
        sh.note("stray_files_created_by_shell_interpretation", getattr(R, "strays", []))
        R.close()


def replay(sh: Shard, w: dict) -> None:
    R = Runner(sh)
    try:
        run_case(sh, R, w["case"])
    finally:
        R.close()
