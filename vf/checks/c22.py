"""C22  Transfers reproduce the source data exactly, for every pair of location kinds.

Workload: `DefaultDataManager.transfer_data` of the REAL data manager / connectors over all ordered
pairs of {L local, A shell remote, B second shell remote, W wrapped remote (ConnectorWrapper stacked
on A with a bind mount)} incl. same-location; file and directory sources; destination parent
missing / present / destination an existing directory (copy *into* it); writable and read-only;
renamed or not; random trees (empty files/dirs, binary files, in-tree symlinks, exec bits, unicode)
and hostile names (space, quotes, $, backtick, glob characters, leading dash) placed inside the tree,
as the source/destination basename or as a parent directory; optionally a second hop that re-uses
what the first transfer registered.

Oracle (independent of StreamFlow): digest of the tree found on disk at the destination
(relative names, bytes, directory structure incl. empty directories, exec bits, links followed) ==
digest of the source computed from the tree spec; the destination path is registered in the data
manager as an available, valid location of the destination location; the source is unchanged; a
writable copy is not an alias (symlink / hard link) of the source.
"""
from __future__ import annotations

import asyncio
import os
import shutil

from vf.common import Shard, short_tb
from vf.harness import c22_trees as T

PROPERTY = "C22"
META = {
    "text": "After DataManager.transfer_data between any two of {local, shell-based remote, second remote, wrapped "
            "remote} (same location included) the destination holds exactly the source's files, directories "
            "(also empty ones) and executable bits (symlinks compared by what they resolve to), is registered as "
            "an available copy, the source is untouched and a writable copy is not an alias of the source.",
    "note": "All locations share one disk (the wrapped location's bind mount is a symlink); multi-location "
            "destinations of one deployment are not generated because harness locations cannot have separate "
            "file systems; hostile-name outcomes are attributed to a shell-quoting mechanism only when the "
            "observed command log shows the raw path in an unquoted / double-quoted template.",
    "technique": "differential tree digests over a generated transfer matrix",
}

LOCS = ["L", "A", "B", "W"]
MECH_EXEC = "C22/r2r-file-rename-loses-exec-bit"
MECH_INTO = "C22/dir-into-existing-dir-misplaced"
MECH_DASH = "C22/leading-dash-basename-tar"


def plan(tier):
    q = tier == "quick"
    return {
        "level": "exploration",
        "shards": 16,
        "budget_s": 40 if q else 800,
        "timeout_s": 600 if q else 3000,
        "jail": True,
        "min_nontrivial": 40 if q else 500,
        "required_counters": ["oracle_tree_compared", "oracle_registration_checked", "benign_exact",
                              "route_L>L", "route_L>A", "route_A>L", "route_A>B", "route_A>A", "route_W>L", "route_L>W",
                              "route_W>W", "route_B>W"],
        "rule": "case = (ordered location pair of 16, file|dir, writable, renamed, destination state of 3, tree, "
                "name placement); the 16 routes cycle fastest, the 24 other combinations per route in a seeded order (384 cells); trees "
                "have 0..12 entries (30 in thorough), files up to 70 kB (1 MiB in thorough); ~35% of cases carry a "
                "hostile name. distinct = distinct case dict; trivial = empty directory tree.",
        "exhaustive": False,
        "assumptions": ["one shared disk behind all locations", "sources are registered in the data manager before the transfer (as the engine does)"],
    }


def report(sh: Shard, mech, what, wit, keep=2):
    """Listed mechanisms recur thousands of times in a thorough run: keep the first `keep` witnesses of each
    per shard (the count still grows) so that they can never fill the Shard's witness store (40 entries)
    and starve an unclassified refutation of its witness."""
    if mech is not None and sh.violation_counts.get(mech, 0) >= keep:
        sh.violation_counts[mech] += 1
        return
    sh.violation(mech, what, wit)


# --------------------------------------------------------------------------------------------
# case generation

ROUTES = [(s, d) for s in LOCS for d in LOCS]
COMBOS = [(k, w, r, st) for k in ("dir", "file") for w in (True, False) for r in (False, True)
          for st in ("parent-missing", "parent-exists", "into-dir")]
PLACEMENTS = ["tree", "src_name", "dst_name", "dst_parent", "src_parent"]


def gen_case(sh: Shard, idx: int) -> dict:
    rng = sh.rng("case", idx)
    # the 16 routes cycle fastest (any 16 consecutive case numbers, and any shard, see all of them); the 24
    # (kind, writable, renamed, destination state) combinations follow in a seeded order per route
    s, d = ROUTES[(idx + idx // len(ROUTES)) % len(ROUTES)]
    order = list(range(len(COMBOS)))
    sh.rng("combo-order", s, d).shuffle(order)
    kind, writable, renamed, dst_state = COMBOS[order[(idx // len(ROUTES)) % len(COMBOS)]]
    thorough = not sh.quick()
    hostile = rng.random() < float(os.environ.get("VF_C22_HOSTILE", "0.35"))  # (dev knob; default = the documented 35%)
    placement = rng.choice(PLACEMENTS) if hostile else None
    hclass = rng.choice(sorted(T.HOSTILE)) if hostile else None
    hname = None
    if hostile:
        pool = T.HOSTILE[hclass]
        # the unbalanced-quote names stall a persistent shell until the watchdog: keep them rare
        hname = pool[0] if rng.random() < 0.85 else rng.choice(pool)
    benign = T.PLAIN + T.UNICODE
    sizes = T.SIZES_SMALL + (T.SIZES_MEDIUM if rng.random() < 0.4 else [])
    if thorough and rng.random() < 0.1:
        sizes = sizes + T.SIZES_LARGE
    src_name = rng.choice(["src", "data.d", "in_1", "étude", "x.y-z"]) if kind == "dir" else rng.choice(["one.dat", "f", "run.sh", "日本.bin", "a-b_c.txt"])
    dst_name = src_name if not renamed else rng.choice(["renamed", "out.2", "ΑΒΓ", "dst-x"])
    src_parent, dst_parent = "sp", "dp"
    tree_names = benign
    if placement == "tree":
        tree_names = benign + [hname] * 6
    elif placement == "src_name":
        src_name = hname
        if not renamed:
            dst_name = hname
    elif placement == "dst_name":
        dst_name = hname
        if not renamed:
            src_name = hname
    elif placement == "dst_parent":
        dst_parent = hname
    elif placement == "src_parent":
        src_parent = hname
    if kind == "file":
        tree = [{"p": "", "k": "f", "n": rng.choice(sizes), "s": rng.randrange(1 << 30), "x": rng.choice([0o644, 0o755, 0o600, 0o711, 0o750])}]
    else:
        tree = T.gen_tree(rng, max_entries=30 if thorough else 12, names=tree_names, sizes=sizes, symlinks=True,
                          max_total=4_000_000 if thorough else 400_000)
    case = {"idx": idx, "src_loc": s, "dst_loc": d, "kind": kind, "writable": writable, "dst_state": dst_state,
            "src_name": src_name, "dst_name": dst_name, "src_parent": src_parent, "dst_parent": dst_parent,
            "w_mapped": rng.random() < 0.75, "tree": tree, "hostile": hclass, "placement": placement}
    if rng.random() < 0.3:
        case["hop2"] = {"mode": rng.choice(["again", "chain"]), "dst_loc": rng.choice(LOCS), "writable": rng.random() < 0.5,
                        "dst_name": rng.choice(["h2", src_name if not T.char_classes(src_name) else "h2b"])}
    return case


# --------------------------------------------------------------------------------------------
# running one case


def norm(d):
    return None if d is None else {k: tuple(v) for k, v in d.items()}


class Runner:
    def __init__(self, sh: Shard):
        from vf.harness.c22_env import Env

        self.sh = sh
        self.loop = asyncio.new_event_loop()
        self.n_env = 0
        self.env = None
        self.Env = Env

    def ensure_env(self):
        if self.env is None:
            self.n_env += 1
            self.env = self.Env(self.sh.scratch, f"{os.getpid()}-{self.n_env}")
            self.loop.run_until_complete(self.env.start())
        return self.env

    def drop_env(self, hard=False):
        if self.env is not None:
            try:
                if not hard:
                    self.loop.run_until_complete(self.env.stop())
            except BaseException:
                pass
            shutil.rmtree(self.env.root, ignore_errors=True)
            self.env = None

    def base(self, env, loc, case):
        if loc == "W" and case["w_mapped"]:
            return os.path.join(env.outer, f"n{case['idx']}")
        return os.path.join(env.root, "cases", f"n{case['idx']}-{loc}")

    def close(self):
        self.drop_env()
        try:
            self.loop.close()
        except BaseException:
            pass


def registered(env, loc_key, path) -> bool:
    from streamflow.core.data import DataType

    loc = env.locs[loc_key]
    dls = env.ctx.data_manager.get_data_locations(path, loc.deployment, loc.name)
    return any(dl.available.is_set() and dl.data_type in (DataType.PRIMARY, DataType.SYMBOLIC_LINK) and dl.path == path
               for dl in dls)


def aliases(src, final) -> str | None:
    """A writable copy must not be the source itself."""
    if os.path.islink(final):
        return f"destination is a symbolic link to {os.readlink(final)}"
    if os.path.isfile(src) and os.path.isfile(final) and os.path.samefile(src, final):
        return "destination is a hard link of the source"
    if os.path.isdir(src) and os.path.isdir(final):
        for r, ds, fs in os.walk(final):
            for f in fs:
                p = os.path.join(r, f)
                q = os.path.join(src, os.path.relpath(p, final))
                if not os.path.islink(p) and os.path.isfile(q) and not os.path.islink(q) and os.path.samefile(p, q):
                    return f"{os.path.relpath(p, final)} is a hard link of the source file"
    return None


async def one_transfer(env, src_key, src, dst_key, dst, writable, timeout, early=None, explained=None):
    """`early`: after that many seconds, give up at once if `explained()` (the command log shows a raw
    unterminated quote: the persistent shell waits for more input forever); otherwise keep waiting until
    `timeout`."""
    task = asyncio.ensure_future(
        env.ctx.data_manager.transfer_data(env.locs[src_key], src, [env.locs[dst_key]], dst, writable=writable))
    waited = 0.0
    for t in ([early, timeout - early] if early else [timeout]):
        done, _ = await asyncio.wait({task}, timeout=t)
        waited += t
        if done or (early and waited == early and explained()):
            break
    if not task.done():
        task.cancel()
        try:
            await asyncio.wait_for(asyncio.gather(task, return_exceptions=True), 10)
        except Exception:
            pass
        return "hang", f"no answer within {waited:.0f}s"
    try:
        task.result()
        return "ok", ""
    except asyncio.CancelledError:
        return "hang", "cancelled"
    except Exception as e:
        return "raise", f"{type(e).__name__}: {str(e)[:300]}"


def run_case(sh: Shard, R: Runner, case: dict) -> None:
    env = R.ensure_env()
    sbase, dbase = R.base(env, case["src_loc"], case), R.base(env, case["dst_loc"], case)
    src = os.path.join(sbase, "S", case["src_parent"], case["src_name"])
    dparent = os.path.join(dbase, "D", case["dst_parent"])
    dst = os.path.join(dparent, case["dst_name"])
    route = f"{case['src_loc']}>{case['dst_loc']}"
    stray0 = set(os.listdir(sh.scratch))
    try:
        for b in {sbase, dbase}:
            shutil.rmtree(b, ignore_errors=True)
        if case["kind"] == "file":
            T.materialise_file(src, case["tree"][0])
            import hashlib

            e = case["tree"][0]
            want = {".": ("f", hashlib.sha256(T.file_bytes(e)).hexdigest()[:24], e["x"] & 0o111)}
        else:
            os.makedirs(os.path.dirname(src), exist_ok=True)
            T.materialise(src, case["tree"])
            want = norm(T.expected_digest(case["tree"]))
        if norm(T.digest(src)) != norm(want):
            sh.inconclusive_because(f"harness: materialised source differs from its spec (case {case['idx']})")
            return
        if case["dst_state"] == "parent-exists":
            os.makedirs(dparent, exist_ok=True)
        elif case["dst_state"] == "into-dir":
            os.makedirs(dst, exist_ok=True)
        final = os.path.join(dst, case["src_name"]) if case["dst_state"] == "into-dir" else dst
        env.clear_logs()
        env.ctx.data_manager.register_path(env.locs[case["src_loc"]], src, case["src_name"])
        unbalanced = any(n in T.UNBALANCED for n in (case["src_name"], case["dst_name"], case["src_parent"], case["dst_parent"]))
        timeout = sh.pick(60, 120)
        early = 8 if unbalanced else None
        explained = lambda: hostile_mechanism(env, case, src, dst)[0] is not None  # noqa: E731
        outcome, info = R.loop.run_until_complete(
            one_transfer(env, case["src_loc"], src, case["dst_loc"], dst, case["writable"], timeout, early, explained))
        judge(sh, env, case, route, src, dst, final, want, outcome, info, hop=1)
        sh.count(f"route_{route}")
        if outcome == "hang":
            env.kill_shells()
        elif outcome == "ok" and case.get("hop2") and norm(T.digest(final)) == norm(want) and registered(env, case["dst_loc"], final):
            h = case["hop2"]
            hbase = R.base(env, h["dst_loc"], dict(case, idx=f"{case['idx']}h"))
            shutil.rmtree(hbase, ignore_errors=True)
            hdst = os.path.join(hbase, "D2", h["dst_name"])
            hsrc_key, hsrc = (case["src_loc"], src) if h["mode"] == "again" else (case["dst_loc"], final)
            env.clear_logs()
            explained2 = lambda: hostile_mechanism(env, case, hsrc, hdst)[0] is not None  # noqa: E731
            outcome2, info2 = R.loop.run_until_complete(
                one_transfer(env, hsrc_key, hsrc, h["dst_loc"], hdst, h["writable"], timeout, early, explained2))
            c2 = dict(case, writable=h["writable"], dst_state="parent-missing", src_loc=hsrc_key, dst_loc=h["dst_loc"],
                      src_name=os.path.basename(hsrc), dst_name=h["dst_name"])
            judge(sh, env, c2, f"{hsrc_key}>{h['dst_loc']}", hsrc, hdst, hdst, want, outcome2, info2, hop=2, orig=case)
            sh.count(f"hop2_{h['mode']}")
            if outcome2 == "hang":
                env.kill_shells()
            shutil.rmtree(hbase, ignore_errors=True)
    finally:
        if any(n in T.UNBALANCED for n in (case["src_name"], case["dst_name"], case["src_parent"], case["dst_parent"])):
            env.kill_shells()  # a persistent shell may still sit inside an open quote: never reuse it
        for b in {sbase, dbase}:
            shutil.rmtree(b, ignore_errors=True)
        stray = set(os.listdir(sh.scratch)) - stray0
        if stray:
            sh.count("stray_entries_in_cwd", len(stray))
            R.strays = getattr(R, "strays", [])
            if len(R.strays) < 8:
                R.strays.append({"case_hostile": case["hostile"], "placement": case["placement"], "names": sorted(stray)[:4]})
            for n in stray:
                p = os.path.join(sh.scratch, n)
                shutil.rmtree(p, ignore_errors=True) if os.path.isdir(p) and not os.path.islink(p) else os.unlink(p)


def hostile_mechanism(env, case, src, dst):
    """First logged command line (chronological) that embeds a hostile path RAW — present verbatim but not
    in its shlex-quoted form — in an unquoted / double-quoted template where one of its metacharacter
    classes is active.  Returns (label, line) or (None, None)."""
    import shlex

    from vf.harness.c22_env import ACTIVE, template_of

    cands = set()
    for p in (src, dst):
        for q in {p, p.replace(env.outer, env.inner, 1), p.replace(env.inner, env.outer, 1)}:
            cands.update({q, os.path.dirname(q), os.path.basename(q), os.path.join(q, os.path.basename(src))})
    cands = {c for c in cands if T.char_classes(c)}
    for kind, line in env.logs():
        label, style = template_of(kind, line)
        if label is None:
            continue
        words = line.split(" ")
        if label == "tar-reader" and words[-1].startswith("-") and "--" not in words and os.path.basename(src).startswith("-"):
            return MECH_DASH, line
        for c in sorted(cands, key=len, reverse=True):
            if c in line and shlex.quote(c) not in line and set(T.char_classes(c)) & ACTIVE[style]:
                return f"C22/shell-{style}-{label}", line
    return None, None


def into_dir_spread(case, dst, want) -> bool:
    """The source directory's *content* sits directly under the existing destination directory (and the
    registered dst/<name> is absent or an empty directory)."""
    under_dst = norm(T.digest(dst)) or {}
    name = case["src_name"]
    spread = {k: v for k, v in under_dst.items() if k != name and not k.startswith(name + "/")}
    return spread == norm(want)


def judge(sh, env, case, route, src, dst, final, want, outcome, info, hop, orig=None):
    got = norm(T.digest(final))
    sh.count("oracle_tree_compared")
    reg = registered(env, case["dst_loc"], final)
    sh.count("oracle_registration_checked")
    src_same = norm(T.digest(src)) == norm(want)
    alias = aliases(src, final) if (case["writable"] and got is not None) else None
    paths_hostile = sorted({c for p in (src, dst) for x in p.split("/") for c in T.char_classes(x)})
    key = {k: v for k, v in (orig or case).items()}
    sh.case(("xfer", hop, key), nontrivial=not (case["kind"] == "dir" and not case["tree"]))
    problems = []
    if outcome != "ok":
        problems.append(f"transfer_data {outcome}: {info}")
    if got != norm(want):
        problems.append(f"destination tree differs: {T.diff_digests(norm(want), got)}")
    if outcome == "ok" and not reg:
        problems.append("destination not registered as an available location")
    if not src_same:
        problems.append("source tree changed")
    if alias:
        problems.append(f"writable copy aliases the source: {alias}")
    hist = f"{'hostile-path' if paths_hostile else ('hostile-tree' if case['hostile'] else 'benign')}"
    if hop == 1 and case["hostile"]:
        sh.count(f"hostile_case[{case['hostile']}/{case['placement']}]")
    if not problems:
        sh.count("benign_exact" if not paths_hostile else "hostile_path_exact")
        sh.count(f"exact[{hist}]")
        if hop == 1 and sh.shard == 0 and case["kind"] == "dir" and len(case["tree"]) > 3:
            sh.sample({"route": route, "kind": case["kind"], "writable": case["writable"], "dst_state": case["dst_state"],
                       "renamed": case["src_name"] != case["dst_name"], "entries": len(want), "hostile": case["hostile"],
                       "placement": case["placement"], "commands": [l for _, l in env.logs()][:6]}, limit=3)
        return
    wit = {"case": orig or case, "hop": hop, "route": route, "src": src, "dst": dst, "final": final, "outcome": outcome, "info": info,
           "registered": reg, "problems": problems, "log": env.logs()[:12]}
    mech = None
    diff = T.diff_digests(norm(want), got)
    remote_pair = case["src_loc"] != "L" and case["dst_loc"] != "L" and case["src_loc"] != case["dst_loc"]
    log_labels = []
    from vf.harness.c22_env import template_of

    for k, l in env.logs():
        lab, _ = template_of(k, l)
        if lab:
            log_labels.append(lab)
    # (1) F-C22a: exactly — a single file, remote->remote through `tar -O | tee`, everything right but the exec bit
    if (outcome == "ok" and reg and src_same and not alias and case["kind"] == "file" and "tee-writer" in log_labels
            and got is not None and set(got) == {"."} and got["."][0] == "f" and got["."][1] == want["."][1]
            and want["."][2] != 0 and got["."][2] == 0):
        mech = MECH_EXEC
    # (2) directory copied *into* an existing directory: data manager registers dst/<name>, the copy routine
    #     put the content directly under dst
    elif (outcome == "ok" and case["kind"] == "dir" and case["dst_state"] == "into-dir" and src_same
          and (got is None or got == {".": ("d",)}) and into_dir_spread(case, dst, want)):
        mech = MECH_INTO
    # (3) hostile path components reaching a shell raw
    elif paths_hostile:
        mech, line = hostile_mechanism(env, case, src, dst)
        wit["shell_line"] = line
    if outcome == "hang" and mech is None:
        # wall-clock watchdog without a mechanistic explanation (raw unbalanced quote in a shell line):
        # never a violation by itself
        sh.inconclusive_because(f"transfer watchdog expired with no explaining shell line: {route} {case['kind']} case {case['idx']}: {info}")
        return
    report(sh, mech, f"{route} {case['kind']} writable={case['writable']} dst_state={case['dst_state']} "
                       f"renamed={case['src_name'] != case['dst_name']} hop={hop} [{hist}{':' + ','.join(paths_hostile) if paths_hostile else ''}]: "
                       + "; ".join(problems)[:900], wit)


# --------------------------------------------------------------------------------------------


def run_shard(sh: Shard) -> None:
    import time

    R = Runner(sh)
    R.ensure_env()
    # the soft budget is counted from here: importing StreamFlow + building the context alone takes
    # 3 s on an idle machine and minutes on a saturated one
    deadline = time.time() + sh.plan["budget_s"]
    idx = sh.shard
    n = 0
    try:
        while time.time() < deadline:
            case = gen_case(sh, idx)
            try:
                run_case(sh, R, case)
            except Exception as e:
                sh.inconclusive_because(f"harness error in case {idx}: {short_tb(e)}")
                R.drop_env(hard=True)
            idx += sh.nshards
            n += 1
            if n % 150 == 0:  # bound the data manager's memory of old cases
                R.drop_env()
    finally:
        sh.note("cases", n)
        sh.note("stray_files_created_by_shell_interpretation", getattr(R, "strays", []))
        R.close()


def replay(sh: Shard, w: dict) -> None:
    R = Runner(sh)
    try:
        run_case(sh, R, w["case"])
    finally:
        R.close()
