"""C20  Provenance-graph operations keep the graph consistent.

Workload on the REAL streamflow.recovery.utils classes:
  seq     random operation sequences (add, remove_nodes / remove_node with and without pruning,
          replace, promote_to_source) on graphs of <= 12 nodes: DirectedAcyclicGraph (kept acyclic
          by the generator) and DirectedGraph (cycles, self loops, str port-name nodes);
  exh     bounded-exhaustive: every start graph on <= n nodes x every sequence of <= L operations
          from the full operation alphabet over the node universe (bounds in plan()["rule"]);
  mapper  GraphMapper built by the real create_graph_mapper from a hand-made ProvenanceGraph
          (what RollbackRecoveryPolicy/_recover does), then move_token_to_root / replace_token.
Oracle:
  * reference graph (vf/models/c20_graph.py: set of edges, statement semantics) compared after every
    operation through the public query methods (get_nodes, successors, predecessors, in/out_degree,
    get_sources/get_sinks, contains, empty) + returned removed lists + ValueError of replace;
  * icontract class invariant "successor and predecessor views mirror each other" on the real
    DirectedGraph / DirectedAcyclicGraph, evaluated before and after every public method call;
  * GraphMapper: reference mapper + consistency of port_tokens / token_instances /
    token_availability (and port_name_ids / dcg_ports) with dag_tokens.
"""
from __future__ import annotations

import asyncio

from vf.common import Shard, short_tb
from vf.models import c20_graph as M

PROPERTY = "C20"
META = {
    "text": "For every explored operation sequence the real DirectedGraph / DirectedAcyclicGraph agree, after "
            "every operation and through every query method, with a plain set-of-edges reference graph (removal "
            "with/without pruning, replace, promote_to_source, returned removed lists), their successor and "
            "predecessor maps are mirrors at every public-method boundary, and GraphMapper.move_token_to_root / "
            "replace_token keep port_tokens, token_instances and token_availability consistent with dag_tokens.",
    "note": "DirectedAcyclicGraph is only driven with acyclic edge sets (it does not reject cycles itself); queries "
            "on absent nodes are not judged; the order of returned removed lists is not judged (set + no "
            "duplicates is); GraphMapper start states are those create_graph_mapper builds from provenance "
            "graphs whose tokens are distinct per (port, tag).",
    "technique": "random + bounded-exhaustive op sequences vs reference graph; icontract class invariant",
}


def plan(tier):
    q = tier == "quick"
    return {
        "level": "exploration",
        "shards": 16,
        "budget_s": 45 if q else 700,
        "timeout_s": 600 if q else 3600,
        "min_nontrivial": 5000 if q else 100000,
        "required_counters": ["inv_mirror", "inv_dag_nodes", "ops_judged", "op_rm_prune", "op_rm_noprune",
                              "op_rep", "op_prom", "pruned_beyond_request", "mapper_ops_judged",
                              "mapper_root_removed_tokens", "mapper_replaced"],
        "rule": "seq: seeded random sequences of 1..10 operations after 0..20 random adds on <=12 nodes (70% DAG class, "
                "30% DirectedGraph with cycles/self-loops; int or str labels), full query-API comparison after every "
                "operation. exh: all start graphs (DAG: every edge subset of the order 0<1<..<n-1; DirectedGraph: every "
                "edge subset incl. self loops) x all sequences of <=L operations over the alphabet {add(u), add(u,v), "
                "remove_node(x,prune?), remove_nodes([x,y] ordered,prune?), replace(x,fresh), replace(x,existing), "
                "promote_to_source(x)} with x over the universe plus one absent node; quick: DAG n<=3 L<=2, n=4 L=1, "
                "DG n<=2 L<=2; thorough: DAG n<=3 L<=3, n=4 L<=2, n=5 L=1, DG n<=2 L<=3, n=3 L=1. mapper: random "
                "provenance DAGs of <=8 tokens on <=4 ports, 1..6 move_token_to_root/replace_token operations. "
                "distinct = distinct (class, adds, operations); non-trivial = at least one operation changed the graph.",
        "exhaustive": True,
        "assumptions": ["DirectedAcyclicGraph is only given acyclic edge sets",
                        "GraphMapper start states come from create_graph_mapper on (port, tag)-distinct provenance"],
    }


# ------------------------------------------------------------------------------------------
# graphs


def _mk(dag):
    from streamflow.recovery.utils import DirectedAcyclicGraph, DirectedGraph

    return (DirectedAcyclicGraph if dag else DirectedGraph)("vf")


def gen_seq(rng, max_nodes=12, max_ops=10):
    dag = rng.random() < 0.7
    N = rng.randint(1, max_nodes)
    lab = (lambda i: i) if rng.random() < 0.7 else (lambda i: f"p{i}")
    ref = M.RefGraph()
    adds, ops = [], []
    fresh = [N]

    def rnd_edge():
        u, v = rng.randrange(N), rng.randrange(N)
        if dag:
            if u == v:
                return (lab(u), None)
            u, v = lab(u), lab(v)
            # keep it acyclic whatever replace did to the labels: u->v only if v does not reach u
            if u in ref.nodes and v in ref.nodes and ref.reaches(v, u):
                u, v = v, u
            if u in ref.nodes and v in ref.nodes and ref.reaches(v, u):
                return (u, None)
            return (u, v)
        return (lab(u), lab(v) if rng.random() < 0.9 else None)

    dens = rng.choice([0.5, 1.0, 1.5, 2.5])
    for _ in range(rng.randint(0, min(20, int(N * dens) + 1))):
        u, v = rnd_edge()
        ref.add(u, v)
        adds.append(["add", u, v])

    def some_node(p_absent=0.12):
        if ref.nodes and rng.random() > p_absent:
            return rng.choice(sorted(ref.nodes, key=repr))
        return lab(rng.randrange(N + 2))

    for _ in range(rng.randint(1, max_ops)):
        kinds = ["rm", "rm", "rm_np", "rm1", "rep", "add"] + (["prom", "prom"] if dag else [])
        k = rng.choice(kinds)
        if k in ("rm", "rm_np"):
            ns = [some_node() for _ in range(rng.randint(1, 3))]
            if rng.random() < 0.1 and ns:
                ns.append(ns[0])
            ops.append(["rm", ns, k == "rm"])
            ref.remove(ns, prune=(k == "rm"))
        elif k == "rm1":
            x, pr = some_node(), rng.random() < 0.7
            ops.append(["rm1", x, pr])
            ref.remove([x], prune=pr)
        elif k == "rep":
            o = some_node()
            if rng.random() < 0.85:
                fresh[0] += 1
                n = lab(fresh[0] + 100)
            else:
                n = some_node(0.0)
            ops.append(["rep", o, n])
            try:
                ref.replace(o, n)
            except ValueError:
                pass
        elif k == "prom":
            x = some_node()
            ops.append(["prom", x])
            ref.promote(x)
        else:
            u, v = rnd_edge()
            ops.append(["add", u, v])
            ref.add(u, v)
    return {"kind": "seq", "dag": dag, "adds": adds, "ops": ops}


def apply_op(g, ref, op):
    """Apply one op to the real graph and the reference. -> (description of disagreement | None, changed?)"""
    k = op[0]
    before = ref.state()
    if k == "add":
        g.add(op[1], op[2])
        ref.add(op[1], op[2])
        bad = None
    elif k in ("rm", "rm1"):
        ns = list(op[1]) if k == "rm" else [op[1]]
        got = g.remove_nodes(list(ns), prune_dead_end=op[2]) if k == "rm" else g.remove_node(op[1], prune_dead_end=op[2])
        exp = ref.remove(ns, prune=op[2])
        bad = None
        if sorted(got, key=repr) != sorted(exp, key=repr):
            bad = (f"{'remove_nodes' if k == 'rm' else 'remove_node'}({op[1]}, prune_dead_end={op[2]}) returned "
                   f"{sorted(got, key=repr)}, reference removes {sorted(exp, key=repr)}")
    elif k == "rep":
        ge = re_ = None
        try:
            g.replace(op[1], op[2])
        except ValueError:
            ge = "ValueError"
        try:
            ref.replace(op[1], op[2])
        except ValueError:
            re_ = "ValueError"
        bad = None if ge == re_ else f"replace({op[1]},{op[2]}) raised {ge}, reference {re_}"
    elif k == "prom":
        got = g.promote_to_source(op[1])
        exp = ref.promote(op[1])
        bad = None
        if sorted(got, key=repr) != sorted(exp, key=repr):
            bad = f"promote_to_source({op[1]}) returned {sorted(got, key=repr)}, reference removes {sorted(exp, key=repr)}"
    else:
        raise ValueError(op)
    return bad, before != ref.state()


def _inv_msg(e):
    lines = [x.strip() for x in str(e).split("\n") if x.strip()]
    return " ".join(x for x in lines if not x.startswith("File "))[:400]


def run_seq(sh: Shard, case, each=True):
    """-> (failure dict | None, nontrivial)"""
    dag = case["dag"]
    g, ref = _mk(dag), M.RefGraph()
    nontrivial = False
    i = -1
    try:
        for a in case["adds"]:
            g.add(a[1], a[2])
            ref.add(a[1], a[2])
        for i, op in enumerate(case["ops"]):
            n_before = len(ref.nodes)
            bad, changed = apply_op(g, ref, op)
            nontrivial |= changed
            sh.count("ops_judged")
            if op[0] in ("rm", "rm1"):
                sh.count("op_rm_prune" if op[2] else "op_rm_noprune")
                req = {n for n in (op[1] if op[0] == "rm" else [op[1]])}
                if op[2] and n_before - len(ref.nodes) > len(req):
                    sh.count("pruned_beyond_request")
            else:
                sh.count("op_" + op[0])
            if bad is None and (each or i == len(case["ops"]) - 1):
                bad = M.compare(M.snapshot(g, dag), ref, dag)
            if bad:
                return {"op_index": i, "op": op, "what": bad}, nontrivial
    except M.MirrorBroken as e:
        return {"op_index": i, "op": case["ops"][i] if i >= 0 else None,
                "what": "class invariant broken: " + _inv_msg(e), "invariant": True}, nontrivial
    except Exception as e:
        return {"op_index": i, "op": case["ops"][i] if i >= 0 else None,
                "what": f"{type(e).__name__} raised: {short_tb(e, 3)[-500:]}"}, nontrivial
    return None, nontrivial


def judge_seq(sh: Shard, case, each=True, sample=False):
    fail, nontrivial = run_seq(sh, case, each)
    sh.case(("seq", case["dag"], case["adds"], case["ops"]), nontrivial=nontrivial)
    if sample:
        sh.sample({"case": case, "verdict": "agrees with reference after every operation" if not fail else fail})
    if fail:
        sh.violation(None, f"{'DirectedAcyclicGraph' if case['dag'] else 'DirectedGraph'} after op #{fail['op_index']} "
                           f"{fail['op']}: {fail['what']}", {"case": case, "fail": fail})
    return fail


# ------------------------------------------------------------------------------------------
# bounded-exhaustive


def start_graphs(dag, n):
    nodes = list(range(n))
    if dag:
        pairs = [(u, v) for u in nodes for v in nodes if u < v]
    else:
        pairs = [(u, v) for u in nodes for v in nodes]
    for mask in range(1 << len(pairs)):
        adds = [["add", u, None] for u in nodes]
        adds += [["add", u, v] for k, (u, v) in enumerate(pairs) if mask >> k & 1]
        yield adds


def alphabet(dag, ref: M.RefGraph, n):
    """All operations over the universe 0..n-1 plus the absent/fresh node n (given the current reference state,
    so that DAG adds stay acyclic)."""
    U = list(range(n))
    absent = n + 50
    ops = []
    for x in U + [absent]:
        ops.append(["rm1", x, True])
        ops.append(["rm1", x, False])
        ops.append(["rep", x, n + 60])
        if dag:
            ops.append(["prom", x])
    for x in U:
        for y in U:
            if x != y:
                ops.append(["rm", [x, y], True])
                ops.append(["rm", [x, y], False])
                ops.append(["rep", x, y])
    for u in U:
        ops.append(["add", u, None])
        for v in U:
            if dag and (u == v or (u in ref.nodes and v in ref.nodes and ref.reaches(v, u))):
                continue
            ops.append(["add", u, v])
    return ops


def exh_space(tier):
    if tier == "quick":
        return [(True, 1, 2), (True, 2, 2), (True, 3, 2), (True, 4, 1), (False, 1, 2), (False, 2, 2)]
    return [(True, 1, 3), (True, 2, 3), (True, 3, 3), (True, 4, 2), (True, 5, 1),
            (False, 1, 3), (False, 2, 3), (False, 3, 1)]


def run_exhaustive(sh: Shard):
    done = {}
    idx = 0
    complete = True
    for dag, n, L in exh_space(sh.tier):
        cnt = 0
        for adds in start_graphs(dag, n):
            # a fixed, small amount of work: finished whatever the soft budget says (only the shard's
            # wall-clock watchdog can cut it, which makes the shard inconclusive in the driver)
            base = M.RefGraph()
            for a in adds:
                base.add(a[1], a[2])

            def rec(prefix, ref, depth):
                nonlocal cnt, idx
                for op in alphabet(dag, ref, n):
                    if depth == 0:  # sharded by (start graph, first operation)
                        idx += 1
                        if not sh.mine(idx):
                            continue
                    seq = prefix + [op]
                    case = {"kind": "seq", "dag": dag, "adds": adds, "ops": seq}
                    # prefixes are cases of their own: only the last operation needs the full comparison
                    judge_seq(sh, case, each=False)
                    cnt += 1
                    if depth + 1 < L:
                        r2 = ref.copy()
                        try:
                            if op[0] == "add":
                                r2.add(op[1], op[2])
                            elif op[0] == "rm":
                                r2.remove(op[1], prune=op[2])
                            elif op[0] == "rm1":
                                r2.remove([op[1]], prune=op[2])
                            elif op[0] == "rep":
                                r2.replace(op[1], op[2])
                            else:
                                r2.promote(op[1])
                        except ValueError:
                            pass
                        rec(seq, r2, depth + 1)

            rec([], base, 0)
        done[f"{'dag' if dag else 'dg'}_n{n}_L{L}"] = cnt
    sh.count("exhaustive_sequences", sum(done.values()))
    sh.note("exhaustive_sequences_by_scope_this_shard", done)
    sh.note("exhaustive_space_completed", complete)
    if not complete:
        sh.inconclusive_because("bounded-exhaustive enumeration did not finish inside the budget")


# ------------------------------------------------------------------------------------------
# GraphMapper


def gen_mapper(rng, equal=False):
    n = rng.randint(2, 8)
    nports = rng.randint(1, 4)
    toks = []
    used = set()
    jobports = {p for p in range(nports) if rng.random() < 0.2}
    for i in range(1, n + 1):
        port = rng.randrange(nports)
        job = None
        for _ in range(20):
            tag = "0." + str(rng.randrange(4)) if rng.random() < 0.8 else "0"
            if port in jobports:  # a JobPort only holds JobTokens (equal by job name)
                job = f"/s{port}/{tag}"
            key = (port, job if job else tag)
            if equal or key not in used:
                break
        if key in used and not equal:
            continue
        used.add(key)
        toks.append({"id": i, "port": f"port{port}", "port_id": 10 + port, "tag": tag, "job": job,
                     "avail": rng.random() < 0.4})
    ids = [t["id"] for t in toks]
    edges = []
    for a in ids:
        for b in ids:
            if a < b and rng.random() < rng.choice([0.2, 0.35, 0.6]):
                edges.append([a, b])
    ops = []
    nxt = 100
    for _ in range(rng.randint(1, 6)):
        if rng.random() < 0.55:
            ops.append(["root", rng.choice(ids + [99])])
        else:
            t = rng.choice(toks)
            r = rng.random()
            if r < 0.6:  # a newer token with the same port/tag (what _update_token does)
                nxt += 1
                ops.append(["repl", t["port"], nxt, t["tag"], t["job"], rng.random() < 0.6])
            elif r < 0.75:  # same token
                ops.append(["repl", t["port"], t["id"], t["tag"], t["job"], rng.random() < 0.5])
            elif r < 0.9:  # id of another token already in the graph
                ops.append(["repl", t["port"], rng.choice(ids), t["tag"], t["job"], rng.random() < 0.5])
            else:  # no equal token
                nxt += 1
                ops.append(["repl", t["port"], nxt, "0.77", None, True])
    return {"kind": "mapper", "equal": equal, "tokens": toks, "edges": edges, "ops": ops}


def _token(tid, tag, job):
    from streamflow.core.workflow import Job, Token
    from streamflow.workflow.token import JobToken

    if job is not None:
        t = JobToken(value=Job(name=job, workflow_id=1, inputs={}, input_directory=None,
                               output_directory=None, tmp_directory=None), tag=tag)
    else:
        t = Token(value=tid, tag=tag)
    t.persistent_id = tid
    return t


_loop = None


def _run(coro):
    global _loop
    if _loop is None:
        _loop = asyncio.new_event_loop()
    return _loop.run_until_complete(coro)


def build_mapper(case):
    from streamflow.recovery.utils import ProvenanceGraph, ProvenanceToken, create_graph_mapper

    prov = ProvenanceGraph(None)
    inst = {}
    for t in case["tokens"]:
        inst[t["id"]] = _token(t["id"], t["tag"], t["job"])
        prov.info_tokens[t["id"]] = ProvenanceToken(instance=inst[t["id"]], is_available=t["avail"],
                                                    port_id=t["port_id"], port_name=t["port"])
        prov.add(inst[t["id"]])
    for a, b in case["edges"]:
        prov.add(inst[a], inst[b])
    return _run(create_graph_mapper(None, prov))


def expected_build(case):
    r = M.RefMapper()
    for t in case["tokens"]:
        r.dag.add(t["id"])
        r.dcg.add(t["port"])
        r.ports.setdefault(t["port"], set()).add(t["id"])
        r.port_ids.setdefault(t["port"], set()).add(t["port_id"])
        r.avail[t["id"]] = t["avail"]
        r.inst[t["id"]] = (t["tag"], t["job"])
    byid = {t["id"]: t for t in case["tokens"]}
    for a, b in case["edges"]:
        r.dag.add(a, b)
        r.dcg.add(byid[a]["port"], byid[b]["port"])
    return r


def ref_from_real(m):
    st = M.mapper_state(m)
    r = M.RefMapper()
    r.dag.nodes, r.dag.edges = set(st["dag"][0]), set(st["dag"][1])
    r.dcg.nodes, r.dcg.edges = set(st["dcg"][0]), set(st["dcg"][1])
    r.ports = {p: set(s) for p, s in st["ports"].items()}
    r.port_ids = {p: set(s) for p, s in st["port_ids"].items()}
    r.avail = dict(st["avail"])
    r.inst = dict(st["inst"])
    return r


def _diff_state(a, b):
    for k in ("dag", "dcg", "ports", "port_ids", "avail", "inst"):
        if a[k] != b[k]:
            return f"{k}: real {_short(a[k])} != reference {_short(b[k])}"
    return None


def _short(x):
    if isinstance(x, tuple):
        return "(nodes=%s, edges=%s)" % (sorted(x[0], key=repr), sorted(x[1], key=repr))
    if isinstance(x, dict):
        return {k: (sorted(v, key=repr) if isinstance(v, frozenset) else v) for k, v in sorted(x.items(), key=repr)}
    return x


def run_mapper(sh: Shard, case):
    """-> failure dict | None"""
    from streamflow.core.exception import FailureHandlingException

    try:
        m = build_mapper(case)
    except M.MirrorBroken as e:
        return {"op_index": -1, "what": "class invariant broken while building: " + _inv_msg(e), "invariant": True}
    except Exception as e:
        if case["equal"]:  # out of the judged domain (see below): recorded only
            sh.count("mapper_equal_domain_builds")
            sh.count("mapper_equal_domain_build_raised_" + type(e).__name__)
            return None
        return {"op_index": -1, "what": f"create_graph_mapper raised {type(e).__name__}: {short_tb(e, 3)[-400:]}"}
    bad = M.mapper_consistency(m)
    if case["equal"]:
        # start states with two tokens equal by (port, tag) go through _update_token's own
        # replace/move logic: outside the judged domain, the outcome is recorded only
        sh.count("mapper_equal_domain_builds")
        if bad:
            sh.count("mapper_equal_domain_build_inconsistent")
            return None
    else:
        sh.count("mapper_builds_judged")
        bad = bad or _diff_state(M.mapper_state(m), expected_build(case).state())
        if bad:
            return {"op_index": -1, "what": "create_graph_mapper result: " + bad}
    ref = ref_from_real(m)
    for i, op in enumerate(case["ops"]):
        before = M.mapper_state(m)
        try:
            if op[0] == "root":
                m.move_token_to_root(op[1])
                removed = ref.move_to_root(op[1])
                if removed:
                    sh.count("mapper_root_removed_tokens")
                exc = exp = None
            else:
                _, port, tid, tag, job, avail = op
                exp = ref.replace(port, tid, tag, job, avail)
                exc = None
                try:
                    m.replace_token(port, _token(tid, tag, job), avail)
                except FailureHandlingException:
                    exc = "FailureHandlingException"
                except ValueError:
                    exc = "ValueError"
                if exp is None and exc is None and M.mapper_state(m) != before:
                    sh.count("mapper_replaced")
        except M.MirrorBroken as e:
            return {"op_index": i, "op": op, "what": "class invariant broken: " + _inv_msg(e), "invariant": True}
        except Exception as e:
            return {"op_index": i, "op": op, "what": f"{type(e).__name__} raised: {short_tb(e, 3)[-500:]}"}
        sh.count("mapper_ops_judged")
        want = {None: None, "noequal": "FailureHandlingException", "mismatch": "FailureHandlingException",
                "exists": "ValueError"}[exp]
        if exc != want:
            return {"op_index": i, "op": op, "what": f"replace_token raised {exc}, reference expects {want} ({exp})"}
        bad = _diff_state(M.mapper_state(m), ref.state()) or M.mapper_consistency(m)
        if bad:
            return {"op_index": i, "op": op, "what": bad}
    return None


def judge_mapper(sh: Shard, case, sample=False):
    fail = run_mapper(sh, case)
    sh.case(("mapper", case["tokens"], case["edges"], case["ops"]), nontrivial=bool(case["edges"]))
    if sample:
        sh.sample({"case": case, "verdict": "mapper agrees with reference and stays consistent" if not fail else fail})
    if fail:
        sh.violation(None, f"GraphMapper after op #{fail['op_index']} {fail.get('op')}: {fail['what']}",
                     {"case": case, "fail": fail})
    return fail


# ------------------------------------------------------------------------------------------


def run_shard(sh: Shard) -> None:
    M.install_invariants(sh.count)
    rng = sh.rng("seq", sh.shard)

    # 1. bounded-exhaustive part (sharded by start graph); uses at most ~half of the budget on quick
    run_exhaustive(sh)

    # 2. GraphMapper
    n_map = sh.pick(1500, 60000)
    for i in range(n_map):
        if i >= 200 and sh.out_of_budget():  # floors: judged whatever the machine load did to the soft budget
            break
        judge_mapper(sh, gen_mapper(rng, equal=(i % 5 == 4)), sample=(i == 0 and sh.shard == 1))

    # 3. random sequences
    n_seq = sh.pick(2600, 190000)
    sizes = {}
    for i in range(n_seq):
        if i >= 300 and sh.out_of_budget():
            break
        case = gen_seq(rng)
        judge_seq(sh, case, sample=(i == 0 and sh.shard in (0, 2)))
        k = f"{'dag' if case['dag'] else 'dg'}:{min(12, len({a[1] for a in case['adds']} | {a[2] for a in case['adds']} - {None}))}"
        sizes[k] = sizes.get(k, 0) + 1
    sh.note("random_sequences_by_class_and_start_nodes", sizes)


def replay(sh: Shard, w: dict) -> None:
    M.install_invariants(sh.count)
    case = w["case"]
    if case["kind"] == "mapper":
        judge_mapper(sh, case)
    else:
        judge_seq(sh, case)
