"""C21  The data-location registry answers consistently with its history.

Workload: random histories of register_path (PRIMARY / SYMBOLIC_LINK), register_relation,
invalidate_location (on paths known to the registry), re-registration and get_source_location on the
REAL DefaultDataManager, over path trees of depth 1..4 below six bases, on 1..3 locations taken from
real deployments: two names of one remote deployment, another remote deployment, the local location,
and stacked `vf-wrap` locations with mounts (one and two levels, nested mount points).

Oracle: the trace obligations of DESIGN.md C21 (vf/models/c21_registry.py), evaluated after every
operation on every known path x location filter:
  S1 no INVALID / filter-violating answer (+ S1b every filter combination equals the filtered full answer,
     S4 no (location, path) reported twice)
  S2 no resurrection   S3 no phantom   I1 other locations untouched   I2 nothing at/beneath the invalidated path
  C1 registered path and ancestors reported (alive until cancelled)   C2 relation visible from both ends
  G  get_source_location returns a valid PRIMARY member of the answer, None only if there is none.
A failing obligation is then *classified* by white-box predicates over _RemotePathMapper._filesystem
(local forms of inv-a / inv-b / inv-c); the white-box never decides a verdict.
"""
from __future__ import annotations

import asyncio
import os
import shutil

from vf.common import Shard, short_tb
from vf.models.c21_registry import Model, ancestors, at_or_beneath

PROPERTY = "C21"
META = {
    "text": "On every explored history the answers of get_data_locations / get_source_location satisfy the trace "
            "obligations that follow from the statement under every reading: no invalid, filtered-out, resurrected, "
            "phantom or duplicated record; an invalidation leaves other locations untouched and leaves nothing "
            "at or beneath the invalidated path on its location; a (re-)registered path and its ancestors are "
            "reported until an invalidation covers them; a declared relation is visible from both ends; the "
            "source location is a valid primary copy. Known exceptions are reported by mechanism.",
    "note": "Alias semantics are not judged (an invalidation cancels every obligation about a path related to, or "
            "beneath a path related to, the invalidated subtree on that location); transfers are not part of the "
            "histories; the white-box walk of the path tree only labels a failure, it never produces one.",
    "technique": "random operation histories, trace-obligation checker (history model), white-box classification",
}

MECH_A = "C21/stale-valid-paths"
MECH_B = "C21/invalidation-skips-invalid-child"
MECH_C = "C21/invalid-ancestor-not-restored"
MECH_D = "C21/unstored-inner-record"


def plan(tier):
    q = tier == "quick"
    return {
        "level": "exploration",
        "shards": 16,
        "budget_s": 50 if q else 800,
        "timeout_s": 600 if q else 3600,
        "min_nontrivial": 300 if q else 20000,
        "required_counters": ["S1", "S2", "S3", "S1b", "S4", "I1", "I2", "C1", "C2", "G", "vfwrap_validated",
                              "op_reg", "op_inv", "op_rel", "op_src", "reg_on_wrapped", "rereg_after_inv",
                              "G_inflight", "G_inflight_task_waited", "G_inflight_candidate_changed",
                              "transfer_real_gated"],
        "rule": "seeded random histories of 3..16 operations (reg x3 : inv : rel x2 : src) over paths "
                "<base>/x/y/z (x,y,z in {a,b,c}, relative depth 0..3) below 6 bases (plain, mount point, nested mount "
                "point, their inner directories, second-level mount point) on 1..3 of 7 locations (r1, r2 same "
                "deployment; x1; local; w1, w2 wrapping r1, r2 with mounts; ww1 wrapping w1); all obligations "
                "after every operation on all known paths x location filters. distinct = distinct (locations, "
                "operations); non-trivial = the history contains an invalidation of a registered path. "
                "in-flight copies: 300 (thorough 20000) synthetic cases per shard (1..2 destination records created as "
                "transfer_data does, PRIMARY and unavailable; 1..4 concurrent get_source_location tasks; per record a "
                "seeded event stays-PRIMARY / becomes SYMBOLIC_LINK / invalidated (path or parent) before `available` "
                "is set) + 4 (thorough 40) real transfer_data runs per shard with the copy gated; non-trivial = a task "
                "was waiting when the events were applied.",
        "exhaustive": False,
        "assumptions": ["alias semantics of invalidation are not judged", "transfers are out of the histories"],
    }


# ------------------------------------------------------------------------------------------
# generation (model only: a case is a pure JSON history)

NAMES = ["a", "b", "c"]
BASES = ["T", "O", "D", "I", "E", "OO"]
# static description of the location table built by vf.harness.c21_locs (index -> wraps index)
LOCS = ["r1", "r2", "x1", "w1", "w2", "ww1", "local"]
WRAPS = {3: 0, 4: 1, 5: 3}


def resolve(sym, bases):
    b, _, rest = sym.partition("/")
    return bases[b] + ("/" + rest if rest else "")


def _rnd_path(rng, li):
    if li in WRAPS:
        base = rng.choice(["O", "O", "D", "T", "OO"] if li != 5 else ["OO", "OO", "O", "T"])
    else:
        base = rng.choice(["T", "T", "I", "I", "E", "O"])
    d = rng.choice([0, 1, 1, 2, 2, 3])
    return "/".join([base] + [rng.choice(NAMES) for _ in range(d)])


def gen_case(rng, bases):
    k = rng.randint(1, 3)
    pool = [0, 1, 2, 3, 4, 5, 6]
    locs = rng.sample(pool, k)
    if rng.random() < 0.5 and not any(l in WRAPS for l in locs):
        locs[0] = rng.choice([3, 3, 4, 5])
    active = set(locs)
    for l in list(active):
        while l in WRAPS:
            l = WRAPS[l]
            active.add(l)
    locs = sorted(active)
    meta = [{"key": (f"d{i}", n), "wraps": WRAPS.get(i), "mounts": {}} for i, n in enumerate(LOCS)]
    meta[3]["mounts"] = meta[4]["mounts"] = {bases["O"]: bases["I"], bases["D"]: bases["E"]}
    meta[5]["mounts"] = {bases["OO"]: bases["O"]}
    model = Model(meta)
    ops = []
    registered = []
    for _ in range(rng.randint(3, 16)):
        op = rng.choice(["reg", "reg", "reg", "inv", "rel", "rel", "src"])
        li = rng.choice(locs)
        if op == "reg":
            if registered and rng.random() < 0.3:
                sym = rng.choice(registered)[1]
                if rng.random() < 0.6:
                    li = rng.choice([r[0] for r in registered if r[1] == sym])
            else:
                sym = _rnd_path(rng, li)
            typ = rng.choice(["PRIMARY", "PRIMARY", "SYMBOLIC_LINK"])
            ops.append(["reg", li, sym, typ])
            registered.append((li, sym))
            model.register(li, resolve(sym, bases))
        elif op == "inv":
            if not registered:
                continue
            if rng.random() < 0.8:
                sym = rng.choice(registered)[1]
                parts = sym.split("/")
                sym = "/".join(parts[: rng.randint(1, len(parts))])
            else:
                sym = _rnd_path(rng, li)
            p = resolve(sym, bases)
            if p not in model.known:  # unknown paths raise by design
                continue
            if rng.random() < 0.7:
                cands = [r[0] for r in registered if at_or_beneath(resolve(r[1], bases), p) and r[0] in locs]
                if cands:
                    li = rng.choice(cands)
            ops.append(["inv", li, sym])
            model.invalidate(li, p)
        elif op == "rel":
            live = model.live_c1()
            names = {tuple(meta[i]["key"]): i for i in range(len(meta))}
            cands = [(names[lk], p) for (lk, p) in live if names[lk] in locs and any(p == resolve(r[1], bases) or at_or_beneath(p, bases["T"][:-2]) for r in registered)]
            if not cands:
                continue
            sli, sp = rng.choice(cands)
            ssym = _sym_of(sp, bases)
            if ssym is None:
                continue
            dsym = _rnd_path(rng, li)
            ops.append(["rel", [sli, ssym], [li, dsym]])
            registered.append((li, dsym))
            model.register(li, resolve(dsym, bases))
            model.clock += 1
            model.relate((sli, sp), (li, resolve(dsym, bases)))
        else:
            if not model.known:
                continue
            sym = rng.choice(registered)[1] if registered and rng.random() < 0.8 else _rnd_path(rng, li)
            ops.append(["src", sym, li])
    return {"kind": "hist", "locs": locs, "ops": ops}


def _sym_of(p, bases):
    """absolute path -> symbolic (longest base), None for paths above every base"""
    best = None
    for b, d in bases.items():
        if at_or_beneath(p, d) and (best is None or len(d) > len(bases[best])):
            best = b
    if best is None:
        return None
    rest = p[len(bases[best]):]
    return best + rest


# ------------------------------------------------------------------------------------------
# white-box helpers (classification only)


def _node(dm, path):
    from pathlib import Path

    node = dm.path_mapper._filesystem
    for tok in Path(path).parts:
        node = node.children.get(tok)
        if node is None:
            return None
    return node


def _recs(node, lk):
    return node.locations.get(lk[0], {}).get(lk[1], []) if node is not None else []


def _valid_own(node, lk, path):
    from streamflow.core.data import DataType

    return [r for r in _recs(node, lk) if r.path == path and r.data_type != DataType.INVALID]


def _stale_entry(dm, node_path, lk, rec_path):
    """inv-a broken at this node for this path: valid_paths still lists rec_path although no valid record has it."""
    node = _node(dm, node_path)
    if node is None:
        return False
    listed = rec_path in node.valid_paths.get(lk[0], {}).get(lk[1], set())
    return listed and not _valid_own(node, lk, rec_path)


def _snapshot_location(dm, lk):
    """before an invalidation: node path -> [(id, path, was_invalid)] of the records of location lk"""
    from streamflow.core.data import DataType

    out = {}

    def walk(node, path):
        rs = _recs(node, lk)
        if rs:
            out[path] = [(id(r), r.path, r.data_type == DataType.INVALID) for r in rs]
        for tok, ch in node.children.items():
            walk(ch, tok if path == "" else (path.rstrip("/") + "/" + tok))

    walk(dm.path_mapper._filesystem, "")
    return out


class Trace:
    """visit log of _RemotePathMapper.invalidate_location (recursion included)"""
    visits: list = []
    on = False
    installed = False

    @classmethod
    def install(cls):
        if cls.installed:
            return
        cls.installed = True
        from streamflow.data import manager as DM

        orig = DM._RemotePathMapper.invalidate_location

        def invalidate_location(self, location, path):
            if cls.on:
                cls.visits.append(((location.deployment, location.name), str(path)))
            return orig(self, location, path)

        invalidate_location.__wrapped__ = orig
        DM._RemotePathMapper.invalidate_location = invalidate_location


def classify(dm, fail, ctxinfo):
    """-> mechanism label or None.  Explicit predicates over the witness + white-box state."""
    ob = fail["ob"]
    if ob == "C1" and fail["created"] == fail["now"]:
        # where did put() stop?  It walks bottom-up from the registered path and stops at the first level whose
        # path is listed in the node's valid_paths (state recorded just before the registration).
        lk, a, via = tuple(fail["a"][0]), fail["a"][1], fail["via"]
        pre = ctxinfo.get("pre_reg", {}).get((lk, via))
        if not pre or not at_or_beneath(via, a):
            return None
        if _valid_own(_node(dm, a), lk, a):
            return None
        stop = None
        for (x, listed, valid) in pre:  # bottom-up
            if valid:
                stop = (x, "valid")  # put() stops at a level that already has a valid record
                break
            stored = bool(_valid_own(_node(dm, x), lk, x))
            if listed and not stored:
                stop = (x, "stale")  # listed without any valid record, and put() stored nothing: it stopped here
                break
            if not stored:
                return None  # neither listed nor valid before, yet nothing stored: not one of the known mechanisms
        if stop is None or not at_or_beneath(stop[0], a):
            return None
        if stop[1] == "stale":
            fail["whitebox"] = (f"inv-a: before the registration valid_paths of node {stop[0]} listed {stop[0]} for {lk} although "
                                f"every such record was INVALID; put() stopped there, {a} was not (re)stored")
            return MECH_A
        if stop[0] == a:
            return None
        fail["whitebox"] = (f"inv-b: put() stopped at {stop[0]}, which has a valid record of {lk}, while its ancestor {a} has "
                            f"no valid record (invalidated earlier through an alias) and was not restored")
        return MECH_C
    if ob == "C2" and fail["created"] == fail["now"]:
        (lka, pa), (lkb, pb) = (tuple(fail["a"][0]), fail["a"][1]), (tuple(fail["b"][0]), fail["b"][1])
        node_path, lk, rec = (pa, lkb, pb) if fail["side"] == "src-sees-dst" else (pb, lka, pa)
        if _stale_entry(dm, node_path, lk, rec):
            fail["whitebox"] = f"inv-a: valid_paths of node {node_path} lists {rec} for {lk} but every such record is INVALID"
            return MECH_A
        return None
    if ob == "raised" and fail["exc"] == "RecursionError" and fail.get("op") and fail["op"][0] == "inv":
        # endless recursion of invalidate_location: the propagation keeps re-entering a path because a child node
        # lists a still-valid record object for that path which is not the object stored in the path's own node
        # (so marking the own node INVALID never reaches it)
        lk = tuple(ctxinfo["lk"])
        seen, repeated = set(), set()
        for (k, path) in ctxinfo["visits"]:
            if k == lk:
                (repeated if path in seen else seen).add(path)
        for path in sorted(repeated):
            node = _node(dm, path)
            for tok, child in (node.children.items() if node is not None else ()):
                for r in _recs(child, lk):
                    if r.data_type.name != "INVALID" and r.path in repeated and \
                            not any(x is r for x in _recs(_node(dm, r.path), lk)):
                        fail["whitebox"] = (f"node {path}/{tok} lists a valid record object {lk}:{r.path} that is not stored at node "
                                            f"{r.path}; invalidate_location({r.path}) re-enters itself through it forever")
                        return MECH_D
        return None
    if ob == "I2":
        lk, p, d = tuple(fail["lk"]), fail["target"], fail["rec"][1]
        # the surviving record object is an alias that is not stored in the node of its own path, where
        # another record object for the same (location, path) was invalidated
        survivors = [r for r in ctxinfo["objs"](fail["query"], lk) if r.path == d]
        own = _recs(_node(dm, d), lk)
        if survivors and all(not any(x is r for x in own) for r in survivors) and any(x.path == d for x in own) \
                and not _valid_own(_node(dm, d), lk, d):
            fail["whitebox"] = (f"record object {lk}:{d} reported at {fail['query']} is not the one stored at node {d} "
                                f"(which was invalidated): register_path related a fresh inner DataLocation that put() never stored")
            return MECH_D
        visited = {path for (k, path) in ctxinfo["visits"] if k == lk}
        before = ctxinfo["before"]
        if p not in visited or not at_or_beneath(d, p) or d == p:
            return None
        chain = [x for x in ancestors(d) + [d] if at_or_beneath(x, p) and x != p]
        m = next((x for x in chain if x not in visited), None)
        if m is None:
            return None
        visited_objs = {i for path in visited for (i, _, _) in before.get(path, [])}
        # the loop over a child's records only recurses into a record that is still valid, and then into that
        # record's *own* path: node m is entered iff one of its own-path records is valid when the loop reaches it
        R = [(i, was_inv) for (i, rp, was_inv) in before.get(m, []) if rp == m]
        if R and all(was_inv or i in visited_objs for (i, was_inv) in R):
            fail["whitebox"] = (f"inv-c: propagation from {p} never entered {m}: every own record of {lk} there was already "
                                f"INVALID (or had just been invalidated through an alias), so {d} beneath it stayed valid")
            return MECH_B
        return None
    return None


# ------------------------------------------------------------------------------------------
# execution


class Env:
    ctx = None
    table = None
    bases = None
    root = None


async def setup(sh: Shard):
    from vf.harness import c21_locs as H
    from vf.harness.ctx import make_context

    root = os.path.join(sh.scratch, "c21")
    shutil.rmtree(root, ignore_errors=True)
    os.makedirs(root)
    Env.root = root
    Env.bases = H.bases(root)
    Env.ctx = make_context(os.path.join(root, "ctx"), db="default")
    Env.table = await H.deploy_locations(Env.ctx, root)
    assert [t["name"] for t in Env.table[:6]] == LOCS[:6], [t["name"] for t in Env.table]
    for i, t in enumerate(Env.table):
        assert t["wraps"] == WRAPS.get(i), (i, t["wraps"])
    bad = await H.validate_vf_wrap(Env.ctx, Env.table, root)
    if bad:
        sh.inconclusive_because("vf-wrap harness connector failed validation: " + "; ".join(bad)[:800])
        return False
    sh.count("vfwrap_validated")
    Trace.install()
    return True


async def teardown():
    from vf.harness.ctx import close_context

    if Env.ctx is not None:
        await close_context(Env.ctx)
        Env.ctx = None


async def run_hist(sh: Shard, case):
    """-> (failure dict|None, mechanism|None, info)"""
    from streamflow.core.data import DataType
    from streamflow.data.manager import DefaultDataManager

    ctx, table, bases = Env.ctx, Env.table, Env.bases
    dm = DefaultDataManager(ctx)
    meta = [{"key": t["key"], "wraps": t["wraps"], "mounts": t["mounts"]} for t in table]
    model = Model(meta)
    active = sorted(set(case["locs"]))
    model.active = active
    count = sh.count
    keyidx = {tuple(t["key"]): i for i, t in enumerate(table)}
    info = {"ops_done": 0, "inv_hit": False, "rereg": False}
    rng = sh.rng("s1b", str(case["ops"])[:200])

    def objs(p, li=None, typ=None):
        if li is None:
            return dm.get_data_locations(p, data_type=typ)
        return dm.get_data_locations(p, table[li]["key"][0], table[li]["key"][1], typ)

    qcache = {}  # answers since the last mutating call (every mutation clears it)

    def q(p, li=None):
        r = qcache.get((p, li))
        if r is None:
            r = qcache[(p, li)] = frozenset(((d.deployment, d.name), d.path, d.data_type.name) for d in objs(p, li))
        return r

    def s1b_s4(paths):
        deps = sorted({table[i]["key"][0] for i in active})
        names = sorted({table[i]["key"][1] for i in active})
        for p in paths:
            full = dm.get_data_locations(p)
            count("S4")
            seen = set()
            for r in full:
                k = (r.deployment, r.name, r.path)
                if k in seen:
                    return {"ob": "S4-duplicate", "query": p, "rec": [list(k[:2]), k[2], r.data_type.name]}
                seen.add(k)
            for dep in [None] + deps:
                for name in [None] + names:
                    for typ in (None, DataType.PRIMARY, DataType.SYMBOLIC_LINK, DataType.INVALID):
                        count("S1b")
                        got = dm.get_data_locations(p, dep, name, typ)
                        exp = [r for r in full if (dep is None or r.deployment == dep)
                               and (name is None or r.name == name) and (typ is None or r.data_type == typ)]
                        if sorted(map(id, got)) != sorted(map(id, exp)):
                            return {"ob": "S1b-filter-consistency", "query": p, "filters": [dep, name, typ.name if typ else None],
                                    "got": sorted(((d.deployment, d.name), d.path, d.data_type.name) for d in got),
                                    "expected": sorted(((d.deployment, d.name), d.path, d.data_type.name) for d in exp)}
        return None

    def check(extra_paths=()):
        f = model.check_answers(q, count) or model.check_obligations(q, count)
        if f:
            return f
        return s1b_s4(list(extra_paths))

    async def source(p, li):
        dep = table[li]["key"][0]
        count("G")
        try:
            res = await asyncio.wait_for(dm.get_source_location(p, dep), 10)
        except asyncio.TimeoutError:
            return {"ob": "G-blocked", "query": p, "deployment": dep}
        prim = objs(p, None, DataType.PRIMARY)
        if res is None:
            if prim:
                return {"ob": "G-none-while-primary-exists", "query": p, "deployment": dep,
                        "primary": sorted(((d.deployment, d.name), d.path) for d in prim)}
            return None
        if res.data_type != DataType.PRIMARY or not any(res is d for d in prim):
            return {"ob": "G-not-a-valid-primary", "query": p, "deployment": dep,
                    "got": [(res.deployment, res.name), res.path, res.data_type.name]}
        return None

    def do_register(li, p, typ):
        chain = model.register(li, p)
        if len(chain) > 1:
            count("reg_on_wrapped")
        if any(t <= model.clock for (t, k, x) in model.inv_log if k == model.key(li) and at_or_beneath(p, x)):
            count("rereg_after_inv")
            info["rereg"] = True
        pre = {}
        for (l, x) in chain:  # white-box, for classification only
            lk = model.key(l)
            pre[(lk, x)] = [(y, y in (_node(dm, y).valid_paths.get(lk[0], {}).get(lk[1], set()) if _node(dm, y) else set()),
                             bool(_valid_own(_node(dm, y), lk, y))) for y in [x] + ancestors(x)[::-1]]
        ctxinfo.clear()
        ctxinfo["pre_reg"] = pre
        dm.register_path(table[li]["loc"], p, p, DataType[typ])
        qcache.clear()

    ctxinfo = {}
    fail = None
    i = -1
    for i, op in enumerate(case["ops"]):
        try:
            k = op[0]
            count("op_" + k)
            if k == "reg":
                p = resolve(op[2], bases)
                do_register(op[1], p, op[3])
                fail = check([p])
            elif k == "inv":
                li, p = op[1], resolve(op[2], bases)
                lk = model.key(li)
                if _node(dm, p) is None:  # generator and registry disagree on what is known: not a judged operation
                    count("inv_unknown_skipped")
                    continue
                known = sorted(model.known)
                before = {x: {r for r in q(x) if r[0] != lk} for x in known}
                if any(r[0] == lk for x in known if at_or_beneath(x, p) for r in q(x)):
                    info["inv_hit"] = True
                ctxinfo.clear()
                ctxinfo.update({"before": _snapshot_location(dm, lk), "visits": [], "lk": lk,
                                "objs": lambda path, k: dm.get_data_locations(path, k[0], k[1])})
                Trace.visits = ctxinfo["visits"]
                Trace.on = True
                try:
                    dm.invalidate_location(table[li]["loc"], p)
                finally:
                    Trace.on = False
                    qcache.clear()
                model.invalidate(li, p)
                count("I1")
                after = {x: {r for r in q(x) if r[0] != lk} for x in known}
                if before != after:
                    x = next(x for x in known if before[x] != after[x])
                    fail = {"ob": "I1-other-location-touched", "query": x, "lost": sorted(before[x] - after[x]),
                            "gained": sorted(after[x] - before[x])}
                if not fail:
                    for x in known:
                        count("I2")
                        hit = next((r for r in q(x, li) if at_or_beneath(r[1], p)), None)
                        if hit:
                            fail = {"ob": "I2", "lk": lk, "target": p, "query": x, "rec": hit}
                            break
                fail = fail or check([p])
            elif k == "rel":
                (sli, ssym), (dli, dsym) = op[1], op[2]
                sp, dp = resolve(ssym, bases), resolve(dsym, bases)
                do_register(dli, dp, "PRIMARY")
                fail = check([dp])
                if not fail:
                    sdl = next((d for d in objs(sp, sli) if d.path == sp), None)
                    ddl = next((d for d in objs(dp, dli) if d.path == dp), None)
                    if sdl is None or ddl is None:
                        # the source was a live C1 obligation when the case was generated; on a different tree
                        # (mutant / fix) it may have been cancelled: then the relation is simply not declared
                        count("rel_endpoint_not_reported")
                    else:
                        dm.register_relation(sdl, ddl)
                        qcache.clear()
                        model.clock += 1
                        model.relate((sli, sp), (dli, dp))
                        fail = check([sp, dp])
            elif k == "src":
                p = resolve(op[1], bases)
                fail = await source(p, op[2])
        except RecursionError as e:
            qcache.clear()
            fail = {"ob": "raised", "exc": "RecursionError", "tb": short_tb(e, 6)[-700:]}
        except Exception as e:
            qcache.clear()
            fail = {"ob": "raised", "exc": type(e).__name__, "tb": short_tb(e, 6)[-700:]}
        info["ops_done"] = i + 1
        if fail:
            break
    if not fail:
        # G on every known path x deployment at the end of the history
        for p in sorted(model.known):
            for li in active:
                fail = await source(p, li)
                if fail:
                    break
            if fail:
                break
    if not fail:
        known = sorted(model.known)
        fail = s1b_s4(rng.sample(known, min(3, len(known))))
    mech = None
    if fail:
        fail["op_index"] = i
        fail["op"] = case["ops"][i] if 0 <= i < len(case["ops"]) else None
        try:
            mech = classify(dm, fail, ctxinfo)
        except Exception as e:  # a classifier error must never hide a failure
            fail["classifier_error"] = short_tb(e, 3)[-400:]
            mech = None
    return fail, mech, info


def judge(sh: Shard, loop, case, sample=False):
    fail, mech, info = loop.run_until_complete(run_hist(sh, case))
    sh.case(("hist", case["locs"], case["ops"]), nontrivial=info["inv_hit"])
    if sample:
        sh.sample({"case": case, "verdict": "all obligations held after every operation" if not fail else
                   {k: v for k, v in fail.items() if k != "classifier_error"}})
    if fail:
        sh.violation(mech, f"obligation {fail['ob']} failed after op #{fail['op_index']} {fail['op']}: "
                           f"{ {k: v for k, v in fail.items() if k not in ('op', 'op_index', 'ob')} }",
                     {"case": case, "fail": fail})
    return fail, mech


def judge_flight(sh: Shard, loop, case, sample=False):
    """history class "in-flight copies" (vf/harness/c21_flight.py); every failure is unclassified"""
    from vf.harness import c21_flight as F

    try:
        if case["kind"] == "flight":
            fail, info = loop.run_until_complete(F.run_flight(sh, Env, case, resolve))
        else:
            fail, info = loop.run_until_complete(F.run_transfer(sh, Env, case))
    except Exception as e:
        fail, info = {"ob": "raised", "exc": type(e).__name__, "tb": short_tb(e, 6)[-700:]}, {"blocked": 0, "changed_while_waited": 0}
    if info["blocked"]:
        sh.count("G_inflight_task_waited")
    if info["changed_while_waited"]:
        sh.count("G_inflight_candidate_changed", info["changed_while_waited"])
    sh.case((case["kind"], case), nontrivial=bool(info["blocked"]))
    if sample:
        sh.sample({"case": case, "verdict": fail or "every get_source_location task returned a valid PRIMARY member (or None with none)"})
    if fail:
        sh.violation(None, f"in-flight copies: obligation {fail['ob']} failed: "
                           f"{ {k: v for k, v in fail.items() if k != 'ob'} }", {"case": case, "fail": fail})
    return fail


# minimal witnesses of the four listed mechanisms: re-judged by shard 0 on every run (silent once repaired)
WITNESSES = [
    ("stale-valid-paths", MECH_A, {"kind": "hist", "locs": [0], "ops": [
        ["reg", 0, "T/a", "PRIMARY"], ["rel", [0, "T/a"], [0, "T/b"]], ["inv", 0, "T/a"], ["reg", 0, "T/b", "PRIMARY"]]}),
    ("invalidation-skips-invalid-child", MECH_B, {"kind": "hist", "locs": [0, 2], "ops": [
        ["reg", 0, "T/b/a/c", "PRIMARY"], ["rel", [0, "T/b/a"], [2, "T/b"]], ["inv", 0, "T/b"]]}),
    ("invalid-ancestor-not-restored", MECH_C, {"kind": "hist", "locs": [0], "ops": [
        ["reg", 0, "T/a/b", "PRIMARY"], ["rel", [0, "T/a"], [0, "T/c"]], ["inv", 0, "T/c"], ["reg", 0, "T/a/b", "PRIMARY"]]}),
    ("unstored-inner-record", MECH_D, {"kind": "hist", "locs": [0, 3], "ops": [
        ["reg", 0, "I/a", "PRIMARY"], ["reg", 3, "O/a", "PRIMARY"], ["inv", 0, "I/a"]]}),
    ("unstored-inner-record (endless recursion)", MECH_D, {"kind": "hist", "locs": [0, 3], "ops": [
        ["reg", 0, "I/a", "PRIMARY"], ["reg", 3, "O/a", "PRIMARY"], ["rel", [3, "O/a"], [0, "I/a/b"]], ["inv", 0, "I/a"]]}),
]


def run_shard(sh: Shard) -> None:
    loop = asyncio.new_event_loop()
    asyncio.set_event_loop(loop)
    try:
        if not loop.run_until_complete(setup(sh)):
            return
        if sh.shard == 0:
            for name, mech, case in WITNESSES:
                fail, got = judge(sh, loop, case)
                sh.note("minimal_witness " + name, "reproduced" if got == mech else ("not reproduced" if not fail else f"failed as {got}"))
        from vf.harness import c21_flight as F

        frng = sh.rng("flight", sh.shard)
        for i in range(sh.pick(4, 40)):  # real transfer_data with a gated copy
            judge_flight(sh, loop, F.gen_transfer(frng, i), sample=(i == 0 and sh.shard == 2))
        for i in range(sh.pick(300, 20000)):  # synthetic in-flight records (floor 150 whatever the budget)
            if i >= 150 and sh.out_of_budget():
                break
            judge_flight(sh, loop, F.gen_flight(frng), sample=(i == 0 and sh.shard == 3))
        rng = sh.rng("hist", sh.shard)
        n = sh.pick(1400, 100000)
        kinds = {}
        nloc = {}
        sampled = 0
        floor = sh.pick(120, 2000)  # judged whatever the machine load did to the soft budget (setup spawns shells)
        for i in range(n):
            if i >= floor and sh.out_of_budget():
                break
            case = gen_case(rng, Env.bases)
            want_sample = sampled < 1 and sh.shard in (0, 1) and len(case["ops"]) >= 6 and any(o[0] == "inv" for o in case["ops"])
            fail, mech = judge(sh, loop, case, sample=want_sample)
            sampled += want_sample
            for o in case["ops"]:
                kinds[o[0]] = kinds.get(o[0], 0) + 1
            nloc[len(case["locs"])] = nloc.get(len(case["locs"]), 0) + 1
        sh.note("operations_by_kind", kinds)
        sh.note("histories_by_active_locations", nloc)
    finally:
        try:
            loop.run_until_complete(teardown())
        except Exception:
            pass


def replay(sh: Shard, w: dict) -> None:
    loop = asyncio.new_event_loop()
    asyncio.set_event_loop(loop)
    try:
        if not loop.run_until_complete(setup(sh)):
            return
        if w["case"]["kind"] in ("flight", "transfer"):
            judge_flight(sh, loop, w["case"])
        else:
            judge(sh, loop, w["case"])
    finally:
        try:
            loop.run_until_complete(teardown())
        except Exception:
            pass
