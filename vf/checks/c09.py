"""C09  Database reads always reflect the latest writes.

Workload: random histories of add / get / update over every table of the real `SqliteDatabase`
(through the jittering subclass `vf-jitter`), in sequential mode and in concurrent mode
(`asyncio.gather` of reads and updates of the same id, staggered by schedule jitter, then reads
issued after everything returned).  Callers also mutate the rows they were handed (top level and
nested) and keep reading.

Oracle: after every `get_*` the same question is asked with *independent SQL and an independent
decoder through the same aiosqlite connection*, bypassing the caches (`vf.models.c09_oracle`).
A read is wrong when its canonical JSON differs from the uncached answer.  In a concurrent phase a
read must equal the initial row plus a set of the concurrent updates that contains every update
that had already returned when the read was issued.  At the end of each history every cached id
is re-read, the database is closed and the file is re-read with the stdlib `sqlite3` module.

Out of domain (recorded, not judged): reads of ids that were never written (raise by design),
`get_workflows_list(name)` when a start/end time is NULL (formats None), empty update dicts.
"""
from __future__ import annotations

import asyncio
import copy
import json
import os
import random
import shutil
import types

from vf.common import Shard, short_tb

PROPERTY = "C09"
META = {
    "text": "Every get_* of the real SqliteDatabase, in random sequential and concurrent histories of "
            "adds/updates/reads with callers mutating the rows they received, returned what the same "
            "connection answers without the caches; the closed file equals that view.",
    "note": "The uncached answer comes from SQL written in the check, run through the same aiosqlite "
            "connection (a second connection cannot see StreamFlow's open transaction). sqlite itself is trusted.",
    "technique": "differential oracle (cached API vs independent uncached SQL) over random histories with schedule jitter",
}

M_ALIAS = "C09/nested-row-aliasing"
M_STALE = "C09/read-overlapping-update-recaches-stale"
M_KW = "C09/keyword-call-cache-key"


def plan(tier):
    q = tier == "quick"
    return {
        "level": "exploration",
        "shards": 16,
        "budget_s": 45 if q else 600,
        "timeout_s": 600 if q else 3600,
        "min_nontrivial": 40 if q else 800,
        "required_counters": ["reads_judged", "cached_reads_served_from_cache", "reads_after_update",
                              "reads_after_caller_mutation", "concurrent_phases", "reads_overlapping_update",
                              "stdlib_crosschecks", "listing_reads_judged", "listing_rows_mutated_top",
                              "listing_rows_mutated_nested", "single_reads_after_listing_mutation"],
        "rule": "a case is one history (mode, seed): 25-60 operations over 10 tables in sequential mode, or a "
                "sequential prefix followed by 2-6 concurrent phases (gather of 1-4 reads and 1-3 updates of one id, "
                "jittered) in concurrent mode; listing reads (14 kinds) are operations too and in half of them the caller "
                "edits the returned rows and re-reads the ids singly and through the listing; plus four dedicated classes "
                "(nested aliasing, one read overlapping one update, keyword-form reads, listing-row mutation). Non-trivial = at least one judged read was served from a cache "
                "after an update or a caller mutation of that id; distinct = distinct (mode, seed).",
        "exhaustive": False,
        "assumptions": ["sqlite3/aiosqlite execute statements in submission order on one connection",
                        "ids read were written before (reads of unknown ids raise by design)"],
    }


# ----------------------------------------------------------------------------------------- values
SCALARS = [None, True, False, 0, 1, -1, 2 ** 53 + 1, -(2 ** 63), 10 ** 30, 0.1, 1.0, -0.0, 1e300, 5e-324,
           "", "a", "é", "日本語", "😀 astral", 'q"uo\'te', "back\\slash", "nul\u0000in", " sp ace ", "0", "null"]
KEYS = ["k", "list", "d", "é", "", "a b", "0", "nested", "😀"]


def rj(rng, depth=0):
    r = rng.random()
    if depth >= 3 or r < 0.45:
        return rng.choice(SCALARS)
    if r < 0.72:
        return [rj(rng, depth + 1) for _ in range(rng.randint(0, 3))]
    return {rng.choice(KEYS): rj(rng, depth + 1) for _ in range(rng.randint(0, 3))}


def rparams(rng):
    """dict with at least one nested list and one nested dict (so nested mutation is possible)"""
    d = {rng.choice(KEYS): rj(rng, 1) for _ in range(rng.randint(0, 3))}
    d["list"] = [rj(rng, 2) for _ in range(rng.randint(0, 2))]
    d["d"] = {"x": rj(rng, 2), "l": [rng.choice(SCALARS)]}
    return d


def rtext(rng):
    return rng.choice(["n0", "n1", "name é", "", "x/y", "😀", "step'1", 'a"b'])


UPD = {
    "workflow": {"name": "wfname", "params": "json", "status": "int", "type": "text", "start_time": "time", "end_time": "time"},
    "step": {"name": "text", "workflow": "fk:workflow", "status": "int", "type": "text", "params": "json"},
    "port": {"name": "text", "workflow": "fk:workflow", "type": "text", "params": "json"},
    "deployment": {"name": "text", "type": "text", "config": "json", "external": "bool", "lazy": "bool",
                   "scheduling_policy": "json", "workdir": "textnull", "wraps": "jsonnull"},
    "target": {"deployment": "fk:deployment", "type": "text", "locations": "int", "service": "textnull",
               "workdir": "textnull", "params": "json"},
    "filter": {"name": "text", "type": "text", "config": "json"},
    "execution": {"step": "fk:step", "job_token": "int", "cmd": "text", "status": "int", "start_time": "time", "end_time": "time"},
}
JSONCOLS = {"workflow": ["params"], "step": ["params"], "port": ["params"], "token": ["value"],
            "deployment": ["config", "scheduling_policy", "wraps"], "target": ["params"], "filter": ["config"],
            "execution": []}
CACHED = {"step": "step_cache", "port": "port_cache", "token": "token_cache", "deployment": "deployment_cache",
          "target": "target_cache", "filter": "filter_cache"}
WFNAMES = ["wf-a", "wf-b", "wf é"]


TRACES: set = set()


class History:
    def __init__(self, sh: Shard, case: dict, workdir: str):
        from vf import perturb
        from vf.models import c09_oracle as O

        perturb.install()
        import streamflow.persistence as P

        self.O = O
        self.sh = sh
        self.case = case
        self.rng = random.Random(case["seed"])
        self.workdir = workdir
        self.path = os.path.join(workdir, "db.sqlite")
        ctx = types.SimpleNamespace(config={"path": os.path.join(workdir, "streamflow.yml")})
        self.db = P.database_classes["vf-jitter"](ctx, connection=self.path)
        self.spies = O.install_spies(self.db)
        self.unc = None
        self.ids = {t: [] for t in ["workflow", "step", "port", "token", "deployment", "target", "filter", "execution"]}
        self.deps = []  # (step, port)
        self.log = []  # op log for the witness
        self.handed = {}  # (table,id) -> list of (col, obj, canon_before)
        self.updated_since_read = {}  # (table,id) -> bool : an update happened, next cached read is "after update"
        self.mutated_since_read = {}
        self.kw_snap = {}  # (table,id) -> canonical row at the first keyword-form read
        self.poison = {}  # (table,id) -> canonical stale row already attributed to M_STALE (until the next update)
        self.hist = {}
        self.nontrivial = False
        self.violations = 0

    # ------------------------------------------------------------------ plumbing
    async def open(self):
        from streamflow.core.workflow import Workflow

        # first call opens the connection and creates the schema
        wid = await self.db.add_workflow(name="wf-a", params={"config": {}, "output_ports": {}}, status=0, type=Workflow)
        self.ids["workflow"].append(wid)
        self.unc = self.O.Uncached(self.db.connection._connection)

    def op(self, name, *detail):
        self.hist[name] = self.hist.get(name, 0) + 1
        self.log.append([name, *[d if isinstance(d, (int, str, type(None))) else self.O.canon(d)[:160] for d in detail]])

    def witness(self, extra=None):
        w = {"case": self.case, "ops_tail": self.log[-25:], "n_ops": len(self.log)}
        if extra:
            w.update(extra)
        return w

    def report(self, mechanism, what, extra=None):
        self.violations += 1
        self.sh.violation(mechanism, what, self.witness(extra))

    # ------------------------------------------------------------------ judged reads
    def _cmp(self, what, got, exp, ordered=True):
        O = self.O
        self.sh.count("reads_judged")
        g, e = O.plain(got), exp
        if not ordered and isinstance(g, list) and isinstance(e, list):
            g, e = sorted(g, key=O.canon), sorted(e, key=O.canon)
        if O.canon(g) != O.canon(e):
            self.report(None, f"{what} returned {O.canon(g)[:400]} but the uncached answer is {O.canon(e)[:400]}",
                        {"read": what, "got": O.canon(g)[:1500], "expected": O.canon(e)[:1500]})
            return False
        return True

    async def read_row(self, table, id_, kw=False):
        """get_<table>(id) judged against the uncached row. Returns the row handed to the caller."""
        O = self.O
        getter = getattr(self.db, "get_" + table)
        spy = self.spies.get(CACHED.get(table, ""))
        h0 = spy.hits if spy is not None else 0
        if kw:
            got = await getter(**{table + "_id": id_})
        else:
            got = await getter(id_)
        served = spy is not None and spy.hits > h0
        exp = await self.unc.row(table, id_)
        self.op("get_" + table + ("(kw)" if kw else ""), id_)
        self.sh.count("reads_judged")
        key = (table, id_)
        if table in CACHED:
            if served:
                self.sh.count("cached_reads_served_from_cache")
            if self.updated_since_read.pop(key, False):
                self.sh.count("reads_after_update")
                self.nontrivial = True
            if self.mutated_since_read.pop(key, False):
                self.sh.count("reads_after_caller_mutation")
                self.nontrivial = True
        g = O.plain(got)
        if O.canon(g) != O.canon(exp):
            mech = self.classify_seq(table, id_, got, g, exp, kw)
            diffcols = sorted(c for c in set(g) | set(exp or {}) if O.canon(g.get(c, "<missing>")) != O.canon((exp or {}).get(c, "<missing>")))
            self.report(mech, f"get_{table}({id_}) differs from the uncached row in columns {diffcols}: "
                              f"got {O.canon({c: g.get(c) for c in diffcols})[:300]} expected {O.canon({c: (exp or {}).get(c) for c in diffcols})[:300]}",
                        {"read": f"get_{table}", "id": id_, "diffcols": diffcols, "served_from_cache": served,
                         "got": O.canon(g)[:1500], "expected": O.canon(exp)[:1500], "keyword_form": kw})
        return got

    def classify_seq(self, table, id_, raw, got, exp, kw):
        """Mechanism predicates for a wrong read in a sequential history."""
        O = self.O
        if exp is None or not isinstance(got, dict):
            return None
        # the stale entry left behind by an already attributed overlapping read is still being served
        if self.poison.get((table, id_)) == O.canon(got):
            return M_STALE
        handed = self.handed.get((table, id_), [])
        if self.is_alias(table, id_, raw, got, exp):
            return M_ALIAS
        # keyword-form read: this read and an earlier read of the same id used the keyword form, an update of
        # the id happened in between, and the value returned is exactly the row as it was at that earlier read.
        if kw and (table, id_) in self.kw_snap and O.canon(got) == self.kw_snap[(table, id_)] and not handed:
            return M_KW
        return None

    def is_alias(self, table, id_, raw, got, exp):
        """nested aliasing: only JSON columns differ, each differing value IS (identity) an object the caller
        received from this getter and mutated since the last update of the id, and the database still holds the
        value the caller saw before mutating it."""
        O = self.O
        handed = self.handed.get((table, id_), [])
        if not handed or not isinstance(raw, dict) or exp is None:
            return False
        diffcols = [c for c in set(got) | set(exp) if O.canon(got.get(c, "<missing>")) != O.canon(exp.get(c, "<missing>"))]
        if not diffcols or not all(c in JSONCOLS[table] for c in diffcols):
            return False
        for c in diffcols:
            m = [(obj, before) for (col, obj, before) in handed if col == c and raw.get(c) is obj]
            if not m or O.canon(exp.get(c)) != m[0][1]:
                return False
        return True

    # ------------------------------------------------------------------ generators of operations
    def pick(self, table):
        ids = self.ids[table]
        if not ids:
            return None
        # favour recent ids (fresh cache entries / recent updates)
        return ids[-1 - min(int(self.rng.expovariate(0.7)), len(ids) - 1)]

    async def do_add(self):
        from streamflow.core.deployment import LocalTarget, Target
        from streamflow.core.persistence import DependencyType
        from streamflow.core.workflow import Port, Token, Workflow
        from streamflow.workflow.port import ConnectorPort, JobPort
        from streamflow.workflow.step import ExecuteStep, GatherStep, ScatterStep
        from streamflow.workflow.token import JobToken, ListToken

        rng, db = self.rng, self.db
        kinds = ["workflow", "step", "step", "port", "port", "token", "token", "deployment", "target", "filter",
                 "execution", "dependency", "provenance"]
        k = rng.choice(kinds)
        if k == "workflow":
            i = await db.add_workflow(name=rng.choice(WFNAMES), params=rparams(rng), status=rng.randint(0, 9), type=Workflow)
            self.ids["workflow"].append(i)
        elif k == "step":
            i = await db.add_step(name=rtext(rng), workflow_id=self.pick("workflow"), status=rng.randint(0, 9),
                                  type=rng.choice([ExecuteStep, GatherStep, ScatterStep]), params=rparams(rng))
            self.ids["step"].append(i)
        elif k == "port":
            i = await db.add_port(name=rtext(rng), workflow_id=self.pick("workflow"),
                                  type=rng.choice([Port, JobPort, ConnectorPort]), params=rparams(rng))
            self.ids["port"].append(i)
        elif k == "token":
            i = await db.add_token(tag=rng.choice(["0", "0.1", "0.10.2"]), type=rng.choice([Token, ListToken, JobToken]),
                                   value=rng.choice([rj(rng), rparams(rng)]),
                                   port=self.pick("port") if rng.random() < 0.8 else None, recoverable=rng.random() < 0.5)
            self.ids["token"].append(i)
        elif k == "deployment":
            i = await db.add_deployment(name=rtext(rng), type=rng.choice(["local", "ssh", "docker"]), config=rparams(rng),
                                        external=rng.random() < 0.5, lazy=rng.random() < 0.5,
                                        scheduling_policy={"name": "p", "type": "data_locality", "config": rparams(rng)},
                                        workdir=rng.choice([None, "/w", ""]),
                                        wraps=rng.choice([None, {"deployment": "d", "service": "s"}, {"deployment": "é"}]))
            self.ids["deployment"].append(i)
        elif k == "target":
            if not self.ids["deployment"]:
                return
            i = await db.add_target(deployment=self.pick("deployment"), type=rng.choice([Target, LocalTarget]),
                                    params=rparams(rng), locations=rng.randint(1, 4),
                                    service=rng.choice([None, "svc"]), workdir=rng.choice([None, "/tmp/x"]))
            self.ids["target"].append(i)
        elif k == "filter":
            i = await db.add_filter(name=rtext(rng), type=rng.choice(["shuffle", "matching"]), config=rparams(rng))
            self.ids["filter"].append(i)
        elif k == "execution":
            if not self.ids["step"]:
                return
            i = await db.add_execution(step_id=self.pick("step"), job_token_id=self.pick("token") or 0, cmd=rtext(rng))
            self.ids["execution"].append(i)
        elif k == "dependency":
            if not self.ids["step"] or not self.ids["port"]:
                return
            s, p = self.pick("step"), self.pick("port")
            await db.add_dependency(step=s, port=p, type=rng.choice([DependencyType.INPUT, DependencyType.OUTPUT]), name=rtext(rng))
            self.deps.append((s, p))
            i = (s, p)
        else:
            if len(self.ids["token"]) < 2:
                return
            t = self.pick("token")
            ins = rng.sample(self.ids["token"], rng.randint(1, min(3, len(self.ids["token"]))))
            await db.add_provenance(inputs=ins, token=t)
            i = t
        self.op("add_" + k, i if isinstance(i, int) else str(i))

    def make_updates(self, table, ncols=None, forbid=()):
        rng = self.rng
        cols = [c for c in UPD[table] if c not in forbid]
        chosen = rng.sample(cols, ncols or rng.randint(1, min(3, len(cols))))
        upd, decoded = {}, {}
        for c in chosen:
            kind = UPD[table][c]
            if kind == "json":
                v = rparams(rng) if rng.random() < 0.8 else rj(rng)
                upd[c], decoded[c] = json.dumps(v), v
            elif kind == "jsonnull":
                v = rng.choice([None, {"deployment": "z"}])
                upd[c], decoded[c] = (json.dumps(v) if v is not None else None), v
            elif kind == "int":
                upd[c] = decoded[c] = rng.randint(0, 9)
            elif kind == "time":
                upd[c] = decoded[c] = rng.choice([0, 1, 1700000000123456789, 2 ** 62])
            elif kind == "bool":
                b = rng.random() < 0.5
                upd[c], decoded[c] = b, int(b)
            elif kind == "text":
                upd[c] = decoded[c] = rtext(rng) + str(rng.randint(0, 99))
            elif kind == "wfname":
                upd[c] = decoded[c] = rng.choice(WFNAMES)
            elif kind == "textnull":
                upd[c] = decoded[c] = rng.choice([None, "/p" + str(rng.randint(0, 9))])
            elif kind.startswith("fk:"):
                tgt = self.pick(kind[3:])
                if tgt is None:
                    continue
                upd[c] = decoded[c] = tgt
        return upd, decoded

    async def do_update(self, table=None, id_=None):
        rng = self.rng
        table = table or rng.choice([t for t in UPD if self.ids[t]])
        id_ = id_ if id_ is not None else self.pick(table)
        upd, _ = self.make_updates(table)
        if not upd:
            return
        r = await getattr(self.db, "update_" + table)(id_, upd)
        self.op("update_" + table, id_, sorted(upd))
        self.sh.count("updates")
        key = (table, id_)
        self.updated_since_read[key] = True
        self.handed.pop(key, None)
        self.poison.pop(key, None)
        if r != id_:
            self.report(None, f"update_{table}({id_}) returned {r!r}", {})

    async def do_read(self):
        rng = self.rng
        tables = [t for t in self.ids if self.ids[t]]
        t = rng.choice(tables + [x for x in tables if x in CACHED] * 2)
        id_ = self.pick(t)
        await self.read_row(t, id_)

    async def do_mutate(self):
        """the caller edits the row it was handed (top level and nested)"""
        rng = self.rng
        tables = [t for t in ["step", "port", "token", "deployment", "target", "filter", "workflow"] if self.ids[t]]
        if not tables:
            return
        t = rng.choice(tables)
        id_ = self.pick(t)
        row = await self.read_row(t, id_)
        if not isinstance(row, dict):
            return
        if (t, id_) in self.poison:
            # the cache is serving an (attributed) stale row for this id: editing it would stack two defects in
            # one witness; recorded, not done
            self.sh.count("mutation_skipped_on_stale_entry")
            return
        how = rng.choice(["top", "nested", "nested", "both"])
        if how in ("top", "both"):
            row["name" if "name" in row else "type"] = "MUTATED-BY-CALLER"
            row["__vf_new__"] = 1
            row.pop(rng.choice(list(row)), None)
            self.sh.count("caller_mutations_top")
        if how in ("nested", "both"):
            for c in JSONCOLS[t]:
                v = row.get(c)
                if isinstance(v, (dict, list)):
                    before = self.O.canon(v)
                    if isinstance(v, dict):
                        inner = [x for x in v.values() if isinstance(x, (dict, list))]
                        if inner and rng.random() < 0.5:
                            x = rng.choice(inner)
                            (x.append("vf-nested") if isinstance(x, list) else x.__setitem__("vf-nested", [1]))
                        else:
                            v["vf-nested"] = {"by": "caller"}
                    else:
                        v.append({"vf-nested": 1})
                    self.handed.setdefault((t, id_), []).append((c, v, before))
                    self.sh.count("caller_mutations_nested")
        self.mutated_since_read[(t, id_)] = True
        self.op("caller_mutates_" + how, t, id_)

    LIST_CHOICES = ["workflow_ports", "workflow_steps", "port_tokens", "executions_by_step", "input_ports",
                    "output_ports", "input_steps", "output_steps", "port_from_token", "workflows_by_name",
                    "workflows_list", "dependees", "dependers", "reports"]

    def pick_list_plan(self, choice=None):
        """a listing / multi-row read and its arguments (fixed so that the same read can be issued again)"""
        rng = self.rng
        choice = choice or rng.choice(self.LIST_CHOICES)
        plan = {"choice": choice}
        if choice in ("workflow_ports", "workflow_steps"):
            plan["arg"] = self.pick("workflow")
        elif choice in ("port_tokens", "input_steps", "output_steps"):
            plan["arg"] = self.pick("port")
        elif choice in ("executions_by_step", "input_ports", "output_ports"):
            plan["arg"] = self.pick("step")
        elif choice in ("port_from_token", "dependees", "dependers"):
            plan["arg"] = self.pick("token")
        elif choice in ("workflows_by_name", "reports"):
            plan["arg"] = rng.choice(WFNAMES)
            plan["last"] = rng.random() < 0.5
        elif choice == "workflows_list":
            plan["arg"] = None if rng.random() < 0.5 else rng.choice(WFNAMES)
        if choice not in ("workflows_list",) and plan.get("arg") is None:
            return None
        return plan

    async def list_read(self, plan):
        """One listing / join read judged against the uncached answer (multisets unless the query orders them).
        Returns (rows handed to the caller, table of those rows or None)."""
        db, unc = self.db, self.unc
        from streamflow.core.persistence import DependencyType

        IN, OUT = DependencyType.INPUT.value, DependencyType.OUTPUT.value
        choice, x = plan["choice"], plan.get("arg")
        self.op("get_" + choice, x if isinstance(x, (int, str)) else None)
        self.sh.count("listing_reads_judged")
        if choice == "workflow_ports":
            got = await db.get_workflow_ports(x)
            self._cmp(f"get_workflow_ports({x})", got, await unc.rows_where("port", "workflow = ?", (x,)), False)
            return got, "port"
        if choice == "workflow_steps":
            got = await db.get_workflow_steps(x)
            self._cmp(f"get_workflow_steps({x})", got, await unc.rows_where("step", "workflow = ?", (x,)), False)
            return got, "step"
        if choice == "port_tokens":
            got = await db.get_port_tokens(x)
            self._cmp(f"get_port_tokens({x})", got, await unc.scalar_list("SELECT id FROM token WHERE port = ?", (x,)), False)
            return got, None
        if choice == "executions_by_step":
            got = await db.get_executions_by_step(x)
            self._cmp(f"get_executions_by_step({x})", got, await unc.rows_where("execution", "step = ?", (x,)), False)
            return got, "execution"
        if choice in ("input_ports", "output_ports"):
            ty = IN if choice == "input_ports" else OUT
            got = await getattr(db, "get_" + choice)(x)
            self._cmp(f"get_{choice}({x})", got, await unc.rows_where("dependency", "step = ? AND type = ?", (x, ty)), False)
            return got, None
        if choice in ("input_steps", "output_steps"):
            ty = OUT if choice == "input_steps" else IN
            got = await getattr(db, "get_" + choice)(x)
            self._cmp(f"get_{choice}({x})", got, await unc.rows_where("dependency", "port = ? AND type = ?", (x, ty)), False)
            return got, None
        if choice == "port_from_token":
            exp = await unc.port_from_token(x)
            if exp is None:
                self.sh.count("out_of_domain_token_without_port")
                return None, None
            got = await db.get_port_from_token(x)
            self._cmp(f"get_port_from_token({x})", got, exp)
            return [got], "port"
        if choice == "workflows_by_name":
            exp = await unc.rows_where("workflow", "name = ?", (x,), order="id DESC")
            if not exp:
                self.sh.count("out_of_domain_unknown_name")
                return None, None
            got = await db.get_workflows_by_name(x, last_only=plan["last"])
            self._cmp(f"get_workflows_by_name({x!r},{plan['last']})", got, exp[:1] if plan["last"] else exp)
            return got, "workflow"
        if choice == "workflows_list":
            if x is None:
                got = await db.get_workflows_list(None)
                rows = await unc._all("SELECT name, type, COUNT(*) FROM workflow GROUP BY name, type ORDER BY name DESC")
                self._cmp("get_workflows_list(None)", got, [dict(zip(["name", "type", "num"], r)) for r in rows], False)
                return got, None
            rows = await unc.rows_where("workflow", "name = ?", (x,), order="id DESC")
            if not rows or any(r["start_time"] is None or r["end_time"] is None for r in rows):
                self.sh.count("out_of_domain_null_times")
                return None, None
            import datetime

            from streamflow.core.workflow import Status

            def iso(ns):
                return (datetime.datetime(1970, 1, 1, tzinfo=datetime.timezone.utc) + datetime.timedelta(microseconds=round(ns / 1000))).isoformat()

            exp = [{"end_time": iso(r["end_time"]), "start_time": iso(r["start_time"]), "status": Status(r["status"]).name, "type": r["type"]} for r in rows]
            got = await db.get_workflows_list(x)
            self._cmp(f"get_workflows_list({x!r})", got, exp)
            return got, None
        if choice in ("dependees", "dependers"):
            col = "depender" if choice == "dependees" else "dependee"
            got = await getattr(db, "get_" + choice)(x)
            self._cmp(f"get_{choice}({x})", got, await unc.rows_where("provenance", f"{col} = ?", (x,)), False)
            return got, None
        if choice == "reports":
            raw = await db.get_reports(x, last_only=plan["last"])
            got = self.O.plain(raw)
            exp = await unc.reports(x, plan["last"])
            self.sh.count("reads_judged")
            norm = lambda groups: [sorted(g, key=self.O.canon) for g in groups]
            if self.O.canon(norm(got)) != self.O.canon(norm(exp)):
                self.report(None, f"get_reports({x!r},{plan['last']}) = {self.O.canon(got)[:300]} expected {self.O.canon(exp)[:300]}", {})
            return [r for g in raw for r in g], None
        raise AssertionError(choice)

    def mutate_listing_rows(self, rows):
        """the caller edits the rows a listing read returned: top-level overwrite / insert / delete and nested edits.
        Nothing is recorded in `handed`: rows of a listing read never come from a cache, so a later wrong read
        cannot be attributed to the (single-row) aliasing finding."""
        rng = self.rng
        n = 0
        for row in rows if isinstance(rows, list) else []:
            if not isinstance(row, dict):
                continue  # sqlite Row objects are immutable
            n += 1
            if rng.random() < 0.8:
                for k in [k for k in row if k != "id"][: rng.randint(1, 3)]:
                    if not isinstance(row[k], (dict, list)):
                        row[k] = "MUTATED-BY-CALLER-OF-LISTING"
                row["__vf_listing__"] = 1
                self.sh.count("listing_rows_mutated_top")
            if rng.random() < 0.7:
                for k, v in list(row.items()):
                    if isinstance(v, dict):
                        v["vf-listing-nested"] = [1]
                        self.sh.count("listing_rows_mutated_nested")
                    elif isinstance(v, list):
                        v.append("vf-listing-nested")
                        self.sh.count("listing_rows_mutated_nested")
            if rng.random() < 0.2:
                row.pop(next(iter(row)), None)
        return n

    async def do_list_read(self, choice=None, mutate=None):
        """a listing read; in half of the cases the caller then edits the rows it got and reads the same ids again,
        one by one and through the same listing"""
        plan = self.pick_list_plan(choice)
        if plan is None:
            return
        rows, table = await self.list_read(plan)
        if rows is None:
            return
        if mutate is None:
            mutate = self.rng.random() < 0.5
        if not mutate:
            return
        ids = [r["id"] for r in rows if isinstance(r, dict) and isinstance(r.get("id"), int)] if table else []
        if not self.mutate_listing_rows(rows):
            return
        self.op("caller_mutates_listing_rows", plan["choice"])
        self.nontrivial = self.nontrivial or bool(ids)
        for id_ in ids[:5]:
            if table in self.ids and id_ in self.ids[table]:
                self.sh.count("single_reads_after_listing_mutation")
                await self.read_row(table, id_)
        self.sh.count("listing_reads_after_listing_mutation")
        await self.list_read(plan)
        if table in ("port", "step") and ids:
            # the other listing that returns the same rows
            for id_ in ids[:2]:
                if table == "port":
                    toks = await self.unc.scalar_list("SELECT id FROM token WHERE port = ?", (id_,))
                    if toks:
                        await self.list_read({"choice": "port_from_token", "arg": toks[0]})

    # ------------------------------------------------------------------ concurrent phase
    async def conc_phase(self, table=None, nreads=None, nupd=None):
        from vf.perturb import Sched
        O = self.O
        rng = self.rng
        cands = [t for t in ["step", "port", "deployment", "target", "filter", "workflow", "execution"] if self.ids[t]]
        table = table or rng.choice(cands + [c for c in cands if c in CACHED] * 2)
        id_ = self.pick(table)
        key = (table, id_)
        if rng.random() < 0.6:
            await self.read_row(table, id_)  # warm the cache
        R0 = await self.unc.row(table, id_)
        nupd = nupd or rng.randint(1, 3)
        nreads = nreads or rng.randint(1, 4)
        ups = []
        used = set()
        for _ in range(nupd):
            u, d = self.make_updates(table, ncols=1, forbid=used)
            if u:
                used |= set(u)
                ups.append({"upd": u, "dec": d, "t0": None, "t1": None})
        if not ups:
            return
        reads = [{"t0": None, "t1": None, "got": None, "served": None} for _ in range(nreads)]
        spy = self.spies.get(CACHED.get(table, ""))
        t_start = O.Clock.tick()

        async def do_r(r):
            await Sched.jitter(6)
            h0 = spy.hits if spy is not None else 0
            r["t0"] = O.Clock.tick()
            r["raw"] = await getattr(self.db, "get_" + table)(id_)
            r["got"] = O.plain(r["raw"])
            r["t1"] = O.Clock.tick()
            r["served"] = spy is not None and spy.hits > h0

        async def do_u(u):
            await Sched.jitter(6)
            u["t0"] = O.Clock.tick()
            await getattr(self.db, "update_" + table)(id_, u["upd"])
            u["t1"] = O.Clock.tick()

        jobs = [do_r(r) for r in reads] + [do_u(u) for u in ups]
        rng.shuffle(jobs)
        await asyncio.gather(*jobs)
        self.sh.count("concurrent_phases")
        self.sh.count("updates", len(ups))
        self.op("concurrent", table, id_, {"reads": nreads, "updates": [sorted(u["upd"]) for u in ups]})
        Rf = await self.unc.row(table, id_)
        allu = {}
        for u in ups:
            allu.update(u["dec"])
        if O.canon(dict(R0, **allu)) != O.canon(Rf):
            self.report(None, f"after concurrent updates of {table} {id_} the uncached row is {O.canon(Rf)[:300]}, "
                              f"expected {O.canon(dict(R0, **allu))[:300]}", {"phase": "final-state"})
            return
        trace = sorted([(r["t0"], "R(") for r in reads] + [(r["t1"], ")R") for r in reads] + [(u["t0"], "U(") for u in ups] + [(u["t1"], ")U") for u in ups])
        self.traces.add("".join(x[1] for x in trace))
        # in-phase reads: initial row + a set of updates ⊇ {returned before the read was issued}, ⊆ {issued before it returned}
        post = [{"t0": None, "got": None, "served": None, "post": True} for _ in range(2)]
        for p in post:
            h0 = spy.hits if spy is not None else 0
            p["t0"] = O.Clock.tick()
            p["raw"] = await getattr(self.db, "get_" + table)(id_)
            p["got"] = O.plain(p["raw"])
            p["t1"] = O.Clock.tick()
            p["served"] = spy is not None and spy.hits > h0
            self.op("get_" + table + "(after phase)", id_)
        repoisoned = False
        for r in reads + post:
            self.sh.count("reads_judged")
            must = [u for u in ups if u["t1"] < r["t0"]]
            may = [u for u in ups if u["t0"] < r["t1"] and u not in must]
            if may:
                self.sh.count("reads_overlapping_update")
            if must:
                self.sh.count("reads_after_update")
                if r["served"]:
                    self.nontrivial = True
            if r["served"] and table in CACHED:
                self.sh.count("cached_reads_served_from_cache")
            base = dict(R0)
            for u in must:
                base.update(u["dec"])
            admissible = []
            for mask in range(1 << len(may)):
                s = dict(base)
                for i, u in enumerate(may):
                    if mask >> i & 1:
                        s.update(u["dec"])
                admissible.append(O.canon(s))
            if O.canon(r["got"]) in admissible:
                continue
            # wrong read: classify
            mech = None
            if self.poison.get(key) == O.canon(r["got"]) and r["served"]:
                mech = M_STALE  # still the stale entry attributed in an earlier phase (no update popped it before this read)
            elif r["served"] and not must and self.is_alias(table, id_, r["raw"], r["got"], R0):
                mech = M_ALIAS  # the entry edited by the caller before the phase, served before any update popped it
            elif spy is not None and r["served"]:
                # the cache events of this id in the phase, up to the hit that served this read: a hit inside the
                # read's own window whose latest preceding pop/insert event is the insert of exactly the row returned
                # (the jitter after the call lets later pops happen before the read is seen to return)
                phase = [e for e in spy.log if e[2] == id_ and t_start < e[0] < r["t1"]]
                evs = []
                for i in range(len(phase) - 1, -1, -1):
                    if phase[i][1] == "hit" and phase[i][0] > r["t0"]:
                        prior = [e for e in phase[:i] if e[1] in ("pop", "insert")]
                        if prior and prior[-1][1] == "insert" and prior[-1][3] == O.canon(r["got"]):
                            evs = prior
                            break
                # all states "initial + strict subset of the updates"
                older = set()
                for mask in range((1 << len(ups)) - 1):
                    s = dict(R0)
                    for i, u in enumerate(ups):
                        if mask >> i & 1:
                            s.update(u["dec"])
                    older.add(O.canon(s))
                if (evs and evs[-1][1] == "insert" and evs[-1][3] == O.canon(r["got"]) and O.canon(r["got"]) in older
                        and any(e[1] == "pop" for e in evs[:-1])):
                    mech = M_STALE
            missing = [sorted(u["upd"])[0] for u in must if any(O.canon(r["got"].get(c)) != O.canon(v) for c, v in u["dec"].items())]
            if mech == M_STALE:
                self.poison[key] = O.canon(r["got"])
                repoisoned = True
            self.report(mech, f"get_{table}({id_}) issued after update_{table} of {missing} had returned does not show it"
                              f"{' (read after the whole phase)' if r.get('post') else ''}: got {O.canon({c: r['got'].get(c) for c in allu})[:300]}, "
                              f"uncached {O.canon({c: Rf.get(c) for c in allu})[:300]}",
                        {"phase": "concurrent", "table": table, "id": id_, "served_from_cache": r["served"],
                         "read_after_phase": bool(r.get("post")), "missing_updates": missing,
                         "cache_events": [[e[0], e[1]] for e in (spy.log if spy else []) if e[2] == id_ and e[0] > t_start][-12:],
                         "timeline": [[x[0], x[1]] for x in trace]})
        self.updated_since_read.pop(key, None)
        if not repoisoned:
            self.poison.pop(key, None)
        self.handed.pop(key, None)  # every update of the phase popped the entry the caller had edited

    # ------------------------------------------------------------------ end of history
    async def final_sweep_and_close(self):
        O = self.O
        for t in CACHED:
            for id_ in self.ids[t]:
                await self.read_row(t, id_)
        before = await self.unc.dump()
        await self.db.close()
        after = O.stdlib_dump(self.path)
        self.sh.count("stdlib_crosschecks")
        if before != after:
            bad = [t for t in before if before[t] != after[t]]
            self.report(None, f"after close() the file read with stdlib sqlite3 differs from the uncached view in tables {bad}",
                        {"phase": "stdlib", "tables": bad})


# --------------------------------------------------------------------------------------------- cases
async def run_history(sh: Shard, case: dict, workdir: str):
    from vf.perturb import Sched

    h = History(sh, case, workdir)
    h.traces = TRACES
    Sched.reset(case["seed"], K=3)
    await h.open()
    rng = h.rng
    mode = case["mode"]
    try:
        if mode in ("seq", "conc"):
            n = case.get("n", 40)
            for _ in range(8):
                await h.do_add()
            for i in range(n):
                r = rng.random()
                if r < 0.22:
                    await h.do_add()
                elif r < 0.44:
                    await h.do_update()
                elif r < 0.70:
                    await h.do_read()
                elif r < 0.82:
                    await h.do_mutate()
                elif mode == "conc" and r < 0.90:
                    await h.conc_phase()
                else:
                    await h.do_list_read()
            if mode == "conc":
                for _ in range(rng.randint(1, 3)):
                    await h.conc_phase()
        elif mode == "alias":
            # dedicated class: caller mutates the nested params of a cached row, then reads again
            for _ in range(6):
                await h.do_add()
            for _ in range(3):
                await h.do_mutate()
                await h.do_read()
        elif mode == "overlap":
            # dedicated class: exactly one read overlapping one update of a cached row
            for _ in range(6):
                await h.do_add()
            for _ in range(4):
                await h.conc_phase(table=rng.choice([t for t in ["step", "port", "deployment", "target", "filter"] if h.ids[t]] or ["workflow"]), nreads=1, nupd=1)
        elif mode == "listmut":
            # dedicated class: caller edits the rows of listing reads, then reads the same ids one by one
            for _ in range(10):
                await h.do_add()
            for choice in ("workflow_steps", "workflow_ports", "workflows_by_name", "port_from_token", "workflow_steps", "workflow_ports"):
                await h.do_list_read(choice=choice, mutate=True)
                await h.do_read()
        elif mode == "kw":
            # dedicated class: reads issued in keyword form around an update
            from streamflow.core.workflow import Port
            from streamflow.workflow.step import ExecuteStep

            sid = await h.db.add_step(name="s", workflow_id=h.ids["workflow"][0], status=0, type=ExecuteStep, params=rparams(rng))
            h.ids["step"].append(sid)
            pid = await h.db.add_port(name="p", workflow_id=h.ids["workflow"][0], type=Port, params=rparams(rng))
            h.ids["port"].append(pid)
            for table, id_ in (("step", sid), ("port", pid)):
                row = await h.read_row(table, id_, kw=True)
                h.kw_snap[(table, id_)] = h.O.canon(h.O.plain(row))
                await h.do_update(table, id_)
                await h.read_row(table, id_, kw=True)
                await h.read_row(table, id_, kw=False)
        await h.final_sweep_and_close()
    finally:
        try:
            await h.db.close()
        except Exception:
            pass
    return h


def run_case(sh: Shard, case: dict):
    d = os.path.join(sh.scratch, f"c09_{case['mode']}_{case['seed']}")
    shutil.rmtree(d, ignore_errors=True)
    os.makedirs(d)
    try:
        h = asyncio.run(asyncio.wait_for(run_history(sh, case, d), 400))
        sh.case((case["mode"], case["seed"]), nontrivial=h.nontrivial)
        return h
    except asyncio.TimeoutError:
        sh.inconclusive_because(f"history {case} exceeded the 400 s wall-clock watchdog")
    except Exception as e:
        # the history only issues calls that are legal on the real API: an exception is a refutation
        # unless it is the harness's own
        sh.violation(None, f"history {case} raised {type(e).__name__}: {e}", {"case": case, "tb": short_tb(e)})
        sh.case((case["mode"], case["seed"]), nontrivial=False)
    finally:
        shutil.rmtree(d, ignore_errors=True)
        import gc

        gc.collect()  # see run_shard: automatic GC is off while cases run
    return None


def run_shard(sh: Shard) -> None:
    rng = sh.rng("hist", sh.shard)
    # cachebox 6.2.0 can deadlock with itself when a full GC starts inside the lambda that
    # `locks.setdefault_with` calls while holding the cache mutex (the GC traverses the same cache).  That is a
    # third-party liveness hazard outside this property; automatic GC is switched off while cases run and an
    # explicit collection is done between cases, so a hang cannot make the verdict inconclusive.
    import gc

    gc.disable()
    sh.note("gc", "automatic GC disabled during cases, gc.collect() between cases (cachebox setdefault_with/GC self-deadlock)")
    hist = {}
    n = 0
    # dedicated classes first (each shard a few), then the random mix
    fixed = [("alias", 2), ("overlap", 3), ("kw", 1), ("listmut", 2)]
    for mode, k in fixed:
        for j in range(k):
            case = {"mode": mode, "seed": rng.randrange(1 << 48)}
            h = run_case(sh, case)
            if h is not None and n < 1 and sh.shard == 0:
                sh.sample({"case": case, "ops_tail": h.log[-12:]})
            n += 1
    limit = sh.pick(130, 4000)
    while n < limit and not sh.out_of_budget():
        mode = "conc" if rng.random() < 0.5 else "seq"
        case = {"mode": mode, "seed": rng.randrange(1 << 48), "n": rng.randint(25, 60)}
        h = run_case(sh, case)
        n += 1
        if h is not None:
            for k, v in h.hist.items():
                hist[k] = hist.get(k, 0) + v
            if sh.shard == 1 and len(sh.samples) < 2 and mode == "conc":
                sh.sample({"case": case, "n_ops": len(h.log), "ops_tail": h.log[-10:]})
    sh.note("op_histogram", hist)
    sh.note("distinct_concurrent_timelines", len(TRACES))
    sh.note("histories", n)


def replay(sh: Shard, w: dict) -> None:
    case = w.get("case") or {k: w[k] for k in ("mode", "seed", "n") if k in w}
    run_case(sh, case)
