"""C06  Loops emit the last / all iteration values in iteration order, for any count.

engine  loops wired exactly as CWLTranslator wires them (input forwarders -> LoopCombinatorStep ->
        CWLLoopConditionalStep -> body -> output forwarders -> CWLLoopOutput{Last,All}Step ->
        LoopTerminationCombinator step -> back-propagation forwarders), iteration counts 0..15 per
        instance, 1..4 instances (through real ScatterSteps, or injected with tags such as 0.3/0.10),
        transformer or Deploy/Schedule/Execute bodies, a slow side output that is not fed back (so the
        iteration-termination token can overtake values), loop nested in loop; each program is run by
        the real StreamFlowExecutor under several perturbation seeds with `run_quiescent`: a loop that
        never terminates is a deadlock (violation), not a timeout.
direct  real CWLLoopOutputLastStep / CWLLoopOutputAllStep fed with value tokens and iteration
        termination tokens of 1..4 instances in shuffled order (every permutation for small counts),
        the port's termination token last (causality: the engine terminates the port only after the
        loop combinator saw every instance's IterationTerminationToken, which is produced from the
        instance's emitted outputs).

Oracle: the while-loop denotation per instance: exactly one output token per instance, tagged with
the instance tag; `last` = value of the highest iteration (null for 0 iterations); `all` = list of the
iteration values in numeric iteration order with element tags <instance>.<k>; every output precedes
the single termination token of the loop output port; no step is left unterminated / failed.
"""
from __future__ import annotations

import asyncio
import itertools
import os
import shutil

from vf.common import Shard, digest, short_tb

PROPERTY = "C06"
META = {
    "text": "For every explored loop instance (0..15 iterations, 1..4 instances around the loop, nested loops, "
            "last/all output methods, perturbed schedules and shuffled arrivals at the loop output step) exactly one "
            "output is emitted, equal to the while-loop denotation, in numeric iteration order, before the loop "
            "output port terminates; no explored loop failed to terminate.",
    "note": "The loop condition is a Python predicate substituted for CWLLoopConditionalStep._eval (no JavaScript); "
            "loop bodies are harness steps. Wiring is copied from CWLTranslator and compared at run time with the "
            "topology the real translator produces for the equivalent CWL document. In the direct path the port "
            "termination token is always delivered last.",
    "technique": "while-loop denotation vs real loop steps under schedule perturbation and shuffled arrivals; quiescence = deadlock",
}

COUNTS = [0, 0, 1, 2, 3, 5, 9, 10, 11, 12, 15]


def plan(tier):
    q = tier == "quick"
    return {
        "level": "exploration",
        "shards": 16,
        "budget_s": 75 if q else 900,
        "timeout_s": 600 if q else 3600,
        "min_nontrivial": 500 if q else 20000,
        "required_counters": ["direct_runs", "engine_runs", "instances_judged", "instances_with_10plus_iterations",
                              "instances_with_0_iterations", "direct_runs_values_out_of_order",
                              "engine_runs_iterterm_overtook_value", "engine_runs_nested", "engine_runs_exec_body",
                              "exhaustive_orders", "wiring_edges_compared_with_translator"],
        "rule": "engine: random loop programs (method last|all, body fn|exec|nested loop, 1..4 instances scattered or "
                "injected, counts 0..15) x perturbation seeds; direct: every permutation of the value and "
                "iteration-termination tokens for one instance with <=4 (quick) / <=6 (thorough) iterations and for "
                "small two-instance combinations, plus seeded shuffles for 1..4 instances with counts 0..15. "
                "distinct = (case, schedule seed); non-trivial = some instance iterates at least twice.",
        "exhaustive": True,
        "assumptions": [
            "loop condition evaluated by a Python predicate in place of the JavaScript expression",
            "direct path: the port termination token arrives after every instance's tokens",
            "instances on one port all have tags of the same depth (what scatter / an enclosing loop produce)",
        ],
    }


# ----------------------------------------------------------------------------- generators
def gen_val(rng, k):
    return rng.choice([k, f"it{k}", [k, k], {"k": k}, None if k % 5 == 4 else k * 10])


def instance_tags(rng, n):
    style = rng.choice(["scatter", "scatter", "sparse", "deep"]) if n > 1 else rng.choice(["root", "root", "sparse", "deep"])
    if style == "root":
        return ["0"]
    if style == "scatter":
        return [f"0.{i}" for i in range(n)]
    if style == "sparse":
        return rng.sample(["0.3", "0.9", "0.10", "0.11", "0.20"], n)
    return rng.sample(["0.1.0", "0.1.1", "0.2.0", "0.10.2", "0.2.10"], n)


def gen_direct(rng):
    n = rng.choice([1, 1, 2, 3, 4])
    tags = instance_tags(rng, n)
    method = rng.choice(["last", "all"])
    insts, events = [], []
    for t in tags:
        c = rng.choice(COUNTS)
        vals = [gen_val(rng, k) for k in range(c)]
        insts.append({"tag": t, "vals": vals})
        events += [["v", f"{t}.{k}", v] for k, v in enumerate(vals)] + [["it", f"{t}.{c}"]]
    style = rng.choice(["shuffle", "shuffle", "term_first", "in_order_interleaved"])
    if style == "shuffle":
        rng.shuffle(events)
    elif style == "term_first":
        rng.shuffle(events)
        events.sort(key=lambda e: e[0] != "it")
    else:  # per-instance order kept, instances interleaved
        per = {}
        for e in events:
            per.setdefault(e[1].rsplit(".", 1)[0], []).append(e)
        events = []
        queues = list(per.values())
        while queues:
            q = rng.choice(queues)
            events.append(q.pop(0))
            if not q:
                queues.remove(q)
    out = []
    for e in events:
        if rng.random() < 0.3:
            out.append(["y", rng.randint(1, 3)])
        out.append(e)
    out.append(["T"])
    return {"kind": "direct", "method": method, "instances": insts, "events": out}


def exhaustive_direct(cmax, two):
    idx = 0
    for method in ("last", "all"):
        for c in range(cmax + 1):
            for perm in itertools.permutations(range(c + 1)):
                yield idx, method, [("0.2", c)], perm
                idx += 1
        for c1, c2 in two:
            for perm in itertools.permutations(range(c1 + c2 + 2)):
                yield idx, method, [("0.9", c1), ("0.10", c2)], perm
                idx += 1


def build_exhaustive(method, insts, perm):
    base, lst = [], []
    for t, c in insts:
        vals = [f"{t}#{k}" for k in range(c)]
        lst.append({"tag": t, "vals": vals})
        base += [["v", f"{t}.{k}", v] for k, v in enumerate(vals)] + [["it", f"{t}.{c}"]]
    return {"kind": "direct", "method": method, "exh": True, "instances": lst,
            "events": [base[i] for i in perm] + [["T"]]}


def gen_engine(rng, i=None):
    """i (program index in the shard) rotates the features so that every one is exercised by the first few
    programs of every shard, whatever the budget allows afterwards"""
    nested = rng.random() < 0.3 if i is None else i % 4 == 1
    body = rng.choice(["fn", "fn", "exec"]) if i is None else ("exec" if i % 3 == 0 else "fn")
    spec = {"method": rng.choice(["last", "all"]) if i is None else ("last", "all")[i % 2], "body": body,
            "acc": rng.choice(["append", "str", "sum", "obj"]),
            "aux_k": rng.choice([0, 3, 8, 14]) if i is None or i % 2 else rng.choice([8, 14])}
    if nested:
        spec["inner"] = {"method": rng.choice(["last", "all"]), "body": rng.choice(["fn", "fn", "exec"]),
                         "acc": rng.choice(["append", "str", "sum", "obj"]), "aux_k": rng.choice([0, 3, 8]),
                         "counts": [rng.choice([0, 1, 2, 3, 3, 4, 11]) for _ in range(rng.randint(1, 3))]}
    n = rng.choice([1, 1, 2, 3, 4])
    scatter = n > 1 and rng.random() < 0.6
    tags = [f"0.{i}" for i in range(n)] if scatter else (instance_tags(rng, n))
    if scatter:
        tags = ["0"] * n  # the real ScatterSteps produce 0.0 .. 0.(n-1)
    insts = []
    for t in tags:
        c = rng.choice([0, 1, 2, 3, 4] if nested else COUNTS)
        i0 = rng.choice([0, 0, 3, 7])
        acc0 = {"append": rng.choice([[], ["s"]]), "str": "", "sum": rng.choice([0, 5]), "obj": None}[spec["acc"]]
        insts.append([t, i0, i0 + c if c or rng.random() < 0.5 else i0 - 2, acc0])
    case = {"kind": "engine", "spec": spec, "instances": insts, "scatter": scatter}
    if not nested and (rng.random() < 0.2 if i is None else i % 5 == 2):
        # `acc` is the output of an upstream step with a `when` clause that is false for every / some instances
        case["pre_when"] = rng.choice(["all_false", "mixed"])
    return case


# ----------------------------------------------------------------------------- oracle
class Prob(str):
    """a refutation message that also carries its kind (for the mechanism predicates)"""

    def __new__(cls, kind, text, cnt=None, inst=None):
        o = super().__new__(cls, text)
        o.kind, o.cnt, o.inst = kind, cnt, inst
        return o


def judge_port(sh, label, out, expected, method, stalled=False):
    """out: observe_port list; expected: {instance tag: (value, iteration count)}.
    stalled: the run was stopped by the deadlock detector; the harness then cancels the executor, which
    puts CANCELLED termination tokens everywhere - the termination tokens are not judged in that case."""
    probs = []
    terms = [i for i, o in enumerate(out) if "term" in o]
    if stalled:
        pass
    elif len(terms) != 1 or terms[0] != len(out) - 1:
        probs.append(Prob("term", f"{label}: termination tokens at positions {terms} of {len(out)} tokens (want exactly one, after every output)"))
    elif out[-1]["term"] in ("FAILED", "CANCELLED"):
        probs.append(Prob("term-status", f"{label}: loop output port terminated with {out[-1]['term']}"))
    seen = {}
    for o in out:
        if "tag" in o:
            seen.setdefault(o["tag"], []).append(o)
        elif "iterterm" in o:
            probs.append(Prob("leak", f"{label}: IterationTerminationToken {o['iterterm']} leaked to the loop output port"))
    for tag, (val, cnt) in expected.items():
        sh.count("instances_judged")
        if cnt >= 10:
            sh.count("instances_with_10plus_iterations")
        if cnt == 0:
            sh.count("instances_with_0_iterations")
        got = seen.pop(tag, [])
        if not got:
            probs.append(Prob("missing", f"{label}: no output for loop instance {tag!r} ({cnt} iterations)", cnt, tag))
            continue
        if len(got) > 1:
            probs.append(Prob("dup", f"{label}: {len(got)} outputs for loop instance {tag!r}: {str([g['value'] for g in got])[:200]}"))
        g = got[0]
        if g["value"] != val:
            if method == "all" and isinstance(g["value"], list) and sorted(map(repr, g["value"])) == sorted(map(repr, val)):
                probs.append(Prob("order", f"{label}: instance {tag!r}: all-iterations list holds the right values in the wrong order; element tags {g.get('etags', [])[:16]}"))
            elif method == "last":
                probs.append(Prob("value", f"{label}: instance {tag!r}: last-iteration output is {str(g['value'])[:120]}, the value of iteration {cnt - 1} is {str(val)[:120]}"))
            else:
                probs.append(Prob("value", f"{label}: instance {tag!r}: output {str(g['value'])[:160]} != denotation {str(val)[:160]}"))
        if method == "all":
            if not g.get("list"):
                probs.append(Prob("value", f"{label}: instance {tag!r}: all-iterations output is not a list token"))
            elif g["etags"] != [f"{tag}.{k}" for k in range(cnt)]:
                probs.append(Prob("tags", f"{label}: instance {tag!r}: element tags {g['etags'][:16]} are not {tag}.0 .. {tag}.{cnt - 1} in order"))
    for tag, got in seen.items():
        probs.append(Prob("phantom", f"{label}: output for an instance that does not exist: tag {tag!r} value {str(got[0]['value'])[:100]}"))
    return probs


def expected_engine(case):
    """-> {loop path: {out: {instance tag: (value, count)}}}, gathered {out: list}"""
    from vf.harness.c06_loops import OUTS, denote_loop, emitted, pre_when_true

    spec = case["spec"]
    exp = {"/loop": {o: {} for o in OUTS}}
    if spec.get("inner"):
        exp["/loop/inner"] = {o: {} for o in OUTS}
    gathered = {o: [] for o in OUTS}
    for k, (tag, i0, n, acc0) in enumerate(case["instances"]):
        itag = f"0.{k}" if case["scatter"] else tag
        if case.get("pre_when") and not pre_when_true(case["pre_when"], itag):
            acc0 = None  # the upstream step was skipped: its output is null
        its, inner = denote_loop(spec, i0, n, acc0)
        for o in OUTS:
            v = emitted(spec["method"], its, o)
            exp["/loop"][o][itag] = (v, len(its))
            gathered[o].append(v)
        for a, sub in enumerate(inner):
            for o in OUTS:
                exp["/loop/inner"][o][f"{itag}.{a}"] = (emitted(spec["inner"]["method"], sub, o), len(sub))
    return exp, gathered


def overtook(seq):
    """an IterationTerminationToken of an instance arrived before one of its values"""
    closed = set()
    for t in seq:
        if t.startswith("I:"):
            closed.add(t[2:].rsplit(".", 1)[0])
        elif t.rsplit(".", 1)[0] in closed:
            return True
    return False


def values_out_of_order(seq):
    last = {}
    for t in seq:
        if t.startswith("I:"):
            continue
        p, k = t.rsplit(".", 1)
        if int(k) < last.get(p, -1):
            return True
        last[p] = max(last.get(p, -1), int(k))
    return False


def classify(case, probs, obs=None):
    """Mechanism predicates over the witness.  Anything they do not recognise stays unclassified."""
    if obs is not None and is_cut_by_skipped_termination(case, probs, obs):
        return "C06/loop-cut-by-skipped-input-termination"
    return None


def is_cut_by_skipped_termination(case, probs, obs):
    """LoopCombinatorStep.run clears its iteration checklist on a TerminationToken whose status is not
    COMPLETED - also SKIPPED.  A loop input port that carried data but is terminated SKIPPED (upstream
    step skipped by `when`: null token + TerminationToken(SKIPPED)) is therefore dropped while its
    instances are still iterating: back-propagated tokens on that port are never read, the instance
    never completes.  Recognised iff
      * the loop's `acc` input is fed by the upstream `when` construct, and that port was OBSERVED to hold
        data tokens followed by TerminationToken(SKIPPED) (the condition was false for every instance);
      * every instance that is reported without output was still open on the loop combinator's `acc`
        input port when that SKIPPED termination token was put there (its own token was there, its
        IterationTerminationToken was not yet);
      * the only refutations are: instances with >= 1 iterations have no output, possibly together with
        "the loop never terminates".  Wrong values, wrong order, duplicates, phantom outputs, a missing
        output of a 0-iteration instance, or a stall in which nothing is missing are NOT this mechanism."""
    if not case.get("pre_when") or case["spec"].get("inner"):
        return False  # (a `mixed` when that happens to be false for every instance is the same situation)
    pre = obs.get("pre_out") or []
    if len(pre) < 2 or pre[-1].get("term") != "SKIPPED" or not all("tag" in o for o in pre[:-1]):
        return False
    seq = obs["A"].get("/loop|acc") or []
    if "T:SKIPPED" not in seq:
        return False
    before = seq[: seq.index("T:SKIPPED")]
    if any(t.startswith("T:") for t in before):
        return False
    open_at_skip = {t for t in before if not t.startswith("I:") and ("I:" + t) not in before}
    if any(p.kind == "missing" and p.inst not in open_at_skip for p in probs):
        return False
    kinds = {p.kind for p in probs}
    if not kinds <= {"missing", "deadlock"}:
        return False
    if any(p.kind == "missing" and not (p.cnt and p.cnt >= 1) for p in probs):
        return False
    return "missing" in kinds


# ----------------------------------------------------------------------------- running
class Runner:
    def __init__(self, sh):
        self.sh = sh
        self.ctx = None
        self.n = 0
        self.dir = os.path.join(sh.scratch, "c06")
        self.traces = {}
        self.orders = set()
        self.count_hist = {}
        self.kinds = {}

    async def context(self):
        from vf.harness.ctx import make_context

        if self.ctx is not None and self.n % 120 == 0:
            await self.close()
        if self.ctx is None:
            shutil.rmtree(self.dir, ignore_errors=True)
            self.ctx = make_context(self.dir)
        self.n += 1
        return self.ctx

    async def close(self):
        from vf.harness.ctx import close_context

        if self.ctx is not None:
            try:
                await close_context(self.ctx)
            except Exception:
                pass
            self.ctx = None
        shutil.rmtree(self.dir, ignore_errors=True)

    def hist(self, c):
        b = "0" if c == 0 else "1-9" if c < 10 else "10-15" if c <= 15 else ">15"
        self.count_hist[b] = self.count_hist.get(b, 0) + 1

    async def direct(self, case):
        from vf.harness import c06_loops as L
        from vf.perturb import Deadlock, Sched, WallTimeout

        sh = self.sh
        ctx = await self.context()
        Sched.reset(0, 0, enabled=False)
        sh.count("direct_runs")
        if case.get("exh"):
            sh.count("exhaustive_orders")
        ckey = ("direct", digest(case, 16))
        nontrivial = any(len(i["vals"]) >= 2 for i in case["instances"])
        try:
            obs = await L.run_direct(ctx, case, wall=sh.pick(60, 300))
        except Deadlock as e:
            sh.case(ckey, nontrivial)
            sh.violation(None, "loop output step never terminated after its input port terminated (loop quiescent)",
                         {"case": case, "stacks": e.stacks[:6]})
            self.ctx = None
            return
        except WallTimeout as e:
            sh.inconclusive_because(f"direct case hit the wall-clock watchdog: {str(e)[:300]}")
            self.ctx = None
            return
        except Exception as e:
            sh.case(ckey, nontrivial)
            sh.violation(None, f"loop output step raised {type(e).__name__}: {e}", {"case": case, "tb": short_tb(e)})
            self.ctx = None
            return
        sh.case(ckey, nontrivial)
        m = case["method"]
        expected = {}
        for i in case["instances"]:
            v = list(i["vals"]) if m == "all" else (i["vals"][-1] if i["vals"] else None)
            expected[i["tag"]] = (v, len(i["vals"]))
            self.hist(len(i["vals"]))
        probs = judge_port(sh, f"direct {m}", obs["out"], expected, m)
        if not obs["terminated"]:
            probs.append(Prob("unterminated", "step.terminated is False after run() returned"))
        seq = [("I:" + e[1]) if e[0] == "it" else e[1] for e in case["events"] if e[0] in ("v", "it")]
        self.orders.add(digest(seq, 12))
        if values_out_of_order(seq):
            sh.count("direct_runs_values_out_of_order")
        if overtook(seq):
            sh.count("direct_runs_iterterm_before_value")
        self.kinds[f"direct-{m}"] = self.kinds.get(f"direct-{m}", 0) + 1
        if probs:
            sh.violation(classify(case, probs), "; ".join(probs)[:1500], {"case": case, "observed": obs["out"]})
        elif any(len(i["vals"]) >= 10 for i in case["instances"]) and values_out_of_order(seq):
            sh.sample({"kind": "direct", "method": m, "arrival_order": seq[:40],
                       "output": [{k: (v[:16] if isinstance(v, list) else v) for k, v in o.items()} for o in obs["out"]]}, limit=1)

    async def engine(self, case, sched_seed):
        from vf.harness import c06_loops as L
        from vf.perturb import Deadlock, WallTimeout

        sh = self.sh
        ctx = await self.context()
        sh.count("engine_runs")
        spec = case["spec"]
        if spec.get("inner"):
            sh.count("engine_runs_nested")
        if spec["body"] == "exec" or (spec.get("inner") or {}).get("body") == "exec":
            sh.count("engine_runs_exec_body")
        cd = digest(case, 16)
        ckey = ("engine", cd, sched_seed)
        exp, gathered = expected_engine(case)
        nontrivial = any(c >= 2 for (_, c) in exp["/loop"]["o_i"].values())
        wit = {"case": case, "sched_seed": sched_seed}
        try:
            obs = await L.run_program(ctx, case, self.dir, sched_seed, wall=sh.pick(60, 300))
        except WallTimeout as e:
            sh.inconclusive_because(f"engine case hit the wall-clock watchdog: {str(e)[:300]}")
            self.ctx = None
            return
        sh.case(ckey, nontrivial)
        probs = []
        if case.get("pre_when"):
            sh.count("engine_runs_input_from_skipped_step" if case["pre_when"] == "all_false" else "engine_runs_input_from_partly_skipped_step")
        if obs["deadlock"]:
            probs.append(Prob("deadlock", "loop never terminates: event loop quiescent while the executor was still waiting for the loop's steps"))
            self.ctx = None  # pending engine tasks of the stalled run must not leak into later cases
        for path, outs in exp.items():
            method = spec["method"] if path == "/loop" else spec["inner"]["method"]
            for o, e in outs.items():
                probs += judge_port(sh, f"{path}:{o} ({method})", obs["F"][f"{path}|{o}"], e, method,
                                    stalled=bool(obs["deadlock"]))
                if o == "o_i":
                    for (_, c) in e.values():
                        self.hist(c)
        if case["scatter"] and not probs and not obs["deadlock"]:
            for o, want in gathered.items():
                got = [x for x in obs["gathered"][o] if "tag" in x]
                sh.count("gathered_outputs_judged")
                if len(got) != 1 or got[0]["tag"] != "0" or got[0]["value"] != want:
                    probs.append(Prob("gather", f"gather of the per-instance loop outputs {o}: {str(got)[:300]} != [{str(want)[:300]}]"))
        if obs["err"]:
            probs.append(Prob("raised", f"executor raised {obs['err']}"))
        if obs["unterminated"] and not obs["deadlock"]:
            probs.append(Prob("unterminated", f"steps not terminated after the executor returned: {obs['unterminated'][:6]}"))
        bad = {k: v for k, v in obs["statuses"].items() if v in ("FAILED", "CANCELLED", "RUNNING", "FIREABLE", "WAITING")}
        if bad and not obs["deadlock"]:
            probs.append(Prob("status", f"step statuses after the run: {bad}"))
        self.traces.setdefault(cd, set()).add(obs["trace"])
        if any(overtook(seq) for seq in obs["D"].values()):
            sh.count("engine_runs_iterterm_overtook_value")
        for seq in obs["D"].values():
            self.orders.add(digest(seq, 12))
        k = f"engine-{spec['method']}-{spec['body']}" + ("-nested" if spec.get("inner") else "") + ("-scatter" if case["scatter"] else "")
        self.kinds[k] = self.kinds.get(k, 0) + 1
        if probs:
            sh.violation(classify(case, probs, obs), "; ".join(probs)[:1500],
                         dict(wit, observed=obs["F"], statuses=obs["statuses"], arrivals=obs["D"],
                              combinator_inputs=obs["A"], pre_out=obs["pre_out"], stacks=obs["deadlock"]))
        elif any(c >= 10 for (_, c) in exp["/loop"]["o_i"].values()) or spec.get("inner"):
            sh.sample({"kind": "engine", "spec": spec, "instances": case["instances"], "scatter": case["scatter"],
                       "sched_seed": sched_seed,
                       "arrivals_at_o_aux_loop_output": obs["D"]["/loop|o_aux"][:40],
                       "loop_output_port_o_acc": [{k: (str(v)[:160]) for k, v in o.items()} for o in obs["F"]["/loop|o_acc"]]}, limit=2)


async def wiring_guard(sh, r):
    """the hand-built loop must have the topology the real CWLTranslator produces (see c06_wiring.py)"""
    from vf.harness import c06_wiring as W

    ctx = await r.context()
    for method in ("last", "all"):
        try:
            a, _ = W.translator_signature(ctx, sh.scratch, method)
            b, _ = W.harness_signature(ctx, sh.scratch, method)
        except Exception as e:
            sh.inconclusive_because("wiring guard could not run the real translator: " + short_tb(e, 4))
            return
        sh.count("wiring_edges_compared_with_translator", len(a))
        if a != b:
            sh.inconclusive_because(
                f"harness loop wiring differs from CWLTranslator's ({method}): only translator "
                f"{sorted(a - b)[:6]}, only harness {sorted(b - a)[:6]} - update vf/harness/c06_loops.py")
    sh.note("wiring_guard", "harness loop topology == CWLTranslator loop topology (roles, classes, port names, skip ports)")


async def _run(sh: Shard):
    r = Runner(sh)
    try:
        await wiring_guard(sh, r)
        cmax = sh.pick(4, 6)
        two = sh.pick([(1, 1), (2, 0), (2, 1)], [(1, 1), (2, 0), (2, 1), (2, 2), (3, 1), (0, 0), (4, 0)])
        completed = True
        for idx, method, insts, perm in exhaustive_direct(cmax, two):
            if not sh.mine(idx):
                continue
            await r.direct(build_exhaustive(method, insts, perm))  # never cut by the budget: the scope is small
        sh.note("exhaustive_scope", {"single_instance_max_iterations": cmax, "two_instance_counts": two, "completed": completed})
        i = 0
        n_direct = sh.pick(70, 4000)
        n_prog = sh.pick(16, 900)
        n_seeds = sh.pick(3, 8)
        while not sh.out_of_budget() and (i < n_direct or i < n_prog):
            if i < n_direct:
                await r.direct(gen_direct(sh.rng("direct", sh.shard, i)))
            if i < n_prog and not sh.out_of_budget():
                case = gen_engine(sh.rng("engine", sh.shard, i), i)
                for s in range(n_seeds):
                    await r.engine(case, sh.rng("sched", sh.shard, i, s).randrange(1 << 30))
            i += 1
        sh.note("random_part", {"direct_cases": min(i, n_direct), "engine_programs": min(i, n_prog),
                                "planned": [n_direct, n_prog], "schedule_seeds_per_program": n_seeds})
        per = [len(v) for v in r.traces.values()]
        sh.note("engine_programs", len(per))
        sh.note("engine_programs_with_2plus_interleavings", sum(1 for x in per if x >= 2))
        sh.note("distinct_arrival_orders_at_loop_output_steps", len(r.orders))
        sh.note("iterations_per_instance_histogram", r.count_hist)
        sh.note("workload_histogram", r.kinds)
    finally:
        await r.close()


def run_shard(sh: Shard) -> None:
    import vf.perturb as P

    P.install()
    asyncio.run(_run(sh))


def replay(sh: Shard, w: dict) -> None:
    import vf.perturb as P

    P.install()

    async def go():
        r = Runner(sh)
        try:
            case = w["case"]
            if case["kind"] == "direct":
                await r.direct(case)
            else:
                await r.engine(case, w["sched_seed"])
        finally:
            await r.close()

    asyncio.run(go())
