"""C29  CWL workflows produce the same outputs as the reference runner (translation validation).

Workload: random CWL v1.2 documents (+ cwltool:Loop) from vf.harness.c29_cwlgen, each run by
cwltool (`--no-container --enable-ext`, in-process) and by StreamFlow (`streamflow.cwl.runner.main`,
in-process; its return value is the status).  Oracle: same success class and, on success, the same
output object after normalisation (vf.harness.c29_run.normalise / diff).

Documents the reference does not validate, and documents on which the reference itself breaks
(internal error instead of a tool / pickValue failure), are discarded and never counted.

A divergence is shrunk (vf.harness.c29_shrink) while it persists, then classified by explicit
predicates over the shrunk document, the difference and StreamFlow's log; anything no predicate
recognises is an unclassified VIOLATION.
"""
from __future__ import annotations

import copy
import json
import logging
import os
import re
import time

from vf.common import Shard, digest
from vf.harness import c29_cwlgen as G
from vf.harness import c29_neutral as N
from vf.harness import c29_run as R
from vf.harness import c29_shrink as S

PROPERTY = "C29"
META = {
    "text": "Randomly generated CWL workflows (expression and python3 command-line tools, scatter with every "
            "method incl. empty arrays, linkMerge, pickValue, when, valueFrom, defaults, nested subworkflows, "
            "cwltool:Loop) give the same success class and the same normalised output object under StreamFlow "
            "as under cwltool.",
    "note": "cwltool 3.2 is trusted as the reference; documents it rejects or crashes on are not judged. "
            "v1.3 loop syntax is outside the domain: the installed cwl_utils has no v1.3 parser, StreamFlow "
            "cannot load such a document.",
    "technique": "differential testing against the reference runner with delta-debugging of divergences",
}


def _scale():
    """VF_BUDGET_SCALE=<float> stretches the soft time budgets on a machine that is busy with other work
    (the number of documents is fixed, so the coverage of a completed run does not depend on it)."""
    try:
        return max(1.0, float(os.environ.get("VF_BUDGET_SCALE", "1")))
    except ValueError:
        return 1.0


# documents per run (all shards together); VF_C29_DOCS=<n> overrides it (deeper runs on an idle machine)
TOTAL_DOCS = {"quick": 96, "thorough": 640}


def plan(tier):
    quick = tier == "quick"
    return {
        "level": "translation_validation",
        "shards": 16,
        "budget_s": int((60 if quick else 1100) * _scale()),
        "timeout_s": int((900 if quick else 5400) * _scale()),
        "jail": True,
        "min_nontrivial": 20 if quick else 150,
        "required_counters": ["programs", "outputs_compared"],
        "rule": "one case = one generated (document, job) pair accepted and run by the reference; distinct = "
                "distinct document+job digest; all are non-trivial (>= 1 step). A divergence is attributed to listed "
                "mechanisms by neutralising rewrites (+ value-level conditions); what is left is shrunk and reported "
                "with its feature signature and the shape of the difference.",
        "exhaustive": False,
        "assumptions": ["cwltool --no-container is the reference semantics",
                        "documents rejected by the reference or crashing it are discarded, not judged"],
    }


# ----------------------------------------------------------------------------- running one case
def run_pair(sh, case, root, timeout):
    """-> dict(ref=..., sf=..., kind=None|'sf_fail'|'sf_ok'|'diff', diff=[...]) or dict(skip=reason)"""
    d = R.fresh_dir(root)
    try:
        R.materialize(case, d)
        ref = R.run_ref(d, R.deadline, timeout)
        if ref[0] in ("INVALID", "REFERR", "TIMEOUT"):
            return {"skip": "ref_" + ref[0].lower(), "log": ref[2]}
        sf = R.run_sf(d, R.deadline, timeout)
        if sf[0] == "TIMEOUT":
            return {"skip": "sf_timeout", "log": sf[2]}
        out = {"ref": ref[0], "ref_kind": ref[1] if ref[0] == "FAIL" else None, "sf": sf[0], "sf_log": sf[2],
               "kind": None, "diff": []}
        if ref[0] == "OK" and sf[0] == "OK":
            a, b = R.normalise(ref[1]), R.normalise(sf[1])
            out["ref_out"], out["sf_out"] = a, b
            out["diff"], dropped = _drop_colliding_basenames(a, R.diff(a, b))
            if dropped:
                sh.count("basename_collisions_not_judged", dropped)
            if out["diff"]:
                out["kind"] = "diff"
        elif ref[0] == "OK":
            out["kind"] = "sf_fail"
            out["ref_out"] = R.normalise(ref[1])
        elif sf[0] == "OK":
            out["kind"] = "sf_ok"
            out["sf_out"] = R.normalise(sf[1])
        return out
    finally:
        R.cleanup(d)


def _basenames(v, acc):
    if isinstance(v, list):
        for x in v:
            _basenames(x, acc)
    elif isinstance(v, dict):
        if v.get("class") == "File":
            acc[v.get("basename")] = acc.get(v.get("basename"), 0) + 1
        for x in v.values():
            _basenames(x, acc)
    return acc


def _drop_colliding_basenames(ref_out, d):
    """Two output files with one basename cannot both keep it in one output directory: each runner renames in
    its own way (the reference keeps `basename` and changes the location, StreamFlow renames to name-1.ext).
    A `basename` difference on a name the reference reports more than once is outside the domain."""
    names = _basenames(ref_out, {})
    keep = [(p, a, b) for p, a, b in d if not (p.endswith("/basename") and names.get(a, 0) > 1)]
    return keep, len(d) - len(keep)


def diverging_keys(res):
    return sorted({p.split("/")[1] for p, _, _ in res["diff"]})


# ----------------------------------------------------------------------------- classification
def _leaves(v):
    if isinstance(v, list):
        return sum(_leaves(x) for x in v)
    return 1


CANCEL_NOISE = ("CancelledError", "Cannot operate on a closed database", "no active connection", "'NoneType' object has no attribute 'execute'",
                "FAILED Workflow execution", "failure can not be recovered", "Could not retrieve connector for job", "CANCELLED")


def _first_error(res):
    """first line of StreamFlow's log without the run specific parts (paths, job names)"""
    ln = next((x for x in (res.get("sf_log") or "").splitlines() if x.strip()), "")
    return re.sub(r"(/[\w.\-]+)+|\d+", "#", ln)[:160]


def _sig(res):
    return json.dumps([res["kind"], res["ref"], res["sf"], res["diff"], _first_error(res) if res["sf"] != "OK" else ""],
                      sort_keys=True, default=str)


def _same_ref(a, b):
    if a["ref"] != b["ref"]:
        return False
    if a["ref"] != "OK":
        return a.get("ref_kind") == b.get("ref_kind")
    keys = set(a["ref_out"]) & set(b["ref_out"])
    return R.diff({k: a["ref_out"][k] for k in keys}, {k: b["ref_out"][k] for k in keys}) == [] and set(a["ref_out"]) <= set(b["ref_out"])


def _only_cancellation_fallout(res):
    lines = [ln for ln in res["sf_log"].splitlines() if ln.strip() and ln.strip() != "..."]
    return res["kind"] == "sf_fail" and all(any(m in ln for m in CANCEL_NOISE) for ln in lines)


def _extra_condition(mech, case, res, rerun):
    """value-level part of a predicate, on top of the neutralising rewrite."""
    if mech == "C29/unconnected-step-cancelled":
        # StreamFlow fails although nothing failed: its log holds nothing but the cancellation fallout
        return _only_cancellation_fallout(res)
    if _only_cancellation_fallout(res):
        # a run that "failed" with nothing but cancellations in its log is timing dependent: a rewrite of another
        # construct that happens to make it pass explains nothing
        return False
    if mech == "C29/recoverable-flag-on-persisted-inner-token":
        first = next((ln for ln in res["sf_log"].splitlines() if ln.strip()), "")
        return (res["kind"] == "sf_fail" and "The `recoverable` property can't be changed after the `Token` has been persisted" in first
                and "transformer.py:_get_next_token" in first)
    if mech == "C29/skipped-subworkflow-sourceless-step-runs":
        # StreamFlow reports a value where the reference reports null (the enclosing conditional step was skipped)
        return res["kind"] == "diff" and all(a is None and b is not None for _, a, b in res["diff"])
    if mech == "C29/empty-nested-crossproduct-shape":
        # at some nested_crossproduct step the reference yields a nested list without leaves and StreamFlow
        # yields exactly one empty list per scatter input
        for path, step, n in N.nested_crossproduct_steps(case["wf"]):
            w = case["wf"]
            for p in [x for x in path.split("/") if x]:
                w = w["steps"][p]["run"]
            for o in w["steps"][step]["out"]:
                c2, key = N.expose_step_output(case, path, step, o)
                if c2 is None:
                    continue
                r2 = rerun(c2)
                if r2 is None or r2["ref"] != "OK" or r2["sf"] != "OK":
                    continue
                a, b = r2["ref_out"].get(key), r2["sf_out"].get(key)
                if isinstance(a, list) and isinstance(b, list) and a != b and _leaves(a) == 0 and b == [[] for _ in range(n)]:
                    return True
        return False
    return True


def classify(sh, case, res, rerun, trace):
    """-> (list of mechanisms that explain the divergence, remaining case, remaining result)
    The rewrites are applied cumulatively in a fixed order; one is kept iff the document contains its construct,
    the reference's outputs are unchanged by it, and StreamFlow's result changes with it.
    `trace` receives one line per mechanism tried (kept in the witness)."""
    found = []
    cur, cur_res = case, res
    for _pass in range(3):  # two mechanisms can mask each other: repeat until nothing more is explained
        progress = False
        for mech, rewrite in N.MECHANISMS:
            if cur_res["kind"] is None:
                break
            new, changed = rewrite(cur)
            if not changed:
                continue
            r = rerun(new)
            if r is None:
                r = rerun(new)  # an interrupted run (wall clock) is repeated once
            if r is None:
                trace.append(f"{mech}: rewritten document could not be run ({rerun.last_skip})")
                continue
            if not _same_ref(cur_res, r):
                trace.append(f"{mech}: the rewrite changes the reference's result, not used")
                continue
            if _sig(r) == _sig(cur_res):
                trace.append(f"{mech}: construct present, StreamFlow's result unchanged by the rewrite")
                continue
            if not _extra_condition(mech, cur, cur_res, rerun):
                trace.append(f"{mech}: rewrite changes StreamFlow's result but the value-level condition does not hold")
                continue
            trace.append(f"{mech}: explains (part of) the divergence; left: {r['kind']} {_first_error(r) if r['sf'] != 'OK' else ''}")
            if mech not in found:
                found.append(mech)
            cur, cur_res = new, r
            progress = True
        if not progress or cur_res["kind"] is None:
            break
    return found, cur, cur_res


# ----------------------------------------------------------------------------- one case, end to end
def run_case(sh: Shard, case, hist=None, shrink_budget=None):
    root = sh.scratch
    timeout = int(sh.pick(150, 300) * _scale())
    res = run_pair(sh, case, root, timeout)
    hist = hist if hist is not None else {}

    def bump(k):
        hist[k] = hist.get(k, 0) + 1

    if "skip" in res:
        bump(res["skip"])
        sh.count("discarded_" + res["skip"])
        ds = sh.extra.setdefault("discard_samples", [])
        if len(ds) < 4 and res["skip"] in ("ref_referr", "ref_invalid", "sf_timeout", "ref_timeout"):
            ds.append({"why": res["skip"], "features": case["meta"]["features"][:14], "log_tail": (res.get("log") or "")[-400:]})
        return res
    sh.count("programs")
    sh.count("outputs_compared", max(1, len(res.get("ref_out") or res.get("sf_out") or {})))
    key = digest([case["wf"], case["job"]])
    sh.case(key)
    if res["kind"] is None:
        bump("agree" if res["ref"] == "OK" else "both_fail_" + str(res["ref_kind"]))
        if res["ref"] == "OK" and len(sh.samples) < 2:
            sh.sample({"document_digest": key, "features": case["meta"]["features"], "steps": len(case["wf"]["steps"]),
                       "job": case["job"], "outputs": {k: v for k, v in list(res["ref_out"].items())[:4]}, "verdict": "same output object"})
        return res

    # ---- a divergence: attribute it to known mechanisms by neutralising rewrites; shrink what is left
    sh.count("disagreements_checked")

    def rerun(c):
        sh.count("classification_runs")
        r = run_pair(sh, c, root, timeout)
        if "skip" in r:
            rerun.last_skip = r["skip"]
            if r["skip"].endswith("timeout"):
                rerun.interrupted = True
            return None
        return r
    rerun.last_skip, rerun.interrupted = None, False

    trace = []
    found, rest, rest_res = classify(sh, case, res, rerun, trace)
    shape0 = [(p, _short(a), _short(b)) for p, a, b in res["diff"][:4]] if res["kind"] == "diff" else res["kind"]
    for mech in found:
        bump("known:" + mech)
        sh.violation(mech, f"{res['kind']}: reference {res['ref']} / StreamFlow {res['sf']}; difference {json.dumps(shape0)[:500]}; "
                           f"explained by {found}", {"case_json": json.dumps(case), "kind": res["kind"], "diff": res["diff"][:12], "explained_by": found, "classification_trace": trace,
                                                     "sf_log": res["sf_log"][:800], "signature": G.doc_features(case["wf"])})
    if rest_res["kind"] is None:
        return res
    if rerun.interrupted:
        # a classification run hit the wall clock: the remainder cannot be attributed either way
        bump("classification_interrupted")
        sh.inconclusive_because("classification of a divergence was interrupted by the wall-clock guard: " + "; ".join(trace)[:600])
        return res

    kind = rest_res["kind"]
    evals = [0]
    t_end = time.time() + (shrink_budget or sh.pick(300, 600) * _scale())  # watchdog only; the budget is the number of runs
    max_evals = sh.pick(40, 80)
    results = {}

    def dockey(c):
        return json.dumps(c["wf"], sort_keys=True) + json.dumps(c["job"], sort_keys=True)

    def still(c):
        r = run_pair(sh, c, root, timeout)
        if "skip" in r or r["kind"] != kind:
            return None
        results[dockey(c)] = r
        return diverging_keys(r) if kind == "diff" else []

    def spend():
        evals[0] += 1
        return evals[0] <= max_evals and time.time() < t_end

    small, steps_taken = S.shrink(copy.deepcopy(rest), still, spend, diverging_keys(rest_res) if kind == "diff" else ())
    sres = results.get(dockey(small), rest_res)
    sig = G.doc_features(small["wf"])
    shape = [(p, _short(a), _short(b)) for p, a, b in sres["diff"][:6]] if kind == "diff" else kind
    what = (f"{kind}: reference {sres['ref']} / StreamFlow {sres['sf']}; shrunk to {len(small['wf']['steps'])} step(s), "
            f"signature {sig}; difference {json.dumps(shape)[:700]}")
    if kind != "diff":
        what += "; StreamFlow log: " + sres["sf_log"][:500].replace("\n", " | ")
    if found:
        what += f"; after neutralising {found}"
    bump("UNCLASSIFIED")
    sh.violation(None, what, {"case_json": json.dumps(case), "kind": kind, "after_rewrites": found, "classification_trace": trace,
                              "shrunk_json": json.dumps({"wf": small["wf"], "job": small["job"], "files": small["files"]}),
                              "shrink_steps": steps_taken, "signature": sig, "diff": sres["diff"][:12],
                              "sf_log": sres["sf_log"][:1500], "ref": sres["ref"], "ref_kind": sres.get("ref_kind")})
    return res


def _short(v):
    s = json.dumps(v, sort_keys=True)
    return v if len(s) < 200 else s[:200] + "..."


def run_shard(sh: Shard) -> None:
    logging.getLogger("asyncio").setLevel(logging.CRITICAL)
    total = int(os.environ.get("VF_C29_DOCS") or TOTAL_DOCS[sh.tier])
    ndocs = -(-total // sh.nshards)
    hist, feats = {}, {}
    done = 0
    # the directed corpus first (spread over the shards, independent of the budget)
    for i, case in enumerate(G.directed_cases()):
        if sh.mine(i):
            res = run_case(sh, case, hist)
            sh.count("directed_documents")
            if "skip" in res:
                res = run_case(sh, case, hist)  # a directed document interrupted by the wall clock is repeated once
            if "skip" not in res:
                for f in case["meta"]["features"]:
                    feats[f] = feats.get(f, 0) + 1
    for i in range(ndocs * 3):
        # the soft budget stops a shard only after its first two cases (a busy machine must not starve the minimum)
        if done >= ndocs or (sh.out_of_budget() and done >= 2):
            break
        n = sh.shard + sh.nshards * i
        case = G.gen_case(sh.rng("doc", n), n)
        res = run_case(sh, case, hist)
        if "skip" not in res:
            done += 1
            for f in case["meta"]["features"]:
                feats[f] = feats.get(f, 0) + 1
    sh.note("outcomes", hist)
    sh.note("features_of_compared_documents", feats)


def replay(sh: Shard, w: dict) -> None:
    logging.getLogger("asyncio").setLevel(logging.CRITICAL)
    # the case travels as a JSON string: vf.common.jsonable truncates structures deeper than 12 levels
    run_case(sh, json.loads(w["case_json"]) if "case_json" in w else w["case"], shrink_budget=600)
