"""C11  Released resources return exactly what was reserved.

Same history generator / driver as C10 (vf/harness/c10_sched.py), own executions and oracle.
Every history is driven to completion (every allocated job leaves FIREABLE/RUNNING, in seeded orders,
with duplicated notifications and cross-job reorderings; job directories are populated with 0..3
files before the job is notified RUNNING).  Whenever no allocated job is FIREABLE or RUNNING at a
quiescent point -- and at the end -- the oracle reads `scheduler.hardware_locations`:
  * cores == 0 and memory == 0 on every location (every level of a stack);
  * storage per mount point == the usage of the finished jobs' directories on that mount point, which
    the harness measures itself with os.walk (bytes / 2**20: the code books sizes in MiB), per level.
Quantities are integers or dyadic fractions (sums exact, comparison exact up to 1e-9); the class
`decimal` uses 0.1-style fractions with a 1e-9 relative tolerance.

Out-of-lifecycle histories (e.g. RUNNING notified after a terminal status, which `_run_job` cannot emit)
run in a separate class whose outcome is recorded in the evidence and never judged.
"""
from __future__ import annotations

import re

from vf.common import Shard

PROPERTY = "C11"
META = {
    "text": "After every allocated job of a generated history has left the fireable/running states (any order, "
            "duplicated notifications), every location's reserved cores and memory are zero and its reserved storage "
            "equals the usage of the jobs' directories measured independently by the harness.",
    "note": "Judged on lifecycle histories the engine can emit; out-of-lifecycle histories are recorded only. A job's "
            "files stay within its reservation. Each (re-)scheduled attempt has its own directories, as the engine's "
            "ScheduleStep creates them.",
    "technique": "shadow-ledger history checking + independent os.walk measurement",
}

CLASSES = [("main", 8), ("decimal", 2), ("shared_inner", 2), ("ool", 1)]
NEG = re.compile(r"cannot have negative size: (-[0-9.e+-]+)")


def plan(tier):
    q = tier == "quick"
    return {
        "level": "exploration",
        "shards": 16,
        "budget_s": 40 if q else 600,
        "timeout_s": 900 if q else 5400,
        "min_nontrivial": 1500 if q else 30000,
        "required_counters": ["c11_all_released_checks", "c11_checks_after_2plus_releases", "c11_storage_usage_compared",
                              "releases", "exhaustive_cases", "c14_contract_sub"],
        "rule": "as C10 (bounded-exhaustive small configurations + random programs run twice), every history driven to "
                "completion with drain order fifo/lifo/random and final status COMPLETED/FAILED/CANCELLED. Non-trivial = "
                "at least two releases happened before a zero check and at least one location had hardware; distinct = "
                "distinct (configuration, jobs, history, pace, drain).",
        "exhaustive": True,
        "assumptions": ["repeated notifications are issued sequentially (any status, FIREABLE included) and concurrently (two in-flight COMPLETED/FAILED calls)", "a deployment's locations share one mount table", "jobs write within their reservation",
                        "out-of-lifecycle histories are recorded, not judged"],
    }


class Observer:
    def __init__(self, sh: Shard, case):
        self.sh, self.case = sh, case
        self.judged = case.get("class") != "ool"
        self.first = None
        self.checks = 0
        self.max_released = 0
        self.usage_compared = 0

    def compare(self, run):
        from vf.models.c14_hw import totals

        exact = run.ledger.exact
        disc = []
        for ln, hw in run.sch.hardware_locations.items():
            spec = run.ledger.locs[ln]
            cap = spec["cap"]
            for k, v in (("cores", hw.cores), ("memory", hw.memory)):
                scale = 1.0 if (exact or cap is None) else max(1.0, cap[k])
                if abs(v) > 1e-9 * scale:
                    disc.append([ln, k, v, 0.0])
            tot = totals(hw)
            ret = run.ledger.retained.get(ln, {}) if cap is not None else {}
            for mp in sorted(set(tot) | set(ret)):
                exp = ret.get(mp, 0.0)
                scale = 1.0 if (exact or cap is None) else max(1.0, cap["st"].get(mp, 1.0))
                if exp > 0:
                    self.usage_compared += 1
                if abs(tot.get(mp, 0.0) - exp) > 1e-9 * scale:
                    disc.append([ln, "storage:" + mp, tot.get(mp, 0.0), exp])
        return disc

    def _check(self, run, where):
        if run.ledger.active_jobs():
            return
        self.checks += 1
        self.max_released = max(self.max_released, run.stats["released"])
        if self.first is not None:
            return
        disc = self.compare(run)
        if disc:
            self.first = {"where": where, "discrepancies": disc[:8], "ledger": run.ledger.snapshot(),
                          "exceptions": list(run.exceptions[:4]), "trace": [list(map(str, t)) for t in run.trace[-30:]],
                          "mechanism": classify(run, disc)}

    def after_call(self, run, what):
        pass

    async def at_quiescence(self, run, tag):
        self._check(run, tag)

    async def at_end(self, run):
        self._check(run, "end")

    def on_exception(self, run, what, exc):
        self.sh.count("scheduler_call_raised")

    def finish(self, run):
        from vf.harness import c10_sched as H

        sh = self.sh
        key = H.case_key(self.case)
        sh.count("c11_all_released_checks", self.checks)
        sh.count("c11_storage_usage_compared", self.usage_compared)
        if self.max_released >= 2:
            sh.count("c11_checks_after_2plus_releases")
        if not self.judged:
            sh.count("ool_runs_recorded")
            sh.count("ool_runs_residue" if self.first else "ool_runs_clean")
            sh.case(("ool", key), nontrivial=False)
            return
        has_hw = any(v["cap"] is not None for v in run.ledger.locs.values())
        sh.case((self.case.get("class"), key, self.case.get("drain"), self.case.get("drain_status")),
                nontrivial=self.max_released >= 2 and has_hw and self.checks > 0)
        if self.first:
            f = self.first
            ln, res, got, exp = f["discrepancies"][0]
            sh.violation(f["mechanism"], f"with no job fireable/running, location {ln.split('-', 1)[-1]} still holds {res} = {got!r} "
                         f"(expected {exp!r}); {len(f['discrepancies'])} discrepancies"
                         + (f"; a scheduler call raised: {f['exceptions'][0]}" if f["exceptions"] else ""),
                         {"case": self.case, "observed": {k: v for k, v in f.items() if k != "mechanism"}})
        elif any(e[0] == "notify" for e in run.exceptions):
            # the release path itself failed: notify_status raised on a notification of the lifecycle
            # (e.g. a second release of the same reservation driving a size negative), although what it
            # left behind happens to be clean
            e = next(e for e in run.exceptions if e[0] == "notify")
            sh.count("runs_with_notify_exception_but_clean_account")
            tiny = [x for x in run.exceptions if x[0] == "notify" and x[3] == "WorkflowExecutionException" and NEG.search(x[4])
                    and abs(float(NEG.search(x[4]).group(1))) < 1e-9]
            mech = "C11/float-rounding-negative-storage" if len(tiny) == len(run.exceptions) else None
            sh.violation(mech, f"notify_status({run.names[e[1]]}, {e[2]}) raised {e[3]}: {e[4][-160:]} while releasing (history follows the job lifecycle)",
                         {"case": self.case, "observed": {"exceptions": list(run.exceptions[:4]), "ledger": run.ledger.snapshot(),
                                                          "trace": [list(map(str, t)) for t in run.trace[-30:]]}})
        elif self.max_released >= 3 and any(run.ledger.retained.values()):
            sh.sample(dict(H.summarize(run), retained_usage_MiB={k.split("-", 1)[-1]: {m.rsplit("/", 1)[-1] or "/": v for m, v in d.items()}
                                                                 for k, d in run.ledger.retained.items() if d}))


def classify(run, disc):
    """Tight predicates over the witness; anything they do not recognise stays unclassified.
    Several known mechanisms may act in one run: the storage the inner-level mechanisms (2) predict is taken
    off first, what remains must be explained completely by (1) or (3)."""
    close = lambda a, b: abs(a - b) <= 1e-9 * max(1.0, abs(a), abs(b))
    # (2) inner levels of stacked locations that get no storage back (two mechanisms of _free_resources)
    multi, deep = run.ledger.inner_storage_residue()
    amount = lambda d, ln, res: d.get(ln, {}).get(res[8:], 0.0) if res.startswith("storage:") else 0.0
    rest, inner_label = [], None
    for ln, res, got, exp in disc:
        r = amount(multi, ln, res) + amount(deep, ln, res)
        if r:
            inner_label = inner_label or ("C11/stacked-multi-location-inner-storage-leak" if amount(multi, ln, res)
                                          else "C11/deep-stack-inner-storage-leak")
            if close(got - exp, r):
                continue
        rest.append([ln, res, got - r, exp])
    # (1) a release raised on a negative size that is pure float rounding residue (|x| < 1e-9) and every
    #     remaining discrepancy sits on a location of that job and is bounded by that job's own charge
    if run.exceptions:
        neg = [e for e in run.exceptions if e[0] == "notify" and e[3] == "WorkflowExecutionException" and NEG.search(e[4])]
        if not (neg and len(neg) == len(run.exceptions) and all(abs(float(NEG.search(e[4]).group(1))) < 1e-9 for e in neg)):
            return None
        bound: dict = {}
        for rec in run.exc_charges:
            for ln, charge in rec["charges"]:
                b = bound.setdefault(ln, {"cores": 0.0, "memory": 0.0})
                b["cores"] += charge["cores"]
                b["memory"] += charge["memory"]
                for mp, s in charge["st"].items():
                    b["storage:" + mp] = b.get("storage:" + mp, 0.0) + s
                if run.ledger.locs[ln]["cap"] is None:  # the code books a hardware-less location's storage on '/'
                    b["storage:/"] = b.get("storage:/", 0.0) + rec["disk_total"]
        if rest and all(ln in bound and abs(got - exp) <= bound[ln].get(res, 0.0) * (1 + 1e-9) + 1e-9 for ln, res, got, exp in rest):
            return "C11/float-rounding-negative-storage"
        return None
    if not rest:
        return inner_label
    # (3) k outer locations on one inner location: inner cores/memory charged k times, released once
    if run.merged is not None and inner_label is None:
        want = {(ln, k): v[k] for ln, v in run.merged.leaked.items() for k in ("cores", "memory") if v[k]}
        have = {(ln, res): got for ln, res, got, exp in rest}
        if want and set(want) == set(have) and all(close(have[x], want[x]) for x in want):
            return "C11/shared-inner-requirement-merged"
    return None


def run_shard(sh: Shard) -> None:
    from vf.harness import c10_sched as H

    H.drive(sh, Observer, CLASSES, reps=2)


def replay(sh: Shard, w: dict) -> None:
    from vf.harness import c10_sched as H

    H.drive(sh, Observer, CLASSES, replay_case=w["case"])
