"""C28  Steps get the binding of their nearest bound ancestor.

Workload: random StreamFlow files (plain dicts): 1..5 deployments with `wraps` chains of length
0..4 (string and mapping form, self references, 2..n cycles, shared tails, cycles away from the
start), `workdir` at any level; 1..8 bindings over step paths of depth 0..4 (the root binding
included), port bindings mixed in (also on a path that is a step path or a prefix of one), one or
several targets per binding with own workdir / service / locations, binding filters.  Every file is
validated with the real `SfValidator` first; schema-invalid files are only counted.

Real code under observation: `WorkflowConfig(name, file)` and
`get_binding_config(path, "step", workflow_config)` for every node of the generated tree, for
unbound siblings and for deeper descendants.

Oracle (`vf.models.c28_bindings`, works on the raw file): nearest step binding by path components
(root covers the rest, `LocalTarget` otherwise) => same deployments in the same order with the same
locations / service / filters; target workdir = own, else first workdir along the wraps chain, else
the engine's per-type default; `WorkflowDefinitionException` iff some wraps chain is cyclic.
"""
from __future__ import annotations

import copy
import os
import posixpath
import tempfile

from vf.common import CaseTimeout, Shard, digest, short_tb
from vf.models.c28_bindings import (
    chain_length,
    expected_targets,
    has_cycle,
    nearest_step_binding,
    parts,
)

PROPERTY = "C28"

META = {
    "text": "For generated StreamFlow files, get_binding_config returns for every step path the targets "
            "(deployment, service, locations, filters, in order) of the nearest bound ancestor, LocalTarget "
            "when nothing is bound; target workdirs are own-or-inherited along wraps; a file is rejected "
            "with WorkflowDefinitionException exactly when a wraps chain is cyclic.",
    "note": "Only schema-valid files (SfValidator) with distinct step paths, defined deployments/filters and "
            "non-empty workdir strings are judged; the reference resolver reads the raw file.",
    "technique": "differential testing against a reference resolver on generated configurations",
}

NAMES = ["a", "b", "c"]


def plan(tier):
    quick = tier == "quick"
    return {
        "level": "exploration",
        "shards": 16,
        "budget_s": 40 if quick else 500,
        "timeout_s": 600 if quick else 3000,
        "min_nontrivial": 2000 if quick else 60000,
        "required_counters": ["queries_judged", "nearest_ancestor_judged", "inherited_workdir_judged",
                              "cyclic_rejected", "acyclic_with_wraps_accepted", "local_fallback_judged"],
        "rule": "one case per schema-valid generated file; distinct = distinct file; non-trivial = the file has "
                "nested step bindings (one bound path is a proper prefix of another), or a used wraps chain, "
                "or a cycle. Every node of the binding tree plus unbound siblings/descendants is queried.",
        "exhaustive": False,
        "assumptions": [
            "step paths of one file are distinct (the statement does not say which duplicate wins)",
            "bindings name defined deployments and filters; wraps name defined deployments",
        ],
    }


# --------------------------------------------------------------------------------------
def gen_path(rng, depth):
    return "/" + "/".join(rng.choice(NAMES) for _ in range(depth))


def gen_case(rng):
    nd = rng.choice([1, 2, 3, 3, 4, 4, 5])
    names = [f"d{i}" for i in range(nd)]
    acyclic = rng.random() < 0.6
    deps = {}
    for i, n in enumerate(names):
        d = {"type": "local", "config": {}} if rng.random() < 0.7 else {"type": "docker", "config": {"image": "busybox"}}
        if rng.random() < 0.35:
            d["workdir"] = f"/wd/{n}"
        if rng.random() < (0.75 if acyclic else 0.55):
            if acyclic:
                w = names[rng.randrange(i)] if i > 0 else None
                if w is not None and rng.random() < 0.6:
                    w = names[i - 1]  # long chains
            else:
                w = rng.choice(names)
            if w is not None:
                r = rng.random()
                d["wraps"] = w if r < 0.5 else ({"deployment": w} if r < 0.7 else {"deployment": w, "service": rng.choice(["s", "t"])})
        deps[n] = d
    if acyclic and rng.random() < 0.5:  # declaration order must not matter
        keys = list(deps)
        rng.shuffle(keys)
        deps = {k: deps[k] for k in keys}
    bindings, step_paths, port_paths = [], set(), set()
    for _ in range(rng.randint(1, 8)):
        depth = rng.choice([0, 1, 1, 2, 2, 3, 3, 4])
        p = gen_path(rng, depth)
        if rng.random() < 0.25:
            r = rng.random()
            if r < 0.5:
                pp = posixpath.join(p, "out")
            elif r < 0.8 and step_paths:
                sp = rng.choice(sorted(step_paths))  # a port on a step path or on a prefix of one
                k = parts(sp)
                pp = "/" + "/".join(k[: rng.randint(0, len(k))])
            else:
                pp = p
            if pp in port_paths:
                continue
            port_paths.add(pp)
            bindings.append({"port": pp, "target": {"deployment": rng.choice(names), "workdir": "/pw/" + str(rng.randrange(3))}})
            continue
        if p in step_paths:
            continue
        step_paths.add(p)
        tl = []
        for _ in range(rng.choice([1, 1, 2, 3])):
            t = {"deployment": rng.choice(names)}
            if rng.random() < 0.3:
                t["workdir"] = "/tw/" + str(rng.randrange(4))
            if rng.random() < 0.3:
                t["locations"] = rng.randint(1, 3)
            if rng.random() < 0.3:
                t["service"] = rng.choice(["s", "t"])
            tl.append(t)
        b = {"step": p + ("/" if p != "/" and rng.random() < 0.1 else ""),
             "target": tl[0] if len(tl) == 1 and rng.random() < 0.6 else tl}
        if rng.random() < 0.25:
            b["filters"] = rng.choice([["f1"], ["f2"], ["f1", "f2"], ["f2", "f1"]])
        bindings.append(b)
    cfg = {"version": "v1.0",
           "workflows": {"w": {"type": "cwl", "config": {"file": "main.cwl"}, "bindings": bindings}},
           "deployments": deps,
           "bindingFilters": {"f1": {"type": "shuffle", "config": {}}, "f2": {"type": "shuffle", "config": {}}}}
    # queries: every node of the tree, unbound siblings, deeper descendants, a foreign root child
    qs = {"/"}
    for b in bindings:
        k = parts(b.get("step", b.get("port")))
        for n in range(len(k) + 1):
            base = "/" + "/".join(k[:n])
            qs.add(base)
            qs.add(posixpath.join(base, "z"))
            qs.add(posixpath.join(base, rng.choice(NAMES)))
        qs.add(posixpath.join("/" + "/".join(k), rng.choice(NAMES), "z"))
    return {"config": cfg, "queries": sorted(qs)}


# --------------------------------------------------------------------------------------
_validator = None


def default_workdir(dep_type):
    return (os.path.join(os.path.realpath(tempfile.gettempdir()), "streamflow") if dep_type == "local"
            else posixpath.join("/tmp", "streamflow"))


def observed(bc):
    out = []
    for t in bc.targets:
        w = t.deployment.wraps
        out.append({"deployment": t.deployment.name, "type": t.deployment.type, "locations": t.locations,
                    "service": t.service, "workdir": t.workdir, "deployment_workdir": t.deployment.workdir,
                    "wraps": None if w is None else (w.deployment, w.service)})
    return out


def run_case(sh: Shard, case) -> None:
    global _validator
    from streamflow.config.config import WorkflowConfig
    from streamflow.config.validator import SfValidator
    from streamflow.core.deployment import LocalTarget
    from streamflow.core.exception import WorkflowDefinitionException
    from streamflow.deployment.utils import get_binding_config

    cfg = case["config"]
    if _validator is None:
        _validator = SfValidator()
    try:
        _validator.validate(copy.deepcopy(cfg))
    except WorkflowDefinitionException:
        sh.count("schema_invalid_skipped")
        return
    sh.count("schema_valid")
    deps = cfg["deployments"]
    bindings = cfg["workflows"]["w"]["bindings"]
    cyc = has_cycle(deps)
    step_parts = [parts(b["step"]) for b in bindings if "step" in b]
    nested = any(a != b and b[:len(a)] == a for a in step_parts for b in step_parts)
    used_chain = any(chain_length(deps, t["deployment"]) != 0
                     for b in bindings if "step" in b
                     for t in (b["target"] if isinstance(b["target"], list) else [b["target"]]))
    key = digest(cfg)
    sh.case(("cfg", key), nontrivial=nested or used_chain or cyc)
    try:
        with sh.alarm(10):
            try:
                wc = WorkflowConfig("w", copy.deepcopy(cfg))
                raised = None
            except WorkflowDefinitionException as e:
                raised = e
    except CaseTimeout:
        sh.violation(None, "WorkflowConfig construction does not terminate on this file "
                           f"(cyclic wraps: {cyc})", dict(case, cyclic=cyc))
        return
    except Exception as e:
        sh.violation(None, f"WorkflowConfig raised {type(e).__name__}: {e} on a schema-valid file", dict(case, tb=short_tb(e)))
        return
    if cyc:
        if raised is None:
            sh.violation(None, "a cyclic wraps chain was accepted (no WorkflowDefinitionException)", dict(case, cyclic=True))
        else:
            sh.count("cyclic_rejected")
        return
    if raised is not None:
        sh.violation(None, f"an acyclic file was rejected: {raised}", dict(case, cyclic=False))
        return
    if any("wraps" in d for d in deps.values()):
        sh.count("acyclic_with_wraps_accepted")
    for q in case["queries"]:
        exp_b = nearest_step_binding(bindings, q)
        try:
            with sh.alarm(20):
                bc = get_binding_config(q, "step", wc)
        except CaseTimeout:
            sh.violation(None, f"get_binding_config({q!r}) does not terminate", dict(case, query=q))
            return
        except Exception as e:
            sh.violation(None, f"get_binding_config({q!r}) raised {type(e).__name__}: {e}", dict(case, query=q, tb=short_tb(e)))
            continue
        sh.count("queries_judged")
        got = observed(bc)
        got_filters = [f.name for f in bc.filters]
        if exp_b is None:
            sh.count("local_fallback_judged")
            ok = (len(bc.targets) == 1 and isinstance(bc.targets[0], LocalTarget) and not got_filters)
            if not ok:
                sh.violation(None, f"step {q!r} has no bound ancestor, expected local execution, got targets "
                                   f"{[(g['deployment'], g['workdir']) for g in got]}", dict(case, query=q, got=got))
            continue
        exp = expected_targets(cfg, exp_b)
        if parts(exp_b["step"]) != parts(q):
            sh.count("nearest_ancestor_judged")
        else:
            sh.count("own_binding_judged")
        problems = []
        if [g["deployment"] for g in got] != [e["deployment"] for e in exp]:
            problems.append(f"deployments {[g['deployment'] for g in got]} != {[e['deployment'] for e in exp]} "
                            f"(binding {exp_b['step']!r})")
        else:
            for i, (g, e) in enumerate(zip(got, exp)):
                for f in ("type", "locations", "service", "deployment_workdir", "wraps"):
                    ge, ee = g[f], e[f]
                    if f == "wraps":
                        ge, ee = (tuple(ge) if ge else None), (tuple(ee) if ee else None)
                    if ge != ee:
                        problems.append(f"target {i} {f}: {g[f]!r} != {e[f]!r}")
                want_wd = e["workdir"] if e["workdir"] is not None else default_workdir(e["type"])
                if e["workdir"] is not None and exp_b["target"] is not None:
                    own = (exp_b["target"] if isinstance(exp_b["target"], list) else [exp_b["target"]])[i].get("workdir")
                    if own is None:
                        sh.count("inherited_workdir_judged")
                        if "workdir" not in deps[e["deployment"]]:
                            sh.count("workdir_from_wrapped_judged")
                    else:
                        sh.count("own_workdir_judged")
                else:
                    sh.count("default_workdir_judged")
                if g["workdir"] != want_wd:
                    problems.append(f"target {i} workdir: {g['workdir']!r} != {want_wd!r}")
        if got_filters != list(exp_b.get("filters", [])):
            problems.append(f"filters {got_filters} != {exp_b.get('filters', [])}")
        if problems:
            sh.violation(None, f"step {q!r}: " + "; ".join(problems[:4]), dict(case, query=q, got=got, expected=exp))
    if sh.shard < 3 and nested and used_chain:
        sh.sample({"deployments": deps, "bindings": bindings, "queries": len(case["queries"])}, limit=1)


def run_shard(sh: Shard) -> None:
    import logging
    import time

    import streamflow.config.config  # noqa: F401
    import streamflow.config.validator  # noqa: F401
    import streamflow.deployment.utils  # noqa: F401

    logging.getLogger("streamflow").setLevel(logging.CRITICAL)
    deadline = time.time() + sh.plan["budget_s"]  # counted after the imports
    rng = sh.rng("cfg", sh.shard)
    depth_hist = {}
    for n in range(sh.pick(2500, 60000)):
        if time.time() > deadline and not sh.replaying:
            sh.count("stopped_by_budget")
            break
        case = gen_case(rng)
        run_case(sh, case)
        m = max((chain_length(case["config"]["deployments"], d) for d in case["config"]["deployments"]), default=0)
        depth_hist[m] = depth_hist.get(m, 0) + 1
    sh.note("max_wraps_chain_histogram(-1=cyclic)", {str(k): v for k, v in sorted(depth_hist.items())})


def replay(sh: Shard, w: dict) -> None:
    import logging

    import streamflow.deployment.utils  # noqa: F401

    logging.getLogger("streamflow").setLevel(logging.CRITICAL)
    run_case(sh, {"config": w["config"], "queries": w["queries"]})
