"""C24  Remote path operations agree with the local filesystem.

Differential oracle, the local API (`LocalStreamFlowPath`) is the reference.  Every case prepares
two identical trees L and R with plain `os` calls, then performs the same operation sequence through
`LocalStreamFlowPath` on L and through `RemoteStreamFlowPath` (persistent-shell connector `vf-shell`)
on R.  After every operation the oracle compares (1) raise / no-raise, (2) the return value modulo
the root prefix, (3) the two trees (lstat view: kinds, modes, contents, link targets, hard-link
groups).  After a divergence R is rebuilt from L (plain os calls) so later operations are judged from
equal states again.

Classification of refutations (never of agreement): a case with hostile names is re-run with *benign
twins* of the names (every special character replaced by a letter).  If the local results of the
twin are isomorphic to the hostile ones while the remote results are not, the remote code is
name-sensitive where the reference is not; the label is then decided by the stated character class
of the strings the operation interpolates (unquoted / double-quoted / whitespace-split output).
Name-insensitive divergences (also every divergence of a benign case) must match a value predicate
(`read_text` strips, `walk` omits symlinks, ...) or they stay unclassified = VIOLATION.
"""
from __future__ import annotations

import asyncio
import os
import platform
import shutil
import time

from vf.common import Shard, digest, short_tb
from vf.harness import c24_gen as G
from vf.harness import c24_names as N
from vf.harness import c24_tree as T
from vf.harness import c24_shellguard as SG
from vf.harness.c24_shellguard import Runaway

PROPERTY = "C24"
META = {
    "text": "Each path operation of RemoteStreamFlowPath (shell commands on a remote location) gives the same "
            "return value, raises in the same situations and leaves the same tree as LocalStreamFlowPath, over "
            "generated trees, operation sequences and path names with shell metacharacters.",
    "note": "Trusted: plain os calls that prepare/observe the trees; the harness connector vf-shell (inherited "
            "BaseConnector persistent shell, stream writer wrapped like ContainerConnector); dash + GNU coreutils "
            "of the sandbox as 'the remote shell'.",
    "technique": "differential testing (local API as reference) with benign-twin control runs for classification",
}
UMASK = 0o022
WALK_LIMIT = 60
RUN_CAP = 150

UNQUOTED_OPS = {"mkdir", "chmod", "read_text", "rmtree", "symlink_to", "hardlink_to", "write_text"}
DQUOTED_OPS = {"size"}


def plan(tier):
    q = tier == "quick"
    return {
        "level": "exploration",
        "shards": 16,
        "budget_s": 45 if q else 780,
        "timeout_s": 420 if q else 2400,
        "jail": True,
        "min_nontrivial": 100 if q else 1000,
        "required_counters": ["ops_compared", "trees_compared", "benign_ops_judged", "hostile_ops_judged",
                              "twin_controls_run", "stateful_ops_judged", "stateful_queries_repeated_after_mutation",
                              "sized_multibyte_writes", "sized_multibyte_files_prepared"],
        "rule": "case = random tree (<=~10 entries, depth<=3, files/dirs/symlinks/dangling links/hard links, names from "
                "5 benign + 23 hostile classes) + sequence of path operations (first one enumerated over "
                "operation x name class, the rest random); every operation is one judged execution; distinct = "
                "distinct (operation+arguments, tree before it); all are non-trivial (the oracle compares return, "
                "raise class and both trees).  Every case runs on one of three vf-shell connectors (transferBufferSize "
                "65536 / 4096 / 512) with multi-byte contents whose UTF-8 length is a multiple of that buffer -1/0/+1/+7.  "
                "Every third case is a *stateful sequence* (plain names, one pair of trees, 6..15 ops, never re-prepared): "
                "the same queries on the same paths before and after mutations made through other paths.",
        "exhaustive": False,
        "assumptions": [
            "names are single components without '/', NUL, CR/LF/TAB or consecutive blanks (the harness stream "
            "writer, like ContainerConnector, re-splits the command with `eval $(...)`); generator safety rules of "
            "DESIGN 2.5 (no word starting with / ~ . - $ after a blank or operator; command words id / vfnoop_N)",
            "file contents are text without CR (local read_text applies universal newlines)",
            "chmod(follow_symlinks=False) and is_executable are not exercised",
            "walk(follow_symlinks=True) is not judged when a directory-symlink cycle is reachable from the walked top: the "
            "local reference itself is ill-defined there (re-enters the loop until ELOOP); such walks are counted only",
            "umask 022; the sandbox's dash/coreutils stand for the remote host",
        ],
    }


class Env:
    def __init__(self):
        self.ctx = None
        self.conn = None
        self.lloc = None
        self.rloc = None
        self.guard = None
        self.cwd = None
        self.case_no = 0


# ------------------------------------------------------------------------------- environment
async def make_env(sh: Shard) -> Env:
    from streamflow.core.deployment import DeploymentConfig
    from vf.harness.ctx import make_context

    os.umask(UMASK)
    env = Env()
    env.cwd = os.path.join(sh.scratch, "cwd")
    os.makedirs(env.cwd, exist_ok=True)
    os.chdir(env.cwd)  # stray files created by shell interpretation land here and are reported
    base = os.path.join(sh.scratch, "sf")
    env.ctx = make_context(base, db="default")
    dm = env.ctx.deployment_manager
    await dm.deploy(DeploymentConfig(name="rem", type="vf-shell", config={}, external=False, lazy=False, workdir=base))
    for b in G.BUFFERS[1:]:  # the same connector class with small transferBufferSize: chunk boundaries at small sizes
        await dm.deploy(DeploymentConfig(name=f"rem{b}", type="vf-shell", config={"transferBufferSize": b}, external=False,
                                         lazy=False, workdir=base))
    await dm.deploy(DeploymentConfig(name="__LOCAL__", type="local", config={}, external=True, lazy=False, workdir=base))
    env.conn = dm.get_connector("rem")
    env.rloc = next(iter((await env.conn.get_available_locations()).values())).location
    env.lloc = next(iter((await dm.get_connector("__LOCAL__").get_available_locations()).values())).location
    env.guard = SG.Guard(env.conn, run_cap=RUN_CAP)
    env.guard.count_runs()
    env.remotes = {G.BUFFERS[0]: (env.conn, env.rloc, env.guard)}
    for b in G.BUFFERS[1:]:
        conn = dm.get_connector(f"rem{b}")
        assert conn.transferBufferSize == b
        guard = SG.Guard(conn, run_cap=RUN_CAP)
        guard.count_runs()
        env.remotes[b] = (conn, next(iter((await conn.get_available_locations()).values())).location, guard)
    return env


async def close_env(env: Env):
    from vf.harness.ctx import close_context

    try:
        await asyncio.wait_for(close_context(env.ctx), 30)
    except Exception:
        pass


async def guarded(env, coro):
    return await SG.guarded(env.guard, coro)


async def settle_children(env):
    await SG.settle_children(env.conn)


# ------------------------------------------------------------------------------- operations
def _norm(v, root):
    if isinstance(v, str):
        return v.replace(root, "<R>")
    if isinstance(v, (list, tuple)):
        return [_norm(x, root) for x in v]
    return v


async def perform(env, loc, root, op, names):
    from streamflow.data.remotepath import StreamFlowPath

    def P(rel):
        return StreamFlowPath(os.path.join(root, rel) if rel else root, context=env.ctx, location=loc)

    t = op["op"]
    p = P(T.subst(op["path"], names))
    if t == "exists":
        r = await p.exists()
    elif t == "is_file":
        r = await p.is_file()
    elif t == "is_dir":
        r = await p.is_dir()
    elif t == "is_symlink":
        r = await p.is_symlink()
    elif t == "mkdir":
        r = await p.mkdir(mode=op["mode"], parents=op["parents"], exist_ok=op["exist_ok"])
    elif t == "write_text":
        r = await p.write_text(N.expand(op["data"]))
    elif t == "read_text":
        r = await (p.read_text() if op.get("n") is None else p.read_text(n=op["n"]))
    elif t == "size":
        r = await p.size()
    elif t == "checksum":
        r = await p.checksum()
    elif t == "glob":
        r = sorted([str(x) async for x in p.glob(op["pattern"])])
    elif t == "walk":
        out = []
        seen = set()
        async for a, b, c in p.walk(top_down=op["top_down"], follow_symlinks=op["follow_symlinks"]):
            out.append([str(a), sorted(b), sorted(c)])
            if str(a) in seen or len(out) > WALK_LIMIT:
                raise Runaway(f"walk yielded the same directory twice (or more than {WALK_LIMIT}): {_norm(out[-2:], root)}")
            seen.add(str(a))
        r = sorted(out)
    elif t == "resolve":
        x = await p.resolve()
        r = None if x is None else str(x)
    elif t == "rmtree":
        r = await p.rmtree()
    elif t in ("symlink_to", "hardlink_to"):
        if "raw_target" in op:
            tgt = T.subst(op["raw_target"], names)
        else:
            tgt = os.path.join(root, T.subst(op["target"], names))
        r = await (p.symlink_to(tgt) if t == "symlink_to" else p.hardlink_to(tgt))
    elif t == "chmod":
        r = await p.chmod(op["mode"])
    else:
        raise ValueError(t)
    return _norm(r, root)


async def local_op(env, root, op, names):
    try:
        return ["ok", await perform(env, env.lloc, root, op, names)]
    except Runaway as e:
        return ["runaway", str(e)]
    except Exception as e:
        return ["exc", type(e).__name__, str(e).replace(root, "<R>")[:240]]


def ftype(p):
    if not os.path.lexists(p):
        return "missing"
    if os.path.islink(p):
        return "lf" if os.path.isfile(p) else "ld" if os.path.isdir(p) else "dangling"
    return "file" if os.path.isfile(p) else "dir" if os.path.isdir(p) else "other"


def dir_symlink_cycle(top: str) -> bool:
    """True iff, following symlinks, some directory reachable from `top` is its own ancestor (dev, ino)."""
    def rec(path, ancestors, depth):
        try:
            st = os.stat(path)
        except OSError:
            return False
        import stat as _st
        if not _st.S_ISDIR(st.st_mode):
            return False
        key = (st.st_dev, st.st_ino)
        if key in ancestors:
            return True
        if depth > 12:
            return True  # deeper than any generated tree: treat as a cycle
        try:
            names_ = os.listdir(path)
        except OSError:
            return False
        return any(rec(os.path.join(path, n), ancestors | {key}, depth + 1) for n in names_)

    return rec(top, frozenset(), 0)


def facts_of(root, op, names):
    rel = T.subst(op["path"], names)
    p = os.path.join(root, rel) if rel else root
    f = {"self": ftype(p), "parent": ftype(os.path.dirname(p))}
    if "target" in op:
        f["target"] = ftype(os.path.join(root, T.subst(op["target"], names)))
    return f


def interpolated(op, names):
    """Strings (below the root) that the operation puts into its shell command."""
    out = [T.subst(op["path"], names)]
    if "raw_target" in op:
        out.append(T.subst(op["raw_target"], names))
    if "target" in op:
        out.append(T.subst(op["target"], names))
    return out


def same_outcome(a, b):
    if a[0] != b[0]:
        return False
    return a[0] != "ok" or a[1] == b[1]


# ------------------------------------------------------------------------------- canonical forms (twin control)
def canon_value(op, v, names):
    t = op["op"]
    idx = {n: i for i, n in reversed(list(enumerate(names)))}
    if isinstance(v, str) and t in ("resolve",):
        return T.canon_rel(v, names)
    if t == "glob" and isinstance(v, list):
        return sorted(T.canon_rel(x, names) if isinstance(x, str) else x for x in v)
    if t == "walk" and isinstance(v, list):
        out = []
        for e in v:
            if isinstance(e, list) and len(e) == 3:
                out.append([T.canon_rel(e[0], names), sorted(f"<{idx[x]}>" if x in idx else x for x in e[1]),
                            sorted(f"<{idx[x]}>" if x in idx else x for x in e[2])])
            else:
                out.append(e)
        return sorted(out, key=repr)
    return v


def canon_outcome(op, res, names):
    if res[0] == "ok":
        return ["ok", canon_value(op, res[1], names)]
    return [res[0]]


# ------------------------------------------------------------------------------- value predicates
def _model_remote_size(p):
    """What `find -L p -type f -exec ls -ln {} +  | awk sum($5)` adds up: every path whose *followed* type is a
    regular file, with the size `ls -ln` prints for the path itself (a symlink's own length)."""
    import stat as _st

    def rec(path, ancestors):
        try:
            st = os.stat(path)
        except OSError:
            return 0  # dangling link: -L cannot follow it, it is not of type f
        if _st.S_ISREG(st.st_mode):
            return os.lstat(path).st_size
        if _st.S_ISDIR(st.st_mode):
            key = (st.st_dev, st.st_ino)
            if key in ancestors:
                return 0  # "File system loop detected": find does not descend again
            try:
                names = os.listdir(path)
            except OSError:
                return 0
            return sum(rec(os.path.join(path, n), ancestors | {key}) for n in names)
        return 0

    return rec(p, frozenset())


def value_predicates(op, names, facts, lres, rres, ldiff, Lroot):
    """Name-insensitive mechanisms.  Every predicate is a statement about *this* witness."""
    t = op["op"]
    rel = T.subst(op["path"], names)
    p = os.path.join(Lroot, rel) if rel else Lroot
    lok, rok = lres[0] == "ok", rres[0] == "ok"
    lv, rv = (lres[1] if lok else None), (rres[1] if rok else None)
    tree_equal = not ldiff
    if t == "read_text" and lok and rok and tree_equal and isinstance(lv, str) and isinstance(rv, str):
        if op.get("n") is None:
            if rv == lv.strip() and rv != lv:
                return "C24/read_text-strips"
        else:
            try:
                with open(p, "rb") as f:
                    data = f.read()
            except OSError:
                data = None
            if data is not None:
                byte_view = data[: op["n"]].decode("utf-8", errors="replace")
                if data[: op["n"]] == lv.encode("utf-8") and rv == lv.strip() and rv != lv:
                    return "C24/read_text-strips"
                if data[: op["n"]] != lv.encode("utf-8") and rv == byte_view.strip():
                    return "C24/read_text-n-counts-bytes"
    if t == "read_text" and op.get("n") == 0 and facts["self"] in ("dir", "ld") and lres[0] == "exc" \
            and lres[1] == "IsADirectoryError" and rok and rv == "" and tree_equal:
        return "C24/read_text-n0-on-directory"
    if t == "checksum" and lok and rok and tree_equal and lv is None and rv == "":
        return "C24/checksum-nonfile-empty-string"
    if t == "size" and lok and rok and tree_equal and isinstance(lv, int) and isinstance(rv, int) and lv != rv:
        has_link = os.path.islink(p) or any(
            os.path.islink(os.path.join(d, n)) for d, ds, fs in os.walk(p, followlinks=False) for n in ds + fs)
        if has_link and rv == _model_remote_size(p):
            return "C24/size-follows-and-counts-symlinks"
    if t == "walk" and lok and tree_equal:
        if rres[0] == "runaway" and len(lv) > 1:
            return "C24/walk-never-descends"
        if rok and not op["follow_symlinks"] and facts["self"] == "ld" and rv == [[lv[0][0], [], []]] and (lv[0][1] or lv[0][2]):
            # `find <link> -mindepth 1` without -L does not enter a start point that is a symlink to a directory;
            # the local walk (scandir of the top) does
            return "C24/walk-top-symlink-not-entered"
        if rok and lv == [] and facts["self"] in ("file", "lf", "dangling") and rv == [[("<R>/" + rel) if rel else "<R>", [], []]]:
            # `find <non-directory> -mindepth 1 -maxdepth 1` prints nothing and exits 0: walk yields one empty entry for a
            # path that is not a directory, the local walk (scandir fails) yields nothing
            return "C24/walk-non-directory-yields-empty-entry"
        if rok and isinstance(rv, list) and rv != lv:
            # model of the two listed mechanisms on top of the local result:
            #  (1) with follow_symlinks `find -L` exits 1 for a directory that contains a link it cannot follow for a
            #      reason other than ENOENT (ENOTDIR, ELOOP); walk swallows the error: that directory and everything
            #      below it is missing;
            #  (2) `-type f` never lists symlinks (follow_symlinks=False) / dangling symlinks (follow_symlinks=True)
            def _unfollowable(q):
                try:
                    os.stat(q)
                except FileNotFoundError:
                    return False
                except OSError:
                    return True
                return False

            exp, removed, failed = [], 0, []
            for d, dirs, files in lv:
                dd = d.replace("<R>", Lroot)
                if op["follow_symlinks"] and os.path.isdir(dd) and any(
                        os.path.islink(os.path.join(dd, n)) and _unfollowable(os.path.join(dd, n)) for n in os.listdir(dd)):
                    failed.append(d)
            for d, dirs, files in lv:
                if any(d == f or d.startswith(f + "/") for f in failed):
                    continue
                dd = d.replace("<R>", Lroot)
                keep = []
                for f in files:
                    q = os.path.join(dd, f)
                    if os.path.islink(q) and (not op["follow_symlinks"] or not os.path.exists(q)):
                        removed += 1
                    else:
                        keep.append(f)
                exp.append([d, dirs, keep])
            if sorted(exp) == rv:
                if failed:
                    return "C24/walk-find-error-yields-nothing"
                if removed:
                    return "C24/walk-omits-symlinks"
    if t == "mkdir" and lok and rok and len(ldiff) == 1:
        k, a, b = ldiff[0]
        if k == rel and a and b and a[0] == "dir" and b[0] == "dir" and a[1] == (op["mode"] & ~UMASK) and b[1] == op["mode"] \
                and facts["self"] == "missing":
            return "C24/mkdir-mode-ignores-umask"
    if t == "mkdir" and lres[0] == "exc" and rok:
        if op["exist_ok"] and not op["parents"] and facts["parent"] == "missing" and lres[1] == "FileNotFoundError":
            return "C24/mkdir-p-conflates-parents-and-exist_ok"
        if op["parents"] and not op["exist_ok"] and facts["self"] in ("dir", "ld") and lres[1] == "FileExistsError":
            return "C24/mkdir-p-conflates-parents-and-exist_ok"
    if t == "symlink_to" and "raw_target" in op and T.subst(op["raw_target"], names).startswith("-") and lok \
            and facts["self"] == "missing" \
            and any(d[0] == rel and d[1] == ["link", T.subst(op["raw_target"], names)] for d in ldiff):
        # ln parses the relative target as options (no `--`): the local link exists, the remote one is missing / elsewhere
        return "C24/option-injection:symlink_to"
    if t in ("symlink_to", "hardlink_to") and lres[0] == "exc" and lres[1] == "FileExistsError" and rok \
            and facts["self"] != "missing":
        return f"C24/ln-force-replaces-existing:{t}"
    if t == "rmtree" and lok and rok and facts["self"] == "dangling" and len(ldiff) == 1:
        k, a, b = ldiff[0]
        if k == rel and a and a[0] == "link" and b is None:
            return "C24/rmtree-removes-dangling-symlink"
    if t == "write_text" and lres[0] == "exc" and rok and tree_equal and rv == len(N.expand(op["data"])):
        # tee failed (directory / missing parent) but the stream writer never looks at its exit status
        return "C24/write_text-ignores-failure"
    if t == "glob" and lok and rok and tree_equal and lv != rv and any(ch in rel for ch in "*?["):
        # the *local* API hands str(self / pattern) to glob.glob: metacharacters in self are treated as a pattern
        import glob as _glob

        exp = sorted(x.replace(Lroot, "<R>") for x in _glob.glob(os.path.join(_glob.escape(p), op["pattern"])))
        if rv == exp and lv != exp:
            return "C24/local-glob-unescaped-self"
    if t == "glob" and lok and rok and tree_equal and lv and rv == []:
        first = min(lv, key=lambda s: s.encode("utf-8"))
        q = first.replace("<R>", Lroot)
        if os.path.islink(q) and not os.path.exists(q):
            return "C24/glob-first-match-dangling"
    return None


def name_sensitive_label(op, names, lres, rres):
    t = op["op"]
    strings = interpolated(op, names)
    if t in UNQUOTED_OPS and any(N.special_chars(s, N.UNQUOTED_SPECIAL) for s in strings):
        return f"C24/unquoted-path:{t}"
    if t in DQUOTED_OPS and any(N.special_chars(s, N.DQUOTED_SPECIAL) for s in strings):
        return f"C24/dquoted-path:{t}"
    if t == "glob" and lres[0] == "ok" and any(N.special_chars(s, N.WHITESPACE) for s in lres[1]):
        return "C24/glob-output-split-on-whitespace"
    if t == "checksum" and lres[0] == "ok" and rres[0] == "ok" and isinstance(lres[1], str) and "\\" in strings[0] \
            and rres[1] == "\\" + lres[1]:
        return "C24/checksum-escaped-name-marker"
    return None



def report(sh: Shard, label, what, witness):
    """Shard keeps at most 40 witnesses per shard: store one witness per *classified* mechanism and only count
    the further ones, so that an unclassified refutation always finds room for its witness."""
    k = label or "unclassified"
    if label is not None and any((v["mechanism"] or "unclassified") == k for v in sh.violations):
        sh.violation_counts[k] = sh.violation_counts.get(k, 0) + 1
        return
    sh.violation(label, what, witness)


# ------------------------------------------------------------------------------- one case
async def run_case(env: Env, sh: Shard, case: dict, is_twin: bool = False, want_records: bool = False):
    names = case["names"]
    for n in names:
        N.assert_safe(n)
    hostile = not all(N.is_benign(n) for n in names)
    env.conn, env.rloc, env.guard = env.remotes[case.get("buf", G.BUFFERS[0])]
    stateful = bool(case.get("stateful"))
    for act in case["setup"]:
        if act[0] == "file" and act[2].startswith("@@MB:"):
            sh.count("sized_multibyte_files_prepared")
    env.case_no += 1
    base = os.path.join(sh.scratch, "cases", f"c{env.case_no:07d}")
    L, R = os.path.join(base, "L"), os.path.join(base, "R")
    T.wipe(base)
    os.makedirs(base)
    T.build(L, case["setup"], names)
    T.build(R, case["setup"], names)
    cur = T.snapshot(L)
    records = []
    twin_records = None
    try:
        for i, op in enumerate(case["ops"]):
            rpre = T.snapshot(R)
            if rpre != cur:
                sh.count("pre_state_drift_resynced")
                if stateful:
                    break
                T.clone(L, R)
            facts = facts_of(L, op, names)
            if op["op"] == "walk" and op["follow_symlinks"]:
                rel0 = T.subst(op["path"], names)
                if dir_symlink_cycle(os.path.join(L, rel0) if rel0 else L):
                    # domain restriction, not a loosened oracle: on a directory-symlink cycle the *local reference*
                    # is ill-defined (pathlib's walk re-enters the loop until the kernel answers ELOOP, ~40 levels,
                    # platform dependent), so there is nothing to compare with.  Recorded, not judged.
                    sh.count("out_of_domain_symlink_cycle_walks")
                    continue
            lres = await local_op(env, L, op, names)
            rres = await guarded(env, perform(env, env.rloc, R, op, names))
            if any("&" in s for s in interpolated(op, names)):
                await settle_children(env)
                if not await SG.settle_background(env.cwd, env.conn):
                    sh.count("background_jobs_not_settled")
            lsnap, rsnap = T.snapshot(L), T.snapshot(R)
            stray = T.listdir_safe(env.cwd)
            if stray:
                sh.count("stray_files_in_shell_cwd", len(stray))
                for s in stray:
                    T.wipe(os.path.join(env.cwd, s))
            sh.count("ops_compared")
            sh.count("trees_compared")
            sh.count("hostile_ops_judged" if hostile else "benign_ops_judged")
            sh.count(f"op_{op['op']}")
            if stateful:
                sh.count("stateful_ops_judged")
                if i > 0 and op["op"] in G.QUERY_OPS and any(o == op for o in case["ops"][:i]) \
                        and any(o["op"] in G.MUTATING for o in case["ops"][:i]):
                    sh.count("stateful_queries_repeated_after_mutation")
            if op.get("data", "").startswith("@@MB:"):
                sh.count("sized_multibyte_writes")
            sh.case(("op", op, names, digest(cur, 12)))
            if want_records:
                records.append({"l": canon_outcome(op, lres, names), "r": canon_outcome(op, rres, names),
                                "lt": T.canon_snapshot(lsnap, names), "rt": T.canon_snapshot(rsnap, names)})
            if rres[0] == "walltimeout":
                sh.count("walltimeouts")
                sh.inconclusive_because(f"remote {op['op']} exceeded the wall-clock watchdog without a provable shell deadlock: {op} names={names}")
                T.clone(L, R)
                cur = lsnap
                continue
            if lres[0] == "runaway":
                # a symlink loop built by earlier operations + walk(follow_symlinks=True): the local walk itself only
                # stops at ELOOP; recorded as out of domain, not judged
                sh.count("out_of_domain_symlink_loop_walks")
                T.clone(L, R)
                cur = lsnap
                continue
            ret_ok = same_outcome(lres, rres)
            tree_ok = lsnap == rsnap
            if ret_ok and tree_ok:
                cur = lsnap
                continue
            # ---------------------------------------------------------------- refutation
            ldiff = T.diff_snapshots(lsnap, rsnap)
            label, control = None, None
            if hostile and not is_twin:
                if twin_records is None:
                    sh.count("twin_controls_run")
                    tcase = dict(case, names=G.twin_names(names))
                    twin_records = await run_case(env, sh, tcase, is_twin=True, want_records=True)
                tr = twin_records[i] if i < len(twin_records) else None
                if tr is not None:
                    mine = {"l": canon_outcome(op, lres, names), "r": canon_outcome(op, rres, names),
                            "lt": T.canon_snapshot(lsnap, names), "rt": T.canon_snapshot(rsnap, names)}
                    local_iso = mine["l"] == tr["l"] and mine["lt"] == tr["lt"]
                    sensitive = mine["r"] != tr["r"] or mine["rt"] != tr["rt"]
                    control = {"twin_names": G.twin_names(names), "local_isomorphic": local_iso,
                               "remote_name_sensitive": sensitive, "twin_remote": tr["r"], "twin_agrees": tr["l"] == tr["r"] and tr["lt"] == tr["rt"]}
                    if not local_iso:
                        sh.count("twin_not_isomorphic")
                        sh.note("twin_not_isomorphic_sample", {"names": names, "op": op, "local": mine["l"], "twin_local": tr["l"],
                                                                 "tree_diff": T.diff_snapshots(mine["lt"], tr["lt"], 4)})
                    elif sensitive:
                        label = name_sensitive_label(op, names, lres, rres)
            if label is None:
                label = value_predicates(op, names, facts, lres, rres, ldiff, L)
            what = (f"{op['op']} on {interpolated(op, names)!r} ({facts}): local {str(lres)[:160]} vs remote {str(rres)[:160]}"
                    + (f"; trees differ at {ldiff[:2]}" if ldiff else "") + (f"; stray files in the shell's cwd: {stray}" if stray else ""))
            report(sh, label, what, {"case": case, "step": i, "op": op, "facts": facts, "local": lres, "remote": rres,
                                       "tree_diff": ldiff, "stray": stray, "control": control, "is_twin": is_twin})
            sh.count("divergences")
            if stateful:
                # one pair of trees for the whole sequence: never re-prepared.  Go on only while both trees are equal
                if not tree_ok:
                    sh.count("stateful_sequences_stopped_at_tree_divergence")
                    break
                cur = lsnap
                continue
            T.clone(L, R)
            cur = lsnap
    finally:
        T.wipe(base)
    return records



# ------------------------------------------------------------------------------- directed cases
def _d(names, setup, ops):
    return {"names": names, "classes": ["directed"] * len(names), "setup": setup, "ops": ops, "k0": "directed"}


_F = lambda tpl, data="two\n": ["file", tpl, data, 0o644]
_D = lambda tpl: ["dir", tpl, 0o755]
_B = ["plain", "File1", "data01", "README"]
# one minimal witness per listed mechanism (and the same operations on benign names, which must agree
# or be explained by a value predicate); they run first so that every run exercises them.
_BASIC_SETUP = [_D("<0>"), _F("<1>", "hello\nworld"), ["symlink", "<2>", "<1>", True], ["symlink", "l2", "<0>", False],
                ["rawlink", "<3>", "nope"], _F("<0>/g", "x"), ["symlink", "<0>/lg", "<0>/g", False]]
_KINDS = ("<0>", "<1>", "<2>", "l2", "<3>", "nx")
DIRECTED = [
    # benign basics first: every operation on every kind of entry (dir, file, link to file, link to dir, dangling, missing)
    _d(_B, _BASIC_SETUP, [{"op": o, "path": p} for p in _KINDS for o in ("exists", "is_file", "is_dir", "is_symlink")]),
    _d(_B, _BASIC_SETUP, [{"op": o, "path": p} for p in _KINDS for o in ("resolve", "checksum")]
       + [{"op": "size", "path": "<1>"}, {"op": "chmod", "path": "<1>", "mode": 0o640}, {"op": "chmod", "path": "<0>", "mode": 0o711},
          {"op": "chmod", "path": "<2>", "mode": 0o600}, {"op": "read_text", "path": "<2>", "n": None}, {"op": "read_text", "path": "<1>", "n": 5}]),
    _d(_B, _BASIC_SETUP,
       [{"op": "walk", "path": "l2", "top_down": True, "follow_symlinks": False},
        {"op": "walk", "path": "<0>", "top_down": True, "follow_symlinks": True}, {"op": "glob", "path": "", "pattern": "*"},
        {"op": "glob", "path": "", "pattern": "nomatch*"}, {"op": "glob", "path": "<0>", "pattern": "*.txt"},
        {"op": "write_text", "path": "<0>/new", "data": "  lead and trail \n\n"}, {"op": "write_text", "path": "<1>", "data": ""},
        {"op": "symlink_to", "path": "<0>/s1", "target": "<1>"}, {"op": "hardlink_to", "path": "<0>/h1", "target": "<1>"},
        {"op": "mkdir", "path": "<0>/m1", "mode": 0o750, "parents": False, "exist_ok": False}, {"op": "size", "path": "<0>/g"},
        {"op": "rmtree", "path": "l2"}, {"op": "rmtree", "path": "<0>"}, {"op": "rmtree", "path": "<1>"}, {"op": "rmtree", "path": "nx"}]),
    _d(["a b", "File1", "data01", "README"], [_D("d"), _F("<0>"), _F("d/<1>")],
       [{"op": "read_text", "path": "<0>", "n": None}, {"op": "chmod", "path": "<0>", "mode": 0o600},
        {"op": "mkdir", "path": "d/<0>", "mode": 0o755, "parents": False, "exist_ok": False},
        {"op": "write_text", "path": "d/s p", "data": "x"} if False else {"op": "write_text", "path": "d/<0>", "data": "x"},
        {"op": "symlink_to", "path": "d/l1", "target": "<0>"}, {"op": "hardlink_to", "path": "d/h1", "target": "<0>"},
        {"op": "glob", "path": "", "pattern": "*"}, {"op": "rmtree", "path": "<0>"}]),
    _d(['q"q', "File1", "data01", "README"], [_F("<1>")], [{"op": "hardlink_to", "path": "<0>", "target": "<1>"},
                                                        {"op": "exists", "path": "<0>"}, {"op": "is_file", "path": "<0>"}]),
    _d(["a$HOME", "File1", "data01", "README"], [_D("<0>"), _F("<0>/<1>", "12345")], [{"op": "size", "path": "<0>"}, {"op": "size", "path": "<0>/<1>"}]),
    _d(["plain", "File1", "data01", "README"], [_F("<1>")], [{"op": "symlink_to", "path": "<0>", "raw_target": "-rf"},
                                                           {"op": "symlink_to", "path": "<2>", "raw_target": "<1>"}]),
    _d(["a\\b", "File1", "data01", "README"], [_F("<0>", "abc\n")], [{"op": "checksum", "path": "<0>"}, {"op": "size", "path": "<0>"}]),
    _d(_B, [_F("<0>", "line\n"), _F("<1>", "üñí✓\n"), _D("<2>")],
       [{"op": "read_text", "path": "<0>", "n": None}, {"op": "read_text", "path": "<1>", "n": 3}, {"op": "read_text", "path": "<1>", "n": 0},
        {"op": "read_text", "path": "<2>", "n": 0}, {"op": "checksum", "path": "<2>"}, {"op": "checksum", "path": "nx"}, {"op": "checksum", "path": "<0>"},
        {"op": "write_text", "path": "<2>", "data": "abc"}, {"op": "write_text", "path": "nx/<0>", "data": "abc"}]),
    _d(_B, [_D("<0>"), _F("<0>/<1>", "ab"), ["symlink", "<0>/<2>", "<0>/<1>", False], ["rawlink", "<0>/<3>", "nope"]],
       [{"op": "size", "path": "<0>"}, {"op": "size", "path": "<0>/<2>"},
        {"op": "walk", "path": "<0>", "top_down": True, "follow_symlinks": False},
        {"op": "walk", "path": "<0>", "top_down": True, "follow_symlinks": True},
        {"op": "hardlink_to", "path": "h1", "target": "<0>/<2>"}, {"op": "rmtree", "path": "<0>/<3>"}]),
    _d(_B, [_D("<0>"), _D("<0>/d"), _F("<0>/d/<1>")],
       [{"op": "walk", "path": "<0>", "top_down": True, "follow_symlinks": False},
        {"op": "walk", "path": "<0>", "top_down": False, "follow_symlinks": False}]),
    _d(_B, [_D("<0>")],
       [{"op": "mkdir", "path": "<1>", "mode": 0o777, "parents": False, "exist_ok": False},
        {"op": "mkdir", "path": "nx/<1>", "mode": 0o755, "parents": False, "exist_ok": True},
        {"op": "mkdir", "path": "<0>", "mode": 0o755, "parents": True, "exist_ok": False},
        {"op": "mkdir", "path": "<0>", "mode": 0o755, "parents": False, "exist_ok": False},
        {"op": "mkdir", "path": "<0>", "mode": 0o755, "parents": False, "exist_ok": True},
        {"op": "mkdir", "path": "p1/p2/<2>", "mode": 0o750, "parents": True, "exist_ok": True}]),
    _d(_B, [_F("<0>"), _F("<1>", "other")],
       [{"op": "symlink_to", "path": "<1>", "target": "<0>"}, {"op": "hardlink_to", "path": "<1>", "target": "<0>"}]),
    _d(_B, [_D("<0>"), _F("<0>/<1>"), ["rawlink", "<0>/<2>", "<1>/nope"], _F("<0>/<3>")],
       [{"op": "walk", "path": "<0>", "top_down": True, "follow_symlinks": True},
        {"op": "walk", "path": "<0>", "top_down": True, "follow_symlinks": False}]),
    # walk once it descends: a sub-directory whose `find -L` fails (looping link), non-directory tops
    _d(_B, [_D("<0>"), _F("<0>/<1>"), _D("<0>/sub"), _F("<0>/sub/g"), _D("<0>/sub/deep"), ["rawlink", "<0>/sub/loop", "loop/x"],
            _F("<3>"), ["rawlink", "dl", "nope"], ["symlink", "lf", "<3>", False]],
       [{"op": "walk", "path": "<0>", "top_down": True, "follow_symlinks": True},
        {"op": "walk", "path": "<0>", "top_down": False, "follow_symlinks": False},
        {"op": "walk", "path": "<3>", "top_down": True, "follow_symlinks": False},
        {"op": "walk", "path": "dl", "top_down": True, "follow_symlinks": True},
        {"op": "walk", "path": "lf", "top_down": True, "follow_symlinks": False},
        {"op": "walk", "path": "nx", "top_down": True, "follow_symlinks": False}]),
    _d(["b[ab]c", "File1", "data01", "README"], [_D("<0>"), _F("<0>/<1>"), _D("<2>"), _F("<2>/<1>")],
       [{"op": "glob", "path": "<0>", "pattern": "*"}, {"op": "glob", "path": "<2>", "pattern": "*"}]),
    # multi-byte contents around multiples of a small transferBufferSize (write_text / read_text / size / checksum)
    dict(_d(_B, [_F("<0>", "@@MB:1537:2:1"), _F("<3>", "@@MB:1025:1:0")],
            [{"op": "write_text", "path": "<1>", "data": "@@MB:1537:2:0"}, {"op": "write_text", "path": "<2>", "data": "@@MB:513:2:1"},
             {"op": "write_text", "path": "w512", "data": "@@MB:512:1:0"}, {"op": "write_text", "path": "w511", "data": "@@MB:511:0:0"},
             {"op": "read_text", "path": "<1>", "n": None}, {"op": "size", "path": "<1>"}, {"op": "checksum", "path": "<1>"},
             {"op": "read_text", "path": "<0>", "n": None}, {"op": "checksum", "path": "<3>"}, {"op": "size", "path": ""}]), buf=512),
    dict(_d(_B, [_F("<0>", "@@MB:8193:2:1")],
            [{"op": "write_text", "path": "<1>", "data": "@@MB:12289:2:0"}, {"op": "write_text", "path": "<2>", "data": "@@MB:4097:1:1"},
             {"op": "read_text", "path": "<1>", "n": None}, {"op": "checksum", "path": "<0>"}, {"op": "size", "path": "<1>"}]), buf=4096),
    dict(_d(_B, [], [{"op": "write_text", "path": "<1>", "data": "@@MB:196609:2:0"}, {"op": "checksum", "path": "<1>"},
                     {"op": "size", "path": "<1>"}]), buf=65536),
    # stateful: the same queries before / after the watched path's meaning is changed through another path
    dict(_d(_B, [_D("<0>"), _D("<0>/<1>"), _F("<0>/<1>/<2>", "one"), _D("<3>"), _D("<3>/<1>"), _F("<3>/<1>/<2>", "second content"),
                 ["symlink", "lnkdir", "<0>", False], ["symlink", "lnkfile", "<0>/<1>/<2>", True], ["symlink", "lnk2", "lnkdir", False]],
            [{"op": "resolve", "path": "lnkdir/<1>/<2>"}, {"op": "resolve", "path": "lnkfile"}, {"op": "resolve", "path": "lnk2/<1>"},
             {"op": "read_text", "path": "lnkdir/<1>/<2>", "n": None}, {"op": "size", "path": "lnkfile"},
             {"op": "rmtree", "path": "lnkdir"}, {"op": "symlink_to", "path": "lnkdir", "target": "<3>"},
             {"op": "resolve", "path": "lnkdir/<1>/<2>"}, {"op": "resolve", "path": "lnk2/<1>"}, {"op": "read_text", "path": "lnkdir/<1>/<2>", "n": None},
             {"op": "rmtree", "path": "<0>/<1>/<2>"}, {"op": "resolve", "path": "lnkfile"}, {"op": "exists", "path": "lnkfile"},
             {"op": "resolve", "path": "<0>/<1>"}, {"op": "rmtree", "path": "<0>"}, {"op": "resolve", "path": "<0>/<1>"},
             {"op": "is_dir", "path": "<0>/<1>"}]), stateful=True),
    _d(["a", "b", "data01", "README"], [_D("d"), ["rawlink", "d/<0>", "nope"], _F("d/<1>")],
       [{"op": "glob", "path": "d", "pattern": "*"}, {"op": "glob", "path": "d", "pattern": "b*"}, {"op": "glob", "path": "", "pattern": "*/*"}]),
]

# ------------------------------------------------------------------------------- driver
def case_stream(sh: Shard):
    classes = list(N.all_classes())
    pairs = [(c, o) for c in classes for o in G.OPS]
    rnd = 0
    while True:
        for k, (c, o) in enumerate(pairs):
            if not sh.mine(k + rnd):
                continue
            rng = sh.rng("case", rnd, c, o)
            yield G.gen_case(rng, c, o, nops=rng.randint(3, sh.pick(7, 10)), big=sh.pick(0, 1 << 20))
            if k % 3 == 0:
                yield G.gen_stateful(sh.rng("stateful", rnd, k))
        rnd += 1


async def _amain(sh: Shard, cases):
    env = await make_env(sh)
    n = 0
    hist: dict = {}
    pairs = set()
    try:
        for case in cases:
            if n >= 2 and case.get("k0") != "directed" and sh.out_of_budget():  # start-up may eat the budget on a loaded machine: always run two
                break
            hist[case["classes"][0]] = hist.get(case["classes"][0], 0) + 1
            pairs.add((case["classes"][0], case["ops"][0]["op"]))
            try:
                await run_case(env, sh, case)
            except N.UnsafeString as e:
                sh.inconclusive_because(f"generator produced an unsafe string: {e}")
            n += 1
            if n <= 2 and sh.shard < 2:
                sh.sample({"names": case["names"], "classes": case["classes"], "setup": case["setup"][:4], "ops": case["ops"][:3]})
    finally:
        await close_env(env)
    sh.note("cases_run", n)
    sh.note("primary_name_class_histogram", hist)
    sh.note("distinct_first_operation_x_name_class_pairs", len(pairs))
    sh.note("persistent_shell_deadlocks_detected", env.guard.hangs)


def run_shard(sh: Shard) -> None:
    max_rounds = sh.pick(2, 40)
    npairs = len(N.all_classes()) * len(G.OPS)

    def bounded():
        for k, c in enumerate(DIRECTED):
            if sh.mine(k):
                yield c
        per_round = (npairs + sh.nshards - 1) // sh.nshards
        for k, c in enumerate(case_stream(sh)):
            if k >= max_rounds * per_round:
                return
            yield c

    asyncio.run(_amain(sh, bounded()))


def replay(sh: Shard, w: dict) -> None:
    asyncio.run(_amain(sh, [w["case"]]))
