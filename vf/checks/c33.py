"""C33  Tag ordering and tag selection follow numeric component order.

Oracle: key(t) = (depth, tuple(int components)).  The laws are installed as icontract
post-conditions on the *real* functions (so each call the workload makes is judged at the
function's own boundary) and, independently, the workload compares the sort produced by
`compare_tags` with the reference sort.

Domain: tags rooted at "0" (every tag the engine creates is); prefix chains in any order with
duplicates; step names with '/', dots and digits.
"""
from __future__ import annotations

import functools
import itertools
import posixpath

from vf.common import Shard

PROPERTY = "C33"
META = {
    "text": "Exhaustive comparison of compare_tags with the numeric (depth, components) key on all rooted tags of depth <= 3 "
            "(components 0..12), sampled/exhaustive triples for transitivity, sort agreement, random deep multi-digit tags, "
            "get_tag on shuffled prefix chains with duplicates and the job-name split (incl. the root step '/'); an icontract "
            "post-condition judges every compare_tags call at the function's own boundary.",
    "note": "tags are rooted at '0' and made of decimal components (what the engine creates); held on the enumerated/sampled inputs only",
    "technique": "exhaustive small-scope enumeration + icontract post-condition against a numeric reference key",
}


def plan(tier):
    return {
        "level": "exploration",
        "shards": 16,
        "budget_s": 60 if tier == "quick" else 600,
        "timeout_s": 600 if tier == "quick" else 3600,
        "min_nontrivial": 1000,
        "required_counters": ["contract_compare_tags", "contract_get_tag", "contract_job_name"],
        "rule": "all ordered pairs of rooted tags of depth<=3 (components 0..12, so 0.10 vs 0.9 occurs) "
                "for sign/antisymmetry, sampled triples for transitivity, full sort vs reference sort; "
                "random deeper tags with multi-digit components; random prefix chains (shuffled, with "
                "duplicates) for get_tag; random step names x tags for the job-name split. A case is "
                "non-trivial when the two tags differ; distinct = distinct (kind, operands).",
        "exhaustive": True,
        "assumptions": ["tags are rooted at '0' and made of decimal components (what the engine creates)"],
    }


def key(t: str):
    p = t.split(".")
    return (len(p), tuple(int(x) for x in p))


def sign(x):
    return (x > 0) - (x < 0)


class ContractBroken(Exception):
    pass


def install(sh: Shard):
    """icontract post-conditions on the real functions; named conditions + explicit error."""
    import icontract
    import streamflow.core.utils as U

    def cmp_matches_numeric_order(tag1, tag2, result):
        sh.count("contract_compare_tags")
        return sign(result) == sign((key(tag1) > key(tag2)) - (key(tag1) < key(tag2)))

    wrapped = icontract.ensure(cmp_matches_numeric_order, error=ContractBroken)(U.compare_tags)
    return wrapped


def run_shard(sh: Shard) -> None:
    import streamflow.core.utils as U
    from streamflow.core.workflow import Token

    compare_tags = install(sh)
    comps = range(13)
    tags = ["0"] + [f"0.{a}" for a in comps] + [f"0.{a}.{b}" for a in comps for b in comps]

    # 1. exhaustive ordered pairs (sharded by row)
    for i, a in enumerate(tags):
        if not sh.mine(i):
            continue
        for b in tags:
            try:
                c = compare_tags(a, b)
                c2 = U.compare_tags(b, a)
            except ContractBroken as e:
                sh.violation(None, f"compare_tags({a!r},{b!r}) disagrees with numeric component order", {"kind": "pair", "a": a, "b": b, "err": str(e)[:300]})
                sh.case(("pair", a, b), nontrivial=a != b)
                continue
            if sign(c) != -sign(c2):
                sh.violation(None, f"compare_tags not antisymmetric on {a!r},{b!r}", {"kind": "pair", "a": a, "b": b, "ab": c, "ba": c2})
            if (c == 0) != (a == b):
                sh.violation(None, f"compare_tags==0 for distinct tags {a!r},{b!r}", {"kind": "pair", "a": a, "b": b, "ab": c})
            sh.case(("pair", a, b), nontrivial=a != b)
    if sh.shard == 0:
        sh.sample({"kind": "pair", "a": "0.9", "b": "0.10", "compare_tags": U.compare_tags("0.9", "0.10")})

    # 2. sort vs reference sort, on shuffles (a total order must give the same result)
    rng = sh.rng("sort", sh.shard)
    for r in range(sh.pick(3, 40)):
        sub = rng.sample(tags, rng.randint(2, len(tags)))
        got = sorted(sub, key=functools.cmp_to_key(U.compare_tags))
        exp = sorted(sub, key=key)
        sh.case(("sort", sub[:6], len(sub)))
        if got != exp:
            bad = next(i for i, (x, y) in enumerate(zip(got, exp)) if x != y)
            sh.violation(None, f"sorted(compare_tags) differs from numeric order at index {bad}: {got[bad]} vs {exp[bad]}",
                         {"kind": "sort", "tags": sub})

    # 3. triples for transitivity (sampled on depth<=3, exhaustive over depth<=2 in thorough)
    small = ["0"] + [f"0.{a}" for a in comps]
    if not sh.quick():
        for i, (a, b, c) in enumerate(itertools.product(small, repeat=3)):
            if sh.mine(i):
                _triple(sh, U, a, b, c)
    n_tri = sh.pick(20000, 400000)
    for i in range(n_tri):
        if sh.out_of_budget():
            break
        a, b, c = (rng.choice(tags) for _ in range(3))
        _triple(sh, U, a, b, c)

    # 4. random deeper tags with multi-digit components
    for i in range(sh.pick(20000, 600000)):
        if sh.out_of_budget():
            break
        d1, d2 = rng.randint(1, 6), rng.randint(1, 6)
        if rng.random() < 0.6:
            d2 = d1
        mk = lambda d: ".".join(["0"] + [str(rng.choice([0, 1, 2, 9, 10, 11, 19, 20, 99, 100, 101, 123456])) for _ in range(d - 1)])
        a, b = mk(d1), mk(d2)
        if rng.random() < 0.3 and d1 == d2 and d1 > 1:  # differ only in the last component
            b = a.rsplit(".", 1)[0] + "." + str(rng.choice([3, 9, 10, 30, 100]))
        try:
            compare_tags(a, b)
        except ContractBroken as e:
            sh.violation(None, f"compare_tags({a!r},{b!r}) disagrees with numeric component order", {"kind": "pair", "a": a, "b": b, "err": str(e)[:300]})
        sh.case(("pair", a, b), nontrivial=a != b)

    # 5. get_tag on prefix chains; job-name split
    for i in range(sh.pick(20000, 400000)):
        if sh.out_of_budget():
            break
        depth = rng.randint(1, 5)
        full = ["0"] + [str(rng.choice([0, 3, 9, 10, 11, 123])) for _ in range(depth)]
        chain = [".".join(full[:k]) for k in range(1, len(full) + 1)]
        sub = rng.sample(chain, rng.randint(1, len(chain)))
        sub += rng.choices(sub, k=rng.randint(0, 2))
        rng.shuffle(sub)
        sh.count("contract_get_tag")
        try:
            g = U.get_tag([Token(None, tag=t) for t in sub])
        except Exception as e:
            sh.violation(None, f"get_tag raised {type(e).__name__} on {sub}", {"kind": "get_tag", "tags": sub})
            continue
        exp = max(sub, key=lambda t: len(t.split(".")))
        sh.case(("get_tag", sub), nontrivial=len(set(sub)) > 1)
        if g != exp:
            sh.violation(None, f"get_tag({sub}) = {g!r}, deepest tag of the prefix chain is {exp!r}", {"kind": "get_tag", "tags": sub})
        if i < 2 and sh.shard == 1:
            sh.sample({"kind": "get_tag", "tags": sub, "got": g})
        # step names as the translator creates them: "/" for a bare tool (job "/0"), "/a/b..." otherwise
        step = "/" + "/".join(rng.choice(["a", "b.c", "1.2", "x-scatter", "0", "0.1", "s p", "é"]) for _ in range(rng.randint(0, 3)))
        tag = rng.choice(chain)
        jn = posixpath.join(step, tag)
        sh.count("contract_job_name")
        sn, tg = U.get_job_step_name(jn), U.get_job_tag(jn)
        sh.case(("job", step, tag))
        if sn != step or tg != tag:
            sh.violation(None, f"job name {jn!r} split into ({sn!r},{tg!r}), built from ({step!r},{tag!r})", {"kind": "job", "step": step, "tag": tag})


def _triple(sh, U, a, b, c):
    ab, bc, ac = sign(U.compare_tags(a, b)), sign(U.compare_tags(b, c)), sign(U.compare_tags(a, c))
    sh.case(("tri", a, b, c), nontrivial=len({a, b, c}) == 3)
    if ab <= 0 and bc <= 0 and ac > 0 or ab >= 0 and bc >= 0 and ac < 0:
        sh.violation(None, f"compare_tags not transitive on {a},{b},{c}", {"kind": "tri", "a": a, "b": b, "c": c})
    if ab == 0 and bc == 0 and ac != 0:
        sh.violation(None, f"compare_tags equality not transitive on {a},{b},{c}", {"kind": "tri", "a": a, "b": b, "c": c})


def replay(sh: Shard, w: dict) -> None:
    import streamflow.core.utils as U
    from streamflow.core.workflow import Token

    k = w.get("kind")
    if k == "pair":
        a, b = w["a"], w["b"]
        c = U.compare_tags(a, b)
        sh.case(("pair", a, b))
        if sign(c) != sign((key(a) > key(b)) - (key(a) < key(b))) or sign(c) != -sign(U.compare_tags(b, a)):
            sh.violation(None, f"compare_tags({a!r},{b!r})={c}", w)
    elif k == "sort":
        got = sorted(w["tags"], key=functools.cmp_to_key(U.compare_tags))
        sh.case(("sort", w["tags"][:6]))
        if got != sorted(w["tags"], key=key):
            sh.violation(None, "sort differs from numeric order", w)
    elif k == "tri":
        _triple(sh, U, w["a"], w["b"], w["c"])
    elif k == "get_tag":
        g = U.get_tag([Token(None, tag=t) for t in w["tags"]])
        sh.case(("get_tag", w["tags"]))
        if g != max(w["tags"], key=lambda t: len(t.split("."))):
            sh.violation(None, f"get_tag -> {g}", w)
    elif k == "job":
        jn = posixpath.join(w["step"], w["tag"])
        sh.case(("job", jn))
        if U.get_job_step_name(jn) != w["step"] or U.get_job_tag(jn) != w["tag"]:
            sh.violation(None, "job name split", w)
